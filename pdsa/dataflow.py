"""Reaching definitions and def-use helpers on the statement CFG."""

import ast

from .cfg import CFG, header_walk, walk_no_defs
from .model import target_names

PARAM = "param"


class Def:
    __slots__ = ("name", "node", "kind", "value", "stmt")

    def __init__(self, name, node, kind, value=None, stmt=None):
        self.name = name
        self.node = node  # cfg node id (CFG.ENTRY for parameters)
        self.kind = kind  # 'param' | 'assign' | 'aug' | 'for' | 'with' | 'except' | 'import' | 'def' | 'del'
        self.value = value  # ast value expression when kind == 'assign' with a simple target
        self.stmt = stmt

    def __repr__(self):
        return "<Def %s@%s %s>" % (self.name, self.node, self.kind)


def stmt_defs(st, node):
    """Definitions made by the CFG node standing for statement st."""
    out = []
    if isinstance(st, ast.Assign):
        for t in st.targets:
            if isinstance(t, ast.Name):
                out.append(Def(t.id, node, "assign", st.value, st))
            else:
                for n in target_names(t):
                    out.append(Def(n, node, "assign", None, st))
    elif isinstance(st, ast.AnnAssign):
        if isinstance(st.target, ast.Name) and st.value is not None:
            out.append(Def(st.target.id, node, "assign", st.value, st))
    elif isinstance(st, ast.AugAssign):
        if isinstance(st.target, ast.Name):
            out.append(Def(st.target.id, node, "aug", st.value, st))
    elif isinstance(st, (ast.For, ast.AsyncFor)):
        for n in target_names(st.target):
            out.append(Def(n, node, "for", st.iter, st))
    elif isinstance(st, (ast.With, ast.AsyncWith)):
        for it in st.items:
            if it.optional_vars is not None:
                for n in target_names(it.optional_vars):
                    out.append(Def(n, node, "with", it.context_expr, st))
    elif isinstance(st, ast.ExceptHandler):
        if st.name:
            out.append(Def(st.name, node, "except", None, st))
    elif isinstance(st, (ast.Import, ast.ImportFrom)):
        for a in st.names:
            out.append(Def((a.asname or a.name).split(".")[0], node, "import", None, st))
    elif isinstance(st, (ast.FunctionDef, ast.AsyncFunctionDef, ast.ClassDef)):
        out.append(Def(st.name, node, "def", None, st))
    elif isinstance(st, ast.Delete):
        for t in st.targets:
            if isinstance(t, ast.Name):
                out.append(Def(t.id, node, "del", None, st))
    # walrus
    if st is not None and not isinstance(st, (ast.FunctionDef, ast.AsyncFunctionDef, ast.ClassDef)):
        for n in header_walk(st):
            if isinstance(n, ast.NamedExpr) and isinstance(n.target, ast.Name):
                out.append(Def(n.target.id, node, "assign", n.value, st))
    return out


class ReachingDefs:
    def __init__(self, func, cfg=None):
        self.func = func
        self.cfg = cfg or CFG(func.node)
        c = self.cfg
        self.defs_at = {}
        for n, st in c.stmt.items():
            self.defs_at[n] = stmt_defs(st, n) if st is not None else []
        self.param_defs = [Def(p, CFG.ENTRY, PARAM) for p in func.all_param_names()]
        self.defs_at[CFG.ENTRY] = self.param_defs
        init = frozenset()

        def transfer(n, state):
            ds = self.defs_at.get(n) or []
            if not ds:
                return state
            names = {d.name for d in ds}
            keep = frozenset(d for d in state if d.name not in names)
            return keep | frozenset(ds)

        def join(a, b):
            return a | b

        self.instate, self.outstate = c.forward(init, transfer, join)

    def reaching(self, node, name):
        """Definitions of ``name`` that reach the *entry* of cfg node ``node``."""
        st = self.instate.get(node, frozenset())
        return [d for d in st if d.name == name]

    def reaching_at(self, stmt, name):
        n = self.cfg.node(stmt)
        if n is None:
            return []
        return self.reaching(n, name)


def containing_node(cfg, func, target):
    """CFG node whose (header) expressions contain the AST node ``target``."""
    for n, st in cfg.stmt.items():
        if st is None:
            continue
        if st is target:
            return n
        for x in header_walk(st):
            if x is target:
                return n
    return None


def loads(st, name=None):
    """Name loads evaluated by the CFG node of st (header only for compounds)."""
    out = []
    for n in header_walk(st):
        if isinstance(n, ast.Name) and isinstance(n.ctx, ast.Load):
            if name is None or n.id == name:
                out.append(n)
    return out


def parent_map(root):
    pm = {}
    for p in ast.walk(root):
        for c in ast.iter_child_nodes(p):
            pm[id(c)] = p
    return pm
