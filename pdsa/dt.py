"""DT - a small dtype lattice for NumPy values with NEP 50 (NumPy >= 2) promotion.

Tags: 'f64', 'f32', 'c128', 'c64', 'i8'..'i64', 'u8'..'u64', 'bool', 'pyint',
'pyfloat', 'pycomplex', 'in:<param>' (the dtype of an input array, any dtype the caller
may pass), 'cplx(in:<param>)', 'flt(in:<param>)', 'unknown'.  ``dtype_of`` returns the
set of tags an expression may have, joining over all definitions of a name
(flow-insensitive within the function, which is conservative)."""

import ast

NP = {"numpy.float64": "f64", "numpy.float32": "f32", "numpy.complex128": "c128", "numpy.complex64": "c64",
      "numpy.int8": "i8", "numpy.int16": "i16", "numpy.int32": "i32", "numpy.int64": "i64",
      "numpy.uint8": "u8", "numpy.uint16": "u16", "numpy.uint32": "u32", "numpy.uint64": "u64", "numpy.bool_": "bool",
      "float": "f64", "int": "i64", "complex": "c128", "bool": "bool"}
ORDER = ["bool", "u8", "i8", "u16", "i16", "u32", "i32", "u64", "i64", "f32", "f64", "c64", "c128"]
ALLOC = {"numpy.empty", "numpy.zeros", "numpy.ones", "numpy.full", "numpy.array", "numpy.asarray", "numpy.arange", "numpy.empty_like",
         "numpy.zeros_like", "numpy.frombuffer", "numpy.fromfile"}
SAME = {"numpy.pad", "numpy.roll", "numpy.moveaxis", "numpy.reshape", "numpy.squeeze", "numpy.transpose", "numpy.ravel", "numpy.flip",
        "numpy.ascontiguousarray", "numpy.abs", "numpy.square", "numpy.maximum", "numpy.minimum", "numpy.copy", "numpy.conj", "numpy.real"}
JOIN = {"numpy.concatenate", "numpy.stack", "numpy.vstack", "numpy.hstack"}
FLOATING = {"numpy.log", "numpy.exp", "numpy.sqrt", "numpy.mean", "numpy.correlate", "numpy.convolve", "numpy.inner", "numpy.dot", "numpy.sum"}


def promote(a, b):
    """NEP 50 promotion of two tags"""
    if a == b:
        return a
    weak = {"pyint": 0, "pyfloat": 1, "pycomplex": 2}
    for x, y in ((a, b), (b, a)):
        if x in weak:
            if y in weak:
                return x if weak[x] >= weak[y] else y
            if y.startswith("in:") or y.startswith("flt(") or y.startswith("cplx("):
                if x == "pycomplex":
                    return "cplx(%s)" % y if not y.startswith("cplx(") else y
                return y
            if y == "unknown":
                return "unknown"
            # python scalar is weak: keeps the array's kind unless it needs a wider kind
            if x == "pyfloat" and y in ORDER and ORDER.index(y) < ORDER.index("f32"):
                return "f64"
            if x == "pycomplex" and y in ORDER and ORDER.index(y) < ORDER.index("c64"):
                return "c128" if y in ("f64", "i64", "i32", "u32", "u64") or ORDER.index(y) < ORDER.index("f32") else "c64"
            return y
    if "unknown" in (a, b):
        return "unknown"
    if a in ORDER and b in ORDER:
        # simplified: the wider kind wins (exact for the float/complex cases used by the rules)
        hi = a if ORDER.index(a) >= ORDER.index(b) else b
        lo = b if hi == a else a
        if hi == "c64" and lo == "f64":
            return "c128"
        if hi == "f32" and lo in ("i32", "i64", "u32", "u64"):
            return "f64"
        return hi
    # symbolic input dtype with a concrete one
    for x, y in ((a, b), (b, a)):
        if x.startswith("in:") or x.startswith("flt(") or x.startswith("cplx("):
            if y in ("f64",):
                return "f64|" + x  # at least float64 / complex of x: caller-dependent
            if y in ("c128",):
                return "c128"
            return "mixed(%s,%s)" % (x, y)
    return "unknown"


def to_complex(t):
    return {"f64": "c128", "f32": "c64", "c128": "c128", "c64": "c64", "i8": "c128", "i16": "c128", "i32": "c128", "i64": "c128",
            "u8": "c128", "u16": "c128", "u32": "c128", "u64": "c128", "bool": "c128", "pyfloat": "c128", "pyint": "c128"}.get(
        t, ("cplx(%s)" % t) if (t.startswith("in:") or t.startswith("flt(")) else ("c128" if t.startswith("f64|") else "unknown"))


def to_real(t):
    return {"c128": "f64", "c64": "f32", "f64": "f64", "f32": "f32"}.get(t, ("flt(%s)" % t[5:-1]) if t.startswith("cplx(") else "unknown")


class DT:
    def __init__(self, prog, f, array_params=(), attr_tags=None):
        self.prog, self.f = prog, f
        self.array_params = set(array_params)
        self.attr_tags = attr_tags or {}
        self._memo = {}
        self._active = set()
        self.defs = {}
        for n in f.body_nodes():
            if isinstance(n, ast.Assign):
                for t in n.targets:
                    if isinstance(t, ast.Name):
                        self.defs.setdefault(t.id, []).append(n.value)
                    elif isinstance(t, (ast.Tuple, ast.List)):
                        for e in t.elts:
                            if isinstance(e, ast.Name):
                                self.defs.setdefault(e.id, []).append(None)
            elif isinstance(n, ast.AugAssign) and isinstance(n.target, ast.Name):
                self.defs.setdefault(n.target.id, []).append(ast.BinOp(left=ast.Name(id=n.target.id, ctx=ast.Load()), op=n.op, right=n.value))
            elif isinstance(n, ast.Expr) and isinstance(n.value, ast.Call) and isinstance(n.value.func, ast.Attribute) \
                    and n.value.func.attr in ("append", "extend", "insert") and isinstance(n.value.func.value, ast.Name) and n.value.args:
                self.defs.setdefault(n.value.func.value.id, []).append(ast.List(elts=[n.value.args[-1]], ctx=ast.Load()))
            elif isinstance(n, (ast.For,)):
                for x in ast.walk(n.target):
                    if isinstance(x, ast.Name):
                        self.defs.setdefault(x.id, []).append(None)

    def dtype_expr(self, e):
        """tags of a dtype-valued expression (np.float64, x.dtype, self._ret_dtype, 'f8'...)"""
        if e is None:
            return {"f64"}
        q = self.prog.qualify(self.f.module, e, self.f) if isinstance(e, (ast.Name, ast.Attribute)) else None
        if q in NP:
            return {NP[q]}
        if isinstance(e, ast.Name) and e.id in NP and e.id not in self.defs:
            return {NP[e.id]}
        if isinstance(e, ast.Attribute) and e.attr == "dtype":
            return self.of(e.value)
        if isinstance(e, ast.Attribute) and isinstance(e.value, ast.Name) and self.f.params and e.value.id == self.f.params[0]:
            return set(self.attr_tags.get(e.attr, {"unknown"}))
        if isinstance(e, ast.Name) and e.id in self.defs:
            out = set()
            for v in self.defs[e.id]:
                out |= self.dtype_expr(v) if v is not None else {"unknown"}
            return out
        if isinstance(e, ast.Name) and e.id in self.f.all_param_names():
            return {"dtype-param:" + e.id}
        if isinstance(e, ast.IfExp):
            return self.dtype_expr(e.body) | self.dtype_expr(e.orelse)
        return {"unknown"}

    def of(self, e):
        k = id(e)
        if k in self._memo:
            return self._memo[k]
        if k in self._active:
            return set()
        self._active.add(k)
        try:
            r = self._of(e)
        finally:
            self._active.discard(k)
        self._memo[k] = r
        return r

    def _of(self, e):
        prog, f = self.prog, self.f
        if isinstance(e, ast.Constant):
            v = e.value
            if isinstance(v, bool):
                return {"bool"}
            if isinstance(v, int):
                return {"pyint"}
            if isinstance(v, float):
                return {"pyfloat"}
            if isinstance(v, complex):
                return {"pycomplex"}
            return {"unknown"}
        if isinstance(e, ast.Name):
            out = set()
            if e.id in self.array_params:
                out.add("in:" + e.id)
            elif e.id not in self.defs and e.id in f.all_param_names():
                # a parameter annotated int / float (not re-bound in the body)
                cands = [f]
                if f.cls is not None:
                    # the declaration of the method in a base class documents the parameter's type
                    for k in self.prog.mro(f.cls)[1:]:
                        if f.name in k.methods:
                            cands.append(k.methods[f.name])
                for g in cands:
                    for a in ast.walk(g.node.args):
                        if isinstance(a, ast.arg) and a.arg == e.id and isinstance(a.annotation, ast.Name) and a.annotation.id in ("int", "float"):
                            return {"pyint" if a.annotation.id == "int" else "pyfloat"}
            for v in self.defs.get(e.id, []):
                out |= self.of(v) if v is not None else {"unknown"}
            if not out:
                out = {"unknown"}
            return out
        if isinstance(e, ast.Attribute):
            if isinstance(e.value, ast.Name) and f.params and e.value.id == f.params[0] and f.cls is not None:
                return set(self.attr_tags.get(e.attr, {"unknown"}))
            if e.attr in ("T", "flat"):
                return self.of(e.value)
            if e.attr in ("real", "imag"):
                return {to_real(t) if (t.startswith("c") or t.startswith("cplx")) else t for t in self.of(e.value)}
            return {"unknown"}
        if isinstance(e, ast.Subscript):
            return self.of(e.value)
        if isinstance(e, ast.IfExp):
            return self.of(e.body) | self.of(e.orelse)
        if isinstance(e, ast.BinOp):
            out = set()
            for a in self.of(e.left):
                for b in self.of(e.right):
                    out.add(promote(a, b))
            return out
        if isinstance(e, ast.UnaryOp):
            return self.of(e.operand)
        if isinstance(e, (ast.List, ast.Tuple)):
            out = set()
            for x in e.elts:
                out |= self.of(x)
            return out or {"unknown"}
        if isinstance(e, ast.Call):
            q = prog.qualify(f.module, e.func, f)
            dt = None
            for kw in e.keywords:
                if kw.arg == "dtype":
                    dt = kw.value
            if q in ALLOC:
                if dt is not None:
                    return self.dtype_expr(dt)
                if q in ("numpy.array", "numpy.asarray", "numpy.empty_like", "numpy.zeros_like") and e.args:
                    return self.of(e.args[0])
                if q == "numpy.frombuffer" and len(e.args) > 1:
                    return self.dtype_expr(e.args[1])
                if q == "numpy.arange":
                    # the dtype of arange follows its arguments: int64 when they are all integers
                    tags = set()
                    for a in e.args:
                        tags |= self.of(a)
                    if tags and tags <= {"pyint", "i8", "i16", "i32", "i64", "bool"}:
                        return {"i64"}
                    if tags & {"pyfloat", "f32", "f64"}:
                        return {"f64"}
                    return {"f64", "i64"} if "unknown" in tags else {"f64"}
                return {"f64"}
            if q in SAME and e.args:
                base = self.of(e.args[0])
                if dt is not None:
                    return self.dtype_expr(dt)
                if q == "numpy.abs":
                    return {to_real(t) if (t.startswith("c") or t.startswith("cplx")) else t for t in base}
                return base
            if q in JOIN and e.args:
                tags = self.of(e.args[0])
                out = None
                for t in tags:
                    out = t if out is None else promote(out, t)
                return {out or "unknown"}
            if q in ("numpy.fft.rfft", "numpy.fft.fft", "scipy.fftpack.fft") and e.args:
                return {to_complex(t) for t in self.of(e.args[0])}
            if q in ("numpy.fft.irfft",) and e.args:
                return {to_real(t) for t in self.of(e.args[0])}
            if q in ("numpy.fft.ifft", "scipy.fftpack.ifft") and e.args:
                return {to_complex(t) for t in self.of(e.args[0])}
            if q in FLOATING and e.args:
                if dt is not None:
                    return self.dtype_expr(dt)
                out = set()
                for t in self.of(e.args[0]):
                    out.add(t if (t in ("f64", "f32", "c128", "c64") or t.startswith("in:") or t.startswith("flt(") or t.startswith("cplx(")) else "f64")
                return out
            if isinstance(e.func, ast.Attribute) and q is None:
                recv = e.func.value
                m = e.func.attr
                if m == "astype" and e.args:
                    return self.dtype_expr(e.args[0])
                if m == "astype" and dt is not None:
                    return self.dtype_expr(dt)
                if m == "view" and e.args:
                    return self.dtype_expr(e.args[0])
                if m in ("copy", "reshape", "ravel", "squeeze", "transpose", "swapaxes", "conj", "conjugate", "flatten", "clip", "round", "cumsum", "max", "min", "item"):
                    return self.of(recv)
                if m in ("sum", "mean", "prod"):
                    if dt is not None:
                        return self.dtype_expr(dt)
                    return self.of(recv)
                # self.method(...) returning arrays: not modelled
            return {"unknown"}
        return {"unknown"}
