"""Element-wise evaluation of small array routines (window functions) by the checker's own interpreter.

``walk.Interp`` follows integers and label arrays.  This extension adds *value arrays*: 1-D arrays whose elements are exact
symbolic expressions (pdsa.sym: rationals, exp, log, factorial), with NumPy's view semantics for basic slices (a slice of an
array, and a name bound to it, write through to the same storage; arithmetic produces fresh arrays; augmented assignment on an
array name updates it in place).  A routine such as ``GammaWindow.get_impulse_response`` can then be evaluated for concrete small
widths and parameters and every returned sample compared with the closed form it documents - however the routine lays out its
time axis, slices, in-place updates and final reversal.  Nothing of the repository is executed; constructs outside the vocabulary
raise ``Unsupported``."""

import ast
import math
from fractions import Fraction

from . import sym as S
from .walk import Interp, Unsupported, ShapeError, _Return  # noqa: F401


class VArr:
    def __init__(self, data, idx=None):
        self.data = data                      # shared storage (list of sym expressions)
        self.idx = list(range(len(data))) if idx is None else list(idx)

    def __len__(self):
        return len(self.idx)

    def values(self):
        return [self.data[i] for i in self.idx]

    def view(self, sl):
        return VArr(self.data, self.idx[sl])

    def write(self, vals):
        if not isinstance(vals, list):
            vals = [vals] * len(self.idx)
        if len(vals) != len(self.idx):
            if len(vals) == 1:
                vals = vals * len(self.idx)
            else:
                raise ShapeError("%d values are stored into %d elements" % (len(vals), len(self.idx)))
        for i, v in zip(self.idx, vals):
            self.data[i] = v

    @staticmethod
    def fresh(vals):
        return VArr(list(vals))


def _s(x):
    if isinstance(x, S.E):
        return x
    if isinstance(x, bool):
        return S.lift(int(x))
    if isinstance(x, (int, Fraction)):
        return S.lift(x)
    if isinstance(x, float) and x == int(x):
        return S.lift(int(x))
    if isinstance(x, float):
        return S.lift(Fraction(x).limit_denominator(10 ** 12))
    raise Unsupported("value %r in arithmetic" % (x,))


def _scalar(x):
    return isinstance(x, (int, bool, Fraction, float, S.E))


_BIN = {ast.Add: S.add, ast.Sub: S.sub, ast.Mult: S.mul, ast.Div: S.truediv, ast.Pow: S.power}


class NumInterp(Interp):
    def e_Constant(self, e):
        return e.value

    def e_BinOp(self, e):
        op = type(e.op)
        a, b = self.ev(e.left), self.ev(e.right)
        if isinstance(a, VArr) or isinstance(b, VArr):
            if op not in _BIN:
                raise Unsupported("array operator %s" % op.__name__)
            fn = _BIN[op]
            if isinstance(a, VArr) and isinstance(b, VArr):
                av, bv = a.values(), b.values()
                if len(av) != len(bv):
                    if len(av) == 1:
                        av = av * len(bv)
                    elif len(bv) == 1:
                        bv = bv * len(av)
                    else:
                        raise ShapeError("arrays of lengths %d and %d are combined element-wise" % (len(av), len(bv)))
                return VArr.fresh(self._el(fn, op, x, y) for x, y in zip(av, bv))
            if isinstance(a, VArr) and _scalar(b):
                return VArr.fresh(self._el(fn, op, x, _s(b)) for x in a.values())
            if isinstance(b, VArr) and _scalar(a):
                return VArr.fresh(self._el(fn, op, _s(a), y) for y in b.values())
            raise Unsupported("array combined with %s" % type(b if isinstance(a, VArr) else a).__name__)
        if (isinstance(a, (S.E, Fraction, float)) or isinstance(b, (S.E, Fraction, float)) or op in (ast.Div, ast.Pow)) and _scalar(a) and _scalar(b) and op in _BIN:
            if op is ast.Div and isinstance(a, (int, Fraction)) and isinstance(b, (int, Fraction)) and not isinstance(a, bool):
                if b == 0:
                    raise ShapeError("division by zero")
                return Fraction(a) / Fraction(b)
            if op is ast.Pow and isinstance(a, (int, Fraction)) and isinstance(b, int) and not (a == 0 and b < 0):
                return Fraction(a) ** b if b < 0 or isinstance(a, Fraction) else a ** b
            if all(isinstance(x, (int, Fraction)) and not isinstance(x, bool) for x in (a, b)) and op in (ast.Add, ast.Sub, ast.Mult):
                return {ast.Add: a + b, ast.Sub: a - b, ast.Mult: a * b}[op]
            return self._el(_BIN[op], op, _s(a), _s(b))
        return Interp.e_BinOp(self, e)

    @staticmethod
    def _el(fn, op, x, y):
        if op is ast.Pow and S.is_num(x) and S.is_num(y) and x.value == 0:
            # 0 ** 0 is 1, 0 ** k is 0 for k > 0 (NumPy and Python agree); 0 ** negative is an error for exact values
            if y.value == 0:
                return S.ONE
            if y.value > 0:
                return S.ZERO
            raise ShapeError("0 is raised to a negative power")
        if op is ast.Div and S.is_num(y) and y.value == 0:
            raise ShapeError("division by zero")
        return fn(x, y)

    def e_UnaryOp(self, e):
        if isinstance(e.op, ast.USub):
            v = self.ev(e.operand)
            if isinstance(v, VArr):
                return VArr.fresh(S.neg(x) for x in v.values())
            if isinstance(v, S.E):
                return S.neg(v)
            if isinstance(v, (Fraction, float)):
                return -v
        return Interp.e_UnaryOp(self, e)

    def e_Compare(self, e):
        vals = [self.ev(e.left)] + [self.ev(c) for c in e.comparators]
        if all(isinstance(v, (int, bool, Fraction)) for v in vals) and any(isinstance(v, Fraction) for v in vals):
            left = vals[0]
            for op, right in zip(e.ops, vals[1:]):
                r = {ast.Lt: left < right, ast.LtE: left <= right, ast.Gt: left > right, ast.GtE: left >= right,
                     ast.Eq: left == right, ast.NotEq: left != right}.get(type(op))
                if r is None:
                    raise Unsupported("comparison")
                if not r:
                    return False
                left = right
            return True
        return Interp.e_Compare(self, e)

    def e_Subscript(self, e):
        v = self.ev(e.value)
        if isinstance(v, VArr):
            sl = e.slice
            if isinstance(sl, ast.Constant) and sl.value is Ellipsis:
                return VArr(v.data, v.idx)
            if isinstance(sl, ast.Slice):
                lo = None if sl.lower is None else self.ev(sl.lower)
                hi = None if sl.upper is None else self.ev(sl.upper)
                st = None if sl.step is None else self.ev(sl.step)
                if any(x is not None and not isinstance(x, int) for x in (lo, hi, st)) or st == 0:
                    raise Unsupported("slice bound")
                return v.view(slice(lo, hi, st))
            i = self.ev(sl)
            if isinstance(i, int):
                if not -len(v) <= i < len(v):
                    raise ShapeError("index %d is outside an array of length %d" % (i, len(v)))
                return v.values()[i]
            raise Unsupported("array index")
        return Interp.e_Subscript(self, e)

    def assign(self, t, v):
        if isinstance(t, ast.Subscript):
            base = self.ev(t.value)
            if isinstance(base, VArr):
                tgt = self.e_Subscript(ast.copy_location(ast.Subscript(value=t.value, slice=t.slice, ctx=ast.Load()), t))
                if isinstance(tgt, VArr):
                    tgt.write(v.values() if isinstance(v, VArr) else _s(v))
                    return
                i = self.ev(t.slice)
                base.data[base.idx[i]] = _s(v)
                return
        Interp.assign(self, t, v)

    def s_AugAssign(self, st):
        if isinstance(st.target, ast.Name) and isinstance(self.env.get(st.target.id), VArr):
            cur = self.env[st.target.id]
            new = self.ev(ast.copy_location(ast.BinOp(left=ast.Name(id=st.target.id, ctx=ast.Load()), op=st.op, right=st.value), st))
            if not isinstance(new, VArr):
                raise Unsupported("augmented assignment on an array")
            cur.write(new.values())
            return
        Interp.s_AugAssign(self, st)

    def e_Call(self, e):
        f = e.func
        name = f.attr if isinstance(f, ast.Attribute) else (f.id if isinstance(f, ast.Name) else None)
        mod = self.key(f.value) if isinstance(f, ast.Attribute) else None
        kws = {k.arg: k.value for k in e.keywords}
        if mod in ("np", "numpy", "math") or isinstance(f, ast.Name):
            if name == "arange" and mod in ("np", "numpy"):
                args = [self.ev(a) for a in e.args]
                if all(isinstance(a, int) for a in args) and 1 <= len(args) <= 3:
                    return VArr.fresh(S.lift(i) for i in range(*args))
                raise Unsupported("arange of non-integers")
            if name in ("zeros", "empty", "ones") and mod in ("np", "numpy") and len(e.args) >= 1:
                n = self.ev(e.args[0])
                if isinstance(n, int) and n >= 0:
                    return VArr.fresh([S.ONE if name == "ones" else S.ZERO] * n)
            if name in ("array", "asarray", "ascontiguousarray", "copy", "flip", "flipud", "float64", "float") and len(e.args) >= 1:
                v = self.ev(e.args[0])
                if isinstance(v, VArr):
                    vals = v.values()
                    return VArr.fresh(vals[::-1] if name in ("flip", "flipud") else vals)
                if isinstance(v, list) and name in ("array", "asarray"):
                    return VArr.fresh(_s(x) for x in v)
                if _scalar(v) and name in ("float", "float64"):
                    return v
            if name in ("exp", "log", "sqrt") and len(e.args) == 1:
                v = self.ev(e.args[0])
                if isinstance(v, VArr):
                    return VArr.fresh(S.call(name, x) for x in v.values())
                if _scalar(v):
                    if name == "log" and isinstance(v, (int, Fraction)) and v <= 0:
                        raise ShapeError("the logarithm of %s is taken" % v)
                    return S.call(name, _s(v))
            if name == "factorial" and len(e.args) == 1:
                v = self.ev(e.args[0])
                if isinstance(v, int) and v >= 0:
                    return math.factorial(v)
                raise ShapeError("factorial of %r" % (v,))
            if name in ("power",) and len(e.args) == 2:
                return self.e_BinOp(ast.copy_location(ast.BinOp(left=e.args[0], op=ast.Pow(), right=e.args[1]), e))
        if isinstance(f, ast.Attribute) and not e.args and name in ("copy", "ravel", "flatten"):
            v = self.ev(f.value)
            if isinstance(v, VArr):
                return VArr.fresh(v.values())
        if name == "len" and len(e.args) == 1:
            v = self.ev(e.args[0])
            if isinstance(v, VArr):
                return len(v)
        return Interp.e_Call(self, e)

    def truth(self, v):
        if isinstance(v, Fraction):
            return v != 0
        if isinstance(v, VArr):
            raise Unsupported("truth value of an array")
        return Interp.truth(self, v)


def run_function(fnode, env, hooks=None):
    """evaluate a function body; returns the returned value (None when it falls off the end)"""
    it = NumInterp(env, hooks=hooks)
    try:
        it.run(fnode.body)
    except _Return as r:
        return r.v
    return None
