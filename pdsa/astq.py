"""Small AST query helpers shared by the rule modules."""

import ast

from .cfg import walk_no_defs
from .model import unparse, AnalysisError


def const_str(n):
    return n.value if isinstance(n, ast.Constant) and isinstance(n.value, str) else None


def literal_str_set(n):
    """Set/tuple/list literal of string constants (also ``set()``) -> python set, else None."""
    if isinstance(n, (ast.Set, ast.Tuple, ast.List)):
        vals = [const_str(e) for e in n.elts]
        if all(v is not None for v in vals):
            return set(vals)
        return None
    if isinstance(n, ast.Call) and isinstance(n.func, ast.Name) and n.func.id in ("set", "frozenset", "tuple") and not n.args and not n.keywords:
        return set()
    if isinstance(n, ast.Call) and isinstance(n.func, ast.Name) and n.func.id in ("set", "frozenset") and len(n.args) == 1:
        return literal_str_set(n.args[0])
    return None


def calls_in(node, pred=None):
    out = []
    for n in walk_no_defs(node):
        if isinstance(n, ast.Call) and (pred is None or pred(n)):
            out.append(n)
    return out


def func_calls(func, pred=None):
    out = []
    for n in func.body_nodes():
        if isinstance(n, ast.Call) and (pred is None or pred(n)):
            out.append(n)
    return out


def is_name(n, name):
    return isinstance(n, ast.Name) and n.id == name


def attr_call(n, attr):
    """n is a call ``<x>.<attr>(...)``"""
    return isinstance(n, ast.Call) and isinstance(n.func, ast.Attribute) and n.func.attr == attr


def callee_q(prog, func, call):
    return prog.qualify(func.module, call.func, func)


def kw(call, name):
    for k in call.keywords:
        if k.arg == name:
            return k.value
    return None


def parents(func):
    pm = {}
    for p in ast.walk(func.node):
        for c in ast.iter_child_nodes(p):
            pm[id(c)] = p
    return pm


def ancestors(pm, node):
    cur = pm.get(id(node))
    while cur is not None:
        yield cur
        cur = pm.get(id(cur))


def enclosing_stmt(pm, node):
    cur = node
    while cur is not None and not isinstance(cur, ast.stmt):
        cur = pm.get(id(cur))
    return cur


def stmts(func, kind=None):
    return [n for n in func.body_nodes() if isinstance(n, ast.stmt) and (kind is None or isinstance(n, kind))]


def returns_of(func):
    return [n for n in func.body_nodes() if isinstance(n, ast.Return)]


def raises_of(func):
    return [n for n in func.body_nodes() if isinstance(n, ast.Raise)]


def raise_type(prog, func, r):
    """Name of the exception class raised by a Raise node (None if re-raise or a variable)."""
    e = r.exc
    if e is None:
        return None
    if isinstance(e, ast.Call):
        e = e.func
    d = prog.dotted(e)
    return d


def single(items, what):
    if len(items) != 1:
        raise AnalysisError("expected exactly one %s, found %d" % (what, len(items)))
    return items[0]


def is_self_attr(n, selfname, attr=None):
    return (isinstance(n, ast.Attribute) and isinstance(n.value, ast.Name) and n.value.id == selfname
            and (attr is None or n.attr == attr))


def store_targets(st):
    if isinstance(st, ast.Assign):
        return list(st.targets)
    if isinstance(st, (ast.AugAssign, ast.AnnAssign)):
        return [st.target]
    return []


def flatten_targets(t):
    if isinstance(t, (ast.Tuple, ast.List)):
        for e in t.elts:
            yield from flatten_targets(e)
    elif isinstance(t, ast.Starred):
        yield from flatten_targets(t.value)
    else:
        yield t


def base_name(n):
    """Root Name of an attribute/subscript chain."""
    while isinstance(n, (ast.Attribute, ast.Subscript, ast.Starred)):
        n = n.value
    return n.id if isinstance(n, ast.Name) else None


def text(n):
    return " ".join(unparse(n).split())


_PROTECT = {"True", "False", "None", "self", "cls", "np", "numpy", "math", "torch", "config", "S"}
_TOKEN = None


def _alpha(txt):
    """Whitespace-free text with every bare identifier that is neither an attribute, nor called,
    nor a module / self prefix replaced by $k in order of first appearance."""
    import re

    txt = txt.replace(" ", "")
    out, names, i = [], {}, 0
    for m in re.finditer(r"[A-Za-z_][A-Za-z_0-9]*|.", txt, re.S):
        tok = m.group(0)
        if re.match(r"[A-Za-z_]", tok):
            prev = txt[m.start() - 1] if m.start() > 0 else ""
            nxt = txt[m.end()] if m.end() < len(txt) else ""
            keyword = tok in ("for", "in", "if", "else", "and", "or", "not", "is", "lambda", "return", "raise", "import", "from", "as", "with", "try",
                              "except", "finally", "while", "def", "class", "pass", "break", "continue", "del", "assert", "yield", "elif")
            if prev == "." or nxt in (".", "(") or tok in _PROTECT or keyword or (prev in "'\"" ):
                out.append(tok)
            elif prev == "=" and nxt == "" and False:
                out.append(tok)
            else:
                if tok not in names:
                    names[tok] = "$%d" % (len(names) + 1)
                out.append(names[tok])
        else:
            out.append(tok)
    return "".join(out)


def eq_text(node, expected):
    """Text equality of an AST node (or text) with an expected source fragment, insensitive to
    whitespace and - as a fallback - to a consistent renaming of plain variables."""
    got = (node if isinstance(node, str) else text(node)).replace(" ", "")
    exp = expected.replace(" ", "")
    if got == exp:
        return True
    # keyword-argument names and string contents must agree literally; only variables may differ
    return _alpha(got) == _alpha(exp)


def in_texts(node, options):
    return any(eq_text(node, o) for o in options)
