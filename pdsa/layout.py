"""Layout analysis: where does every element of the result come from?

A small abstract interpreter over the statements of one function, for *concrete* ranks and axis
arguments but *symbolic* sizes.  An array value is described axis by axis: every axis is a
mixed-radix composition (major -> minor) of "digits", a digit being

    (a, "all")   the full index along input axis a
    (a, "hi")    index // k  along input axis a   (run number)
    (a, "lo")    index %  k  along input axis a   (position inside a run of k)

plus a set of fixed offsets ({(a, "lo"): i} after a strided slice i::k).  Reshapes regroup the
flattened digit sequence (C order) by comparing sizes as monomials; transposes permute axes;
concatenating the k slices i::k (i = 0..k-1, in order) along an axis prepends (a, "lo") to that
axis.  Nothing is executed: sizes stay symbolic, only ranks / axis numbers / flags are concrete.

Unknown constructs raise AnalysisError - the caller reports "cannot decide", never a verdict.
"""

import ast
from fractions import Fraction

from .model import AnalysisError, unparse


class Mono:
    """c * prod(sym ** pow), c a positive rational"""

    def __init__(self, c=1, pw=None):
        self.c = Fraction(c)
        self.pw = {k: v for k, v in (pw or {}).items() if v != 0}

    @staticmethod
    def sym(name):
        return Mono(1, {name: 1})

    def __mul__(self, o):
        o = _mono(o)
        pw = dict(self.pw)
        for k, v in o.pw.items():
            pw[k] = pw.get(k, 0) + v
        return Mono(self.c * o.c, pw)

    __rmul__ = __mul__

    def div(self, o):
        o = _mono(o)
        pw = dict(self.pw)
        for k, v in o.pw.items():
            pw[k] = pw.get(k, 0) - v
        return Mono(self.c / o.c, pw)

    def is_int(self):
        return not self.pw and self.c.denominator == 1

    def __eq__(self, o):
        if isinstance(o, (int, Fraction)):
            o = Mono(o)
        return isinstance(o, Mono) and self.c == o.c and self.pw == o.pw

    def __hash__(self):
        return hash((self.c, tuple(sorted(self.pw.items()))))

    def whole(self):
        return self.c.denominator == 1 and all(v >= 0 for v in self.pw.values())

    def __repr__(self):
        parts = ([] if self.c == 1 and self.pw else [str(self.c)]) + ["%s%s" % (k, "" if v == 1 else "^%s" % v) for k, v in sorted(self.pw.items())]
        return "*".join(parts)


def _mono(x):
    if isinstance(x, Mono):
        return x
    if isinstance(x, bool):
        raise AnalysisError("layout: boolean used as a size")
    if isinstance(x, (int, Fraction)):
        return Mono(x)
    raise AnalysisError("layout: %r is not a size" % (x,))


class Arr:
    def __init__(self, axes, fixed=None, note=""):
        self.axes = [tuple(a) for a in axes]
        self.fixed = dict(fixed or {})
        self.note = note

    def copy(self):
        return Arr(self.axes, self.fixed, self.note)

    def __repr__(self):
        return "Arr(%s%s)" % (self.axes, (" fixed=%s" % self.fixed) if self.fixed else "")


class LoopVar:
    def __init__(self, name, count):
        self.name, self.count = name, count

    def __repr__(self):
        return "<%s in range(%r)>" % (self.name, self.count)


class Lin:
    """var * coef + const  (coef, const sizes)"""

    def __init__(self, var, coef, const):
        self.var, self.coef, self.const = var, _mono(coef), const

    def __repr__(self):
        return "%s*%r+%r" % (self.var.name, self.coef, self.const)


class Repeated(list):
    """a list built by appending one element per iteration of ``for v in range(count)``"""

    def __init__(self, elem, var):
        super().__init__([elem])
        self.var = var


class Sl:
    def __init__(self, lo, hi, st):
        self.lo, self.hi, self.st = lo, hi, st

    def full(self):
        return self.lo is None and self.hi is None and self.st is None

    def __repr__(self):
        return "slice(%r,%r,%r)" % (self.lo, self.hi, self.st)


class Raised(Exception):
    pass


class Returned(Exception):
    def __init__(self, v):
        self.v = v


class Layout:
    """Interpret ``func`` with ``array_param`` bound to a rank-r input whose axis ``run_axis`` has
    length nT*k (k = value of the attribute/expr named by ``k_name``)."""

    def __init__(self, prog, func, rank, bindings, self_attrs, run_axis, k=None):
        self.prog, self.func = prog, func
        self.rank = rank
        self.k = k if k is not None else Mono.sym("k")
        self.run_axis = run_axis
        self.in_shape = []
        for a in range(rank):
            self.in_shape.append(Mono.sym("nT") * self.k if a == run_axis else Mono.sym("d%d" % a))
        self.env = dict(bindings)
        self.self_attrs = dict(self_attrs)
        self.input = Arr([[(a, "all")] for a in range(rank)])
        self.trace = []

    # -------------------------------------------------------------------- sizes
    def digit_size(self, d):
        a, part = d
        if part == "all":
            return self.in_shape[a]
        if part == "hi":
            return self.in_shape[a].div(self.k)
        if part == "lo":
            return self.k
        if isinstance(part, tuple) and part[0] == "off":
            return part[1]
        if isinstance(part, tuple) and part[0] == "blk":
            return self.in_shape[a].div(part[1])
        raise AnalysisError("layout: digit %r" % (d,))

    def axis_size(self, ax):
        m = Mono(1)
        for d in ax:
            m = m * self.digit_size(d)
        return m

    def shape_of(self, arr):
        return [self.axis_size(a) for a in arr.axes]

    # ------------------------------------------------------------------ running
    def run(self):
        try:
            self.block(self.func.node.body)
        except Returned as r:
            return r.v
        return None

    def block(self, body):
        for st in body:
            self.stmt(st)

    def stmt(self, st):
        if isinstance(st, ast.Expr):
            if isinstance(st.value, ast.Constant):
                return
            self.ev(st.value)
            return
        if isinstance(st, ast.Assign):
            v = self.ev(st.value)
            for t in st.targets:
                self.assign(t, v)
            return
        if isinstance(st, ast.AnnAssign):
            if st.value is not None:
                self.assign(st.target, self.ev(st.value))
            return
        if isinstance(st, ast.AugAssign):
            cur = self.ev(st.target)
            v = self.binop(st.op, cur, self.ev(st.value))
            self.assign(st.target, v)
            return
        if isinstance(st, ast.If):
            t = self.truth(self.ev(st.test), st.test)
            self.block(st.body if t else st.orelse)
            return
        if isinstance(st, ast.Raise):
            raise Raised()
        if isinstance(st, ast.Return):
            raise Returned(self.ev(st.value) if st.value is not None else None)
        if isinstance(st, ast.For):
            it = self.ev(st.iter)
            if isinstance(it, tuple) and len(it) == 2 and it[0] == "range" and isinstance(st.target, ast.Name):
                cnt = it[1]
                if isinstance(cnt, int):
                    for i in range(cnt):
                        self.env[st.target.id] = i
                        self.block(st.body)
                    return
                lv = LoopVar(st.target.id, cnt)
                self.env[st.target.id] = lv
                self.env["@loop"] = lv
                self.block(st.body)
                self.env.pop("@loop", None)
                return
            raise AnalysisError("layout: loop over %s not modelled" % unparse(st.iter))
        if isinstance(st, (ast.Pass, ast.Assert)):
            return
        if isinstance(st, ast.Delete):
            return
        raise AnalysisError("layout: statement not modelled: %s" % unparse(st)[:60])

    def truth(self, v, node):
        if isinstance(v, bool):
            return v
        if isinstance(v, int):
            return v != 0
        if v is None:
            return False
        if isinstance(v, Mono):
            if v.is_int():
                return v.c != 0
            return True  # a symbolic size (assumed positive)
        if isinstance(v, (list, tuple, str)):
            return len(v) > 0
        raise AnalysisError("layout: cannot decide the test `%s`" % unparse(node)[:60])

    def assign(self, t, v):
        if isinstance(t, ast.Name):
            self.env[t.id] = v
        elif isinstance(t, (ast.Tuple, ast.List)):
            vs = list(v)
            if len(vs) != len(t.elts):
                raise AnalysisError("layout: unpacking mismatch")
            for e, x in zip(t.elts, vs):
                self.assign(e, x)
        elif isinstance(t, ast.Subscript):
            base = self.ev(t.value)
            idx = self.ev(t.slice)
            if isinstance(base, list) and isinstance(idx, int):
                base[idx] = v
                return
            if isinstance(base, list) and isinstance(idx, Sl) and all(x is None or isinstance(x, int) for x in (idx.lo, idx.hi, idx.st)):
                base[slice(idx.lo, idx.hi, idx.st)] = list(v)
                return
            if isinstance(base, Arr):
                # element-wise store into an array: layout of the stored region only
                raise AnalysisError("layout: store into an array not modelled: %s" % unparse(t)[:50])
            raise AnalysisError("layout: store not modelled: %s" % unparse(t)[:50])
        elif isinstance(t, ast.Attribute):
            raise AnalysisError("layout: attribute store %s" % unparse(t)[:50])
        else:
            raise AnalysisError("layout: target %s" % type(t).__name__)

    # -------------------------------------------------------------- expressions
    def ev(self, n):
        m = getattr(self, "e_" + type(n).__name__, None)
        if m is None:
            raise AnalysisError("layout: expression not modelled: %s" % unparse(n)[:60])
        return m(n)

    def e_Constant(self, n):
        return n.value

    def e_Name(self, n):
        if n.id in self.env:
            return self.env[n.id]
        if n.id in ("np", "numpy"):
            return ("module", "numpy")
        raise AnalysisError("layout: unbound name %s" % n.id)

    def e_Tuple(self, n):
        return tuple(self.ev(e) for e in n.elts)

    def e_List(self, n):
        return [self.ev(e) for e in n.elts]

    def e_Slice(self, n):
        return Sl(self.ev(n.lower) if n.lower is not None else None, self.ev(n.upper) if n.upper is not None else None,
                  self.ev(n.step) if n.step is not None else None)

    def e_UnaryOp(self, n):
        v = self.ev(n.operand)
        if isinstance(n.op, ast.Not):
            return not self.truth(v, n.operand)
        if isinstance(n.op, ast.USub) and isinstance(v, int):
            return -v
        raise AnalysisError("layout: unary %s" % unparse(n)[:40])

    def e_BoolOp(self, n):
        vals = [self.ev(v) for v in n.values]
        if isinstance(n.op, ast.And):
            for v, nd in zip(vals, n.values):
                if not self.truth(v, nd):
                    return v
            return vals[-1]
        for v, nd in zip(vals, n.values):
            if self.truth(v, nd):
                return v
        return vals[-1]

    def e_Compare(self, n):
        left = self.ev(n.left)
        res = True
        for op, c in zip(n.ops, n.comparators):
            right = self.ev(c)
            if isinstance(op, (ast.Is, ast.IsNot)):
                r = (left is right) or (left is None and right is None)
                r = r if isinstance(op, ast.Is) else not r
            elif isinstance(op, (ast.Eq, ast.NotEq)):
                if isinstance(left, (Mono, Arr)) and not isinstance(left, Mono):
                    raise AnalysisError("layout: comparison of arrays")
                r = (left == right)
                r = r if isinstance(op, ast.Eq) else not r
            elif isinstance(left, int) and isinstance(right, int) and not isinstance(left, bool):
                r = {ast.Lt: left < right, ast.LtE: left <= right, ast.Gt: left > right, ast.GtE: left >= right}.get(type(op))
                if r is None:
                    raise AnalysisError("layout: comparison %s" % unparse(n)[:40])
            else:
                raise AnalysisError("layout: cannot decide `%s`" % unparse(n)[:60])
            res = res and r
            left = right
        return res

    def e_IfExp(self, n):
        return self.ev(n.body) if self.truth(self.ev(n.test), n.test) else self.ev(n.orelse)

    def e_BinOp(self, n):
        return self.binop(n.op, self.ev(n.left), self.ev(n.right))

    def binop(self, op, a, b):
        if isinstance(a, list) and isinstance(op, ast.Mult) and isinstance(b, int):
            return [x for _ in range(b) for x in a]
        if isinstance(a, (list, tuple)) and isinstance(b, (list, tuple)) and isinstance(op, ast.Add):
            return list(a) + list(b) if isinstance(a, list) else tuple(a) + tuple(b)
        if isinstance(a, int) and isinstance(b, int) and not isinstance(a, bool):
            if isinstance(op, ast.Add):
                return a + b
            if isinstance(op, ast.Sub):
                return a - b
            if isinstance(op, ast.Mult):
                return a * b
            if isinstance(op, ast.FloorDiv):
                return a // b
            if isinstance(op, ast.Mod):
                return a % b
        if isinstance(a, (LoopVar, Lin)) or isinstance(b, (LoopVar, Lin)):
            la = Lin(a, 1, 0) if isinstance(a, LoopVar) else a
            lb = Lin(b, 1, 0) if isinstance(b, LoopVar) else b
            if isinstance(op, ast.Mult):
                if isinstance(la, Lin) and isinstance(lb, (Mono, int)):
                    return Lin(la.var, la.coef * lb, 0 if la.const == 0 else _mono(la.const) * lb)
                if isinstance(lb, Lin) and isinstance(la, (Mono, int)):
                    return Lin(lb.var, lb.coef * la, 0 if lb.const == 0 else _mono(lb.const) * la)
            if isinstance(op, ast.Add):
                if isinstance(la, Lin) and isinstance(lb, (Mono, int)):
                    if la.const == 0:
                        return Lin(la.var, la.coef, lb)
                if isinstance(lb, Lin) and isinstance(la, (Mono, int)):
                    if lb.const == 0:
                        return Lin(lb.var, lb.coef, la)
            raise AnalysisError("layout: arithmetic on the loop variable: %r %s %r" % (a, type(op).__name__, b))
        if isinstance(a, (Mono, int)) and isinstance(b, (Mono, int)):
            ma, mb = _mono(a), _mono(b)
            if isinstance(op, ast.Mult):
                return ma * mb
            if isinstance(op, ast.FloorDiv):
                q = ma.div(mb)
                if not q.whole():
                    raise AnalysisError("layout: %r // %r is not a whole size" % (ma, mb))
                return q
            if isinstance(op, ast.Mod):
                q = ma.div(mb)
                if q.whole():
                    return 0
                raise AnalysisError("layout: %r %% %r" % (ma, mb))
            if isinstance(op, ast.Sub) and ma == mb:
                return 0
            if isinstance(op, ast.Add) and isinstance(b, int) and b == 0:
                return a
        raise AnalysisError("layout: arithmetic %r %s %r" % (a, type(op).__name__, b))

    def e_Attribute(self, n):
        if isinstance(n.value, ast.Name) and n.value.id == self.func.params[0] and self.func.cls is not None:
            if n.attr in self.self_attrs:
                return self.self_attrs[n.attr]
            raise AnalysisError("layout: self.%s not bound" % n.attr)
        base = self.ev(n.value)
        if isinstance(base, Arr):
            if n.attr == "ndim":
                return len(base.axes)
            if n.attr == "shape":
                return tuple(self.shape_of(base))
            if n.attr == "T":
                return Arr(list(reversed(base.axes)), base.fixed)
            return ("method", base, n.attr)
        if isinstance(base, tuple) and base and base[0] == "module":
            return ("func", base[1] + "." + n.attr)
        if isinstance(base, list):
            return ("method", base, n.attr)
        raise AnalysisError("layout: attribute %s" % unparse(n)[:50])

    def e_Subscript(self, n):
        base = self.ev(n.value)
        idx = self.ev(n.slice)
        if isinstance(base, (list, tuple)) and not (base and base[0] in ("module", "func", "method", "range")):
            if isinstance(idx, int):
                return base[idx]
            if isinstance(idx, Sl):
                if any(isinstance(x, (Mono, LoopVar)) for x in (idx.lo, idx.hi, idx.st) if x is not None):
                    raise AnalysisError("layout: symbolic slice of a list")
                return base[slice(idx.lo, idx.hi, idx.st)]
            raise AnalysisError("layout: list index %r" % (idx,))
        if isinstance(base, Arr):
            return self.index(base, idx, n)
        raise AnalysisError("layout: subscript of %r" % (base,))

    def index(self, arr, idx, node):
        items = list(idx) if isinstance(idx, tuple) else [idx]
        if len(items) > len(arr.axes):
            raise AnalysisError("layout: too many indices in %s" % unparse(node)[:50])
        axes = [tuple(a) for a in arr.axes]
        fixed = dict(arr.fixed)
        out = []
        for pos, it in enumerate(items):
            ax = axes[pos]
            if isinstance(it, Sl):
                if it.full():
                    out.append(ax)
                    continue
                if it.lo in (None, 0) and it.st is None:
                    # crop x[:m]: a prefix; fine when m is the axis length or a whole number of runs
                    out.append(ax)
                    continue
                if it.st is not None and _mono(it.st) == self.k and len(ax) == 1 and ax[0][1] == "all":
                    a = ax[0][0]
                    if not isinstance(it.lo, (LoopVar, int)):
                        raise AnalysisError("layout: strided slice start %r" % (it.lo,))
                    out.append(((a, "hi"),))
                    fixed[(a, "lo")] = it.lo
                    continue
                if it.st is None and isinstance(it.lo, Lin) and isinstance(it.hi, Lin) and it.lo.var is it.hi.var and it.lo.coef == it.hi.coef \
                        and it.lo.const == 0 and _mono(it.hi.const) == it.lo.coef and len(ax) == 1 and ax[0][1] == "all":
                    # x[i*m : (i+1)*m]: the i-th contiguous block of m
                    a, m = ax[0][0], it.lo.coef
                    out.append(((a, ("off", m)),))
                    fixed[(a, ("blk", m))] = it.lo.var
                    continue
                raise AnalysisError("layout: slice %r on axis %r not modelled" % (it, ax))
            raise AnalysisError("layout: index %r not modelled" % (it,))
        out.extend(axes[len(items):])
        return Arr(out, fixed)

    def e_Call(self, n):
        f = n.func
        # builtins by name
        if isinstance(f, ast.Name) and f.id not in self.env:
            args = [self.ev(a) for a in n.args]
            if f.id in ("list", "tuple"):
                if not args:
                    return [] if f.id == "list" else ()
                v = args[0]
                return list(v) if f.id == "list" else tuple(v)
            if f.id == "slice":
                a = args + [None] * (3 - len(args))
                if len(args) == 1:
                    return Sl(None, args[0], None)
                return Sl(a[0], a[1], a[2])
            if f.id == "range" and len(args) == 1:
                return ("range", args[0])
            if f.id == "len":
                return len(args[0])
            if f.id == "bool":
                return self.truth(args[0], n.args[0])
            if f.id == "int":
                return args[0]
            if f.id == "abs" and isinstance(args[0], int):
                return abs(args[0])
            if f.id in ("min", "max") and all(isinstance(a, int) and not isinstance(a, bool) for a in args):
                return min(args) if f.id == "min" else max(args)
            if f.id == "sorted" and isinstance(args[0], (list, tuple)) and all(isinstance(a, int) for a in args[0]):
                return sorted(args[0])
            raise AnalysisError("layout: call %s" % unparse(n)[:50])
        target = self.ev(f)
        args = [self.ev(a) for a in n.args]
        kw = {k.arg: self.ev(k.value) for k in n.keywords if k.arg}
        if isinstance(target, tuple) and target[0] == "method":
            recv, name = target[1], target[2]
            if isinstance(recv, list):
                if name == "append":
                    lv = self.env.get("@loop")
                    if lv is not None:
                        if isinstance(recv, Repeated) or len(recv) == 0:
                            # rebind: the list becomes "one element per iteration"
                            for k_, v_ in list(self.env.items()):
                                if v_ is recv:
                                    self.env[k_] = Repeated(args[0], lv)
                            return None
                        raise AnalysisError("layout: append in a loop to a non-empty list")
                    recv.append(args[0])
                    return None
                raise AnalysisError("layout: list.%s" % name)
            if isinstance(recv, Arr):
                if name == "copy":
                    return recv.copy()
                if name == "astype":
                    return recv.copy()
                if name == "reshape":
                    shp = args[0] if len(args) == 1 and isinstance(args[0], (list, tuple)) else args
                    return self.reshape(recv, list(shp), n)
                if name == "transpose":
                    perm = args[0] if len(args) == 1 and isinstance(args[0], (list, tuple)) else args
                    if not perm:
                        return Arr(list(reversed(recv.axes)), recv.fixed)
                    return Arr([recv.axes[i] for i in perm], recv.fixed)
                if name == "swapaxes":
                    return self.swapaxes(recv, args[0], args[1])
                raise AnalysisError("layout: array method %s" % name)
        if isinstance(target, tuple) and target[0] == "func":
            name = target[1]
            if name in ("numpy.array", "numpy.asarray", "numpy.ascontiguousarray", "numpy.copy", "numpy.require"):
                if isinstance(args[0], Arr):
                    return args[0].copy()
            if name == "numpy.pad" and isinstance(args[0], Arr):
                return args[0].copy()  # padding along the run axis extends it to a whole number of runs; the layout is unchanged
            if name == "numpy.swapaxes":
                return self.swapaxes(args[0], args[1], args[2])
            if name == "numpy.moveaxis":
                return self.moveaxis(args[0], args[1], args[2])
            if name == "numpy.transpose":
                a = args[0]
                perm = args[1] if len(args) > 1 else kw.get("axes")
                if perm is None:
                    return Arr(list(reversed(a.axes)), a.fixed)
                return Arr([a.axes[i] for i in perm], a.fixed)
            if name == "numpy.reshape":
                return self.reshape(args[0], list(args[1]), n)
            if name in ("numpy.concatenate", "numpy.stack"):
                axis = args[1] if len(args) > 1 else kw.get("axis", 0)
                return self.concatenate(args[0], axis, name.endswith("stack"), n)
            raise AnalysisError("layout: %s not modelled" % name)
        raise AnalysisError("layout: call %s" % unparse(n)[:60])

    # ------------------------------------------------------------- array algebra
    def _norm_axis(self, i, r):
        if not isinstance(i, int) or isinstance(i, bool):
            raise AnalysisError("layout: axis %r" % (i,))
        if not -r <= i < r:
            raise AnalysisError("layout: axis %d out of range for rank %d" % (i, r))
        return i % r

    def swapaxes(self, a, i, j):
        r = len(a.axes)
        i, j = self._norm_axis(i, r), self._norm_axis(j, r)
        ax = list(a.axes)
        ax[i], ax[j] = ax[j], ax[i]
        return Arr(ax, a.fixed)

    def moveaxis(self, a, i, j):
        r = len(a.axes)
        i, j = self._norm_axis(i, r), self._norm_axis(j, r)
        ax = list(a.axes)
        x = ax.pop(i)
        ax.insert(j, x)
        return Arr(ax, a.fixed)

    def reshape(self, a, shape, node):
        flat = [d for ax in a.axes for d in ax]
        sizes = [self.digit_size(d) for d in flat]
        target = [_mono(s) for s in shape]
        out = []
        pos = 0
        for t in target:
            acc, cur = Mono(1), []
            while not (acc == t):
                if pos >= len(flat):
                    raise AnalysisError("layout: reshape %s: sizes do not multiply out" % unparse(node)[:60])
                d, sz = flat[pos], sizes[pos]
                need = t.div(acc)
                if sz == need or need.div(sz).whole():
                    cur.append(d)
                    acc = acc * sz
                    pos += 1
                    continue
                # split a full run-axis digit  (a, all) -> (a, hi), (a, lo)
                if d[1] == "all" and d[0] == self.run_axis:
                    flat[pos:pos + 1] = [(d[0], "hi"), (d[0], "lo")]
                    sizes[pos:pos + 1] = [self.digit_size((d[0], "hi")), self.k]
                    continue
                raise ScrambledError("`%s` regroups an axis of size %r into a slot of size %r, so elements of different input axes are interleaved"
                                     % (unparse(node)[:60], sz, need))
            out.append(tuple(cur))
        if pos != len(flat):
            # trailing size-1 digits only
            if any(not (s == Mono(1)) for s in sizes[pos:]):
                raise AnalysisError("layout: reshape %s leaves elements over" % unparse(node)[:60])
        return Arr(out, a.fixed)

    def concatenate(self, seq, axis, stack, node):
        if isinstance(seq, Repeated):
            elem, lv = seq[0], seq.var
            if not isinstance(elem, Arr):
                raise AnalysisError("layout: concatenating non-arrays")
            key = [k_ for k_, v_ in elem.fixed.items() if v_ is lv]
            if len(key) != 1:
                raise AnalysisError("layout: the concatenated pieces are not indexed by the loop variable")
            r = len(elem.axes)
            ax = self._norm_axis(axis, r + (1 if stack else 0))
            axes = list(elem.axes)
            fixed = {k_: v_ for k_, v_ in elem.fixed.items() if k_ != key[0]}
            if stack:
                axes.insert(ax, (key[0],))
            else:
                axes[ax] = (key[0],) + tuple(axes[ax])
            return Arr(axes, fixed)
        raise AnalysisError("layout: concatenate of an explicit list not modelled")


class ScrambledError(Exception):
    """the function provably mixes up elements (a definite layout error, not a modelling gap)"""
