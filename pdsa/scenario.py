"""Scenario evaluation of forward-substituted values.

A value produced by SymEval is a conditional expression over the function's inputs.  A *scenario* fixes the truth of the
atoms the conditions are built from (a flag, "the dtype is float64", "axis is the last one", the rank of the array ...);
specialising the value to a scenario folds every condition whose atoms are fixed and leaves a condition-free expression
that can be compared with the documented result for that scenario.  How the source spells the conditions (negated,
through a predicate helper, as a conditional expression, with the branches swapped) no longer matters; a condition that
mentions an atom the scenario does not fix stays, and the caller reports "cannot decide".

Also here: `canon_np`, a normal form for the NumPy calls that occur in such values (keyword arguments in signature
order, np./numpy. prefixes, slice literals, Ellipsis)."""

from . import sym as S

E = S.E


def transform(e, fn):
    """bottom-up rewrite: fn(node) -> replacement or None (children first, constructors re-fold)"""
    if not isinstance(e, E):
        return e
    if e.op in ("const", "sym", "unknown"):
        r = fn(e)
        return e if r is None else r
    args = [transform(a, fn) if isinstance(a, E) else a for a in e.args]
    e2 = S.rebuild(e.op, args)
    if not isinstance(e2, E):
        return e2
    r = fn(e2)
    return e2 if r is None else r


def is_call(e, *names):
    return isinstance(e, E) and e.op == "call" and e.args[0] in names


_COLL = ("set", "tuple", "list", "frozenset")


def collection_items(e):
    """items of a literal collection (set(...), tuple(...), frozenset applied to one) or None"""
    if is_call(e, *_COLL):
        return list(e.args[1:])
    if is_call(e, "apply") and len(e.args) == 3 and isinstance(e.args[1], E) and e.args[1].op == "sym" and e.args[1].args[0] in _COLL:
        return collection_items(e.args[2])
    for nm in _COLL:
        if is_call(e, nm) and len(e.args) == 2:
            inner = collection_items(e.args[1])
            if inner is not None:
                return inner
    return None


def fold_membership(e, not_among=()):
    """decide  x in {consts}  for a constant x; for a symbol listed in ``not_among`` (name -> values it is known to
    differ from) decide it when every item is one of those values"""
    if not (isinstance(e, E) and e.op == "cmp" and e.args[0] in ("in", "not in")):
        return None
    x, coll = e.args[1], e.args[2]
    items = collection_items(coll)
    if items is None or not all(i.is_const for i in items):
        return None
    neg = e.args[0] == "not in"
    if x.is_const:
        hit = any(type(i.value) is type(x.value) and i.value == x.value or (i.value is None and x.value is None) for i in items)
        return S.lift(hit != neg)
    if x.op == "sym" and x.args[0] in dict(not_among):
        excl = dict(not_among)[x.args[0]]
        if all(any((i.value is None and v is None) or (v is not None and i.value is not None and i.value == v) for v in excl) for i in items):
            return S.lift(neg)
    return None


_KW_SIG = {
    "np.moveaxis": ("a", "source", "destination"), "numpy.moveaxis": ("a", "source", "destination"),
    "np.random.normal": ("loc", "scale", "size"), "numpy.random.normal": ("loc", "scale", "size"),
    ".astype": (None, "dtype"),
    "np.swapaxes": ("a", "axis1", "axis2"), "numpy.swapaxes": ("a", "axis1", "axis2"),
}


def canon_np(e):
    def fn(x):
        if x.op == "const" and x.value == "Ellipsis":
            return S.sym("Ellipsis")
        if x.op == "sym" and x.args[0].startswith("np."):
            return S.sym("numpy." + x.args[0][3:])
        if x.op != "call":
            return None
        name = x.args[0]
        args = list(x.args[1:])
        if name == "slice" and len(args) < 3:
            if len(args) == 1:
                args = [S.NONE, args[0]]
            return S.call("slice", *(args + [S.NONE] * (3 - len(args))))
        sig = _KW_SIG.get(name)
        changed = False
        if sig is not None and any(is_call(a, *["kw:" + s for s in sig if s]) for a in args):
            pos = [a for a in args if not (isinstance(a, E) and a.op == "call" and str(a.args[0]).startswith("kw:"))]
            kws = {a.args[0][3:]: a.args[1] for a in args if isinstance(a, E) and a.op == "call" and str(a.args[0]).startswith("kw:")}
            out = list(pos)
            rest = {}
            for i, s in enumerate(sig):
                if i < len(pos):
                    continue
                if s in kws and len(out) == i:
                    out.append(kws.pop(s))
            rest = kws
            args = out + [S.call("kw:" + k, v) for k, v in sorted(rest.items())]
            changed = True
        if name.startswith("np."):
            name = "numpy." + name[3:]
            changed = True
        if name == "numpy.moveaxis" and len(args) == 3 and args[1] == args[2] and args[1].is_const:
            return args[0]  # moving an axis onto itself
        if changed:
            return S.call(name, *args)
        return None
    return transform(e, fn)


def residual_conditions(e):
    return [x for x in S.walk(e) if isinstance(x, E) and x.op == "cond"]


def vocabulary(e):
    """(call names, symbol names) occurring in e"""
    calls, syms = set(), set()
    for x in S.walk(e):
        if isinstance(x, E):
            if x.op == "call":
                calls.add(x.args[0])
            elif x.op == "sym":
                syms.add(x.args[0])
    return calls, syms
