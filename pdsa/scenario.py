"""Scenario evaluation of forward-substituted values.

A value produced by SymEval is a conditional expression over the function's inputs.  A *scenario* fixes the truth of the
atoms the conditions are built from (a flag, "the dtype is float64", "axis is the last one", the rank of the array ...);
specialising the value to a scenario folds every condition whose atoms are fixed and leaves a condition-free expression
that can be compared with the documented result for that scenario.  How the source spells the conditions (negated,
through a predicate helper, as a conditional expression, with the branches swapped) no longer matters; a condition that
mentions an atom the scenario does not fix stays, and the caller reports "cannot decide".

Also here: `canon_np`, a normal form for the NumPy calls that occur in such values (keyword arguments in signature
order, np./numpy. prefixes, slice literals, Ellipsis)."""

from . import sym as S

E = S.E


def transform(e, fn):
    """bottom-up rewrite: fn(node) -> replacement or None (children first, constructors re-fold)"""
    if not isinstance(e, E):
        return e
    if e.op in ("const", "sym", "unknown"):
        r = fn(e)
        return e if r is None else r
    args = [transform(a, fn) if isinstance(a, E) else a for a in e.args]
    e2 = S.rebuild(e.op, args)
    if not isinstance(e2, E):
        return e2
    r = fn(e2)
    return e2 if r is None else r


def is_call(e, *names):
    return isinstance(e, E) and e.op == "call" and e.args[0] in names


_COLL = ("set", "tuple", "list", "frozenset")


def collection_items(e):
    """items of a literal collection (set(...), tuple(...), frozenset applied to one) or None"""
    if is_call(e, *_COLL):
        return list(e.args[1:])
    if is_call(e, "apply") and len(e.args) == 3 and isinstance(e.args[1], E) and e.args[1].op == "sym" and e.args[1].args[0] in _COLL:
        return collection_items(e.args[2])
    for nm in _COLL:
        if is_call(e, nm) and len(e.args) == 2:
            inner = collection_items(e.args[1])
            if inner is not None:
                return inner
    return None


def fold_membership(e, not_among=()):
    """decide  x in {consts}  for a constant x; for a symbol listed in ``not_among`` (name -> values it is known to
    differ from) decide it when every item is one of those values"""
    if not (isinstance(e, E) and e.op == "cmp" and e.args[0] in ("in", "not in")):
        return None
    x, coll = e.args[1], e.args[2]
    items = collection_items(coll)
    if items is None or not all(i.is_const for i in items):
        return None
    neg = e.args[0] == "not in"
    if x.is_const:
        hit = any(type(i.value) is type(x.value) and i.value == x.value or (i.value is None and x.value is None) for i in items)
        return S.lift(hit != neg)
    if x.op == "sym" and x.args[0] in dict(not_among):
        excl = dict(not_among)[x.args[0]]
        if all(any((i.value is None and v is None) or (v is not None and i.value is not None and i.value == v) for v in excl) for i in items):
            return S.lift(neg)
    return None


_KW_SIG = {
    "np.moveaxis": ("a", "source", "destination"), "numpy.moveaxis": ("a", "source", "destination"),
    "np.random.normal": ("loc", "scale", "size"), "numpy.random.normal": ("loc", "scale", "size"),
    ".astype": (None, "dtype"),
    "np.swapaxes": ("a", "axis1", "axis2"), "numpy.swapaxes": ("a", "axis1", "axis2"),
}


def canon_np(e):
    def fn(x):
        if x.op == "const" and x.value == "Ellipsis":
            return S.sym("Ellipsis")
        if x.op == "sym" and x.args[0].startswith("np."):
            return S.sym("numpy." + x.args[0][3:])
        if x.op != "call":
            return None
        name = x.args[0]
        args = list(x.args[1:])
        if name == "slice" and len(args) < 3:
            if len(args) == 1:
                args = [S.NONE, args[0]]
            return S.call("slice", *(args + [S.NONE] * (3 - len(args))))
        sig = _KW_SIG.get(name)
        changed = False
        if sig is not None and any(is_call(a, *["kw:" + s for s in sig if s]) for a in args):
            pos = [a for a in args if not (isinstance(a, E) and a.op == "call" and str(a.args[0]).startswith("kw:"))]
            kws = {a.args[0][3:]: a.args[1] for a in args if isinstance(a, E) and a.op == "call" and str(a.args[0]).startswith("kw:")}
            out = list(pos)
            rest = {}
            for i, s in enumerate(sig):
                if i < len(pos):
                    continue
                if s in kws and len(out) == i:
                    out.append(kws.pop(s))
            rest = kws
            args = out + [S.call("kw:" + k, v) for k, v in sorted(rest.items())]
            changed = True
        if name.startswith("np."):
            name = "numpy." + name[3:]
            changed = True
        if name == "numpy.moveaxis" and len(args) == 3 and args[1] == args[2] and args[1].is_const:
            return args[0]  # moving an axis onto itself
        if changed:
            return S.call(name, *args)
        return None
    return transform(e, fn)


def residual_conditions(e):
    return [x for x in S.walk(e) if isinstance(x, E) and x.op == "cond"]


def vocabulary(e):
    """(call names, symbol names) occurring in e"""
    calls, syms = set(), set()
    for x in S.walk(e):
        if isinstance(x, E):
            if x.op == "call":
                calls.add(x.args[0])
            elif x.op == "sym":
                syms.add(x.args[0])
    return calls, syms


def _seq_items(e):
    if is_call(e, "list", "tuple"):
        return list(e.args[1:])
    return None


def fold_seq(e):
    """Concrete evaluation of the small sequence computations that index arithmetic is written with, once a scenario has
    made their sizes concrete: [x] * 3, list element stores, tuple(list), comprehensions over range(3) with decidable
    filters, len / getitem of literal sequences."""
    from fractions import Fraction

    def as_int(x):
        if isinstance(x, E) and x.is_const and isinstance(x.value, Fraction) and x.value.denominator == 1:
            return int(x.value)
        return None

    def fn(x):
        if x.op == "add" and len(x.args) >= 2 and all(_seq_items(a) is not None for a in x.args) and len({a.args[0] for a in x.args}) == 1:
            # concatenation of literal sequences (used for index tuples, where the order of the parts is the order of the axes)
            parts = sorted(x.args, key=lambda a: [as_int(i) if as_int(i) is not None else 1 << 30 for i in a.args[1:]])
            return S.call(x.args[0].args[0], *[i for a in parts for i in a.args[1:]])
        if x.op == "mul" and len(x.args) == 2:
            for a, b in ((x.args[0], x.args[1]), (x.args[1], x.args[0])):
                n, items = as_int(a), _seq_items(b)
                if n is not None and items is not None and 0 <= n <= 16:
                    return S.call(b.args[0], *(items * n))
            return None
        if x.op != "call":
            return None
        nm = x.args[0]
        if nm == "stored" and _seq_items(x.args[1]) is not None and len(x.args) >= 4 and (len(x.args) - 2) % 2 == 0:
            items = _seq_items(x.args[1])
            pairs = list(zip(x.args[2::2], x.args[3::2]))
            for i_, v in pairs:
                i = as_int(i_)
                if i is None or not (-len(items) <= i < len(items)):
                    return None
                items[i] = v
            return S.call(x.args[1].args[0], *items)
        if nm in ("tuple", "list") and len(x.args) == 2 and _seq_items(x.args[1]) is not None:
            return S.call(nm, *_seq_items(x.args[1]))
        if nm in ("tuple", "list") and len(x.args) == 2 and is_call(x.args[1], "range"):
            r = [as_int(a) for a in x.args[1].args[1:]]
            if r and all(v is not None for v in r) and len(r) <= 3:
                vals = list(range(*r))
                if len(vals) <= 16:
                    return S.call(nm, *[S.lift(v) for v in vals])
        if nm == "len" and len(x.args) == 2 and _seq_items(x.args[1]) is not None:
            return S.lift(len(_seq_items(x.args[1])))
        if nm in ("sum", "min", "max") and len(x.args) == 2 and _seq_items(x.args[1]) is not None and _seq_items(x.args[1]) \
                and all(as_int(i) is not None for i in _seq_items(x.args[1])):
            vals_ = [as_int(i) for i in _seq_items(x.args[1])]
            return S.lift({"sum": sum, "min": min, "max": max}[nm](vals_))
        if nm in ("numpy.prod", "np.prod") and len(x.args) == 2 and _seq_items(x.args[1]) is not None and all(as_int(i) is not None for i in _seq_items(x.args[1])):
            p_ = 1
            for i in _seq_items(x.args[1]):
                p_ *= as_int(i)
            return S.lift(p_)
        if nm == "getitem" and len(x.args) == 3 and _seq_items(x.args[1]) is not None and as_int(x.args[2]) is not None:
            items, i = _seq_items(x.args[1]), as_int(x.args[2])
            if -len(items) <= i < len(items):
                return items[i]
        if nm == "comp" and len(x.args) >= 3:
            elt, it, conds = x.args[1], x.args[2], list(x.args[3:])
            vals = None
            if is_call(it, "range") and len(it.args) == 2 and as_int(it.args[1]) is not None and 0 <= as_int(it.args[1]) <= 16:
                vals = [S.lift(k) for k in range(as_int(it.args[1]))]
            elif _seq_items(it) is not None:
                vals = _seq_items(it)
            if vals is None:
                return None
            ats = {s for y in [elt] + conds for s in S.symbols(y) if s.startswith("@")}
            if len(ats) > 1:
                return None
            var = next(iter(ats), None)
            out = []
            for v in vals:
                m = {var: v} if var else {}
                cs = [fold_seq(S.subst(c, m)) for c in conds]
                if any(not (c.is_const) for c in cs):
                    return None
                if all(S.truthy(c) for c in cs):
                    out.append(fold_seq(S.subst(elt, m)))
            return S.call("list", *out)
        return None

    out = e
    for _ in range(6):
        nxt = transform(out, fn)
        if nxt == out:
            break
        out = nxt
    return out


_ARITH = ("add", "mul", "neg", "truediv", "pow", "const")


def atomise(*exprs):
    """Replace every maximal non-arithmetic sub-term by a symbol (the same term gets the same symbol in all expressions), so
    that sym.compare can decide the arithmetic skeleton: equality in normal form, or a witness over the atoms."""
    table = {}

    def go(e):
        if not isinstance(e, E):
            return e
        if e.op in _ARITH:
            if e.op == "const":
                return e
            return S.rebuild(e.op, [go(a) if isinstance(a, E) else a for a in e.args])
        if e.op == "sym":
            return e
        key = S.show(e)
        if key not in table:
            table[key] = S.sym("atom%d" % len(table))
        return table[key]

    return [go(e) for e in exprs], {v.args[0]: k for k, v in table.items()}


def _pure_reshape_index(idx):
    items = _seq_items(idx)
    if items is None:
        return False
    for i in items:
        if i.is_const and i.value is None:
            continue
        if is_call(i, "slice") and all(a.is_const and a.value is None for a in i.args[1:]):
            continue
        return False
    return True


def distribute_reshape(e):
    """x[None, :, None] of an element-wise expression is the element-wise expression of the re-shaped operands"""
    def fn(x):
        if is_call(x, "getitem") and len(x.args) == 3 and _pure_reshape_index(x.args[2]):
            inner, idx = x.args[1], x.args[2]
            if inner.op in ("add", "mul", "neg", "truediv", "pow") and not inner.is_const:
                parts = []
                for a in inner.args:
                    if isinstance(a, E) and not a.is_const:
                        parts.append(fn(S.call("getitem", a, idx)) or S.call("getitem", a, idx))
                    else:
                        parts.append(a)
                return S.rebuild(inner.op, parts)
        return None
    return transform(e, fn)


def same_value(got, want):
    """'equal' | 'differ' | 'unknown' for two condition-free values, arithmetic decided over their non-arithmetic atoms"""
    if got == want:
        return "equal", None
    (g, w), names = atomise(distribute_reshape(got), distribute_reshape(want))
    res = S.compare(g, w, domain={})
    if res["verdict"] == "equal":
        return "equal", None
    if res["verdict"] == "differ":
        return "differ", {names.get(k, k): v for k, v in res.get("witness", {}).items()}
    return "unknown", res.get("reason")


def int_eval(e, env):
    """exact integer evaluation of a condition-bearing expression over Python ints (bit operations included); raises
    ValueError on anything else"""
    from fractions import Fraction
    op = e.op
    if op == "const":
        v = e.value
        if isinstance(v, bool):
            return v
        if isinstance(v, Fraction) and v.denominator == 1:
            return int(v)
        raise ValueError("constant %r" % (v,))
    if op == "sym":
        if e.args[0] in env:
            return env[e.args[0]]
        raise ValueError("symbol %s" % e.args[0])
    if op == "add":
        return sum(int_eval(a, env) for a in e.args)
    if op == "mul":
        out = 1
        for a in e.args:
            out *= int_eval(a, env)
        return out
    if op == "neg":
        return -int_eval(e.args[0], env)
    if op in ("floordiv", "mod"):
        a, b = int_eval(e.args[0], env), int_eval(e.args[1], env)
        if b == 0:
            raise ValueError("division by zero")
        return a // b if op == "floordiv" else a % b
    if op == "cond":
        return int_eval(e.args[1], env) if int_eval(e.args[0], env) else int_eval(e.args[2], env)
    if op == "cmp":
        a, b = int_eval(e.args[1], env), int_eval(e.args[2], env)
        return {"==": a == b, "!=": a != b, "<": a < b, "<=": a <= b, ">": a > b, ">=": a >= b}[e.args[0]]
    if op == "not":
        return not int_eval(e.args[0], env)
    if op == "bool":
        return bool(int_eval(e.args[0], env))
    if op == "and":
        return all(int_eval(a, env) for a in e.args)
    if op == "or":
        return any(int_eval(a, env) for a in e.args)
    if op in ("max", "min"):
        vals = [int_eval(a, env) for a in e.args]
        return max(vals) if op == "max" else min(vals)
    if op == "call":
        nm = e.args[0]
        a = [int_eval(x, env) for x in e.args[1:]]
        if nm == "bitand" and len(a) == 2:
            return a[0] & a[1]
        if nm == "bitor" and len(a) == 2:
            return a[0] | a[1]
        if nm == "bitxor" and len(a) == 2:
            return a[0] ^ a[1]
        if nm == "rshift" and len(a) == 2 and a[1] >= 0:
            return a[0] >> a[1]
        if nm == "lshift" and len(a) == 2 and 0 <= a[1] < 128:
            return a[0] << a[1]
        if nm == "invert" and len(a) == 1:
            return ~a[0]
        if nm in ("int", "abs") and len(a) == 1:
            return int(a[0]) if nm == "int" else abs(a[0])
    raise ValueError("operation %s" % (e.args[0] if op == "call" else op))


def lift_conds(e):
    """getitem(A, x if t else y) is getitem(A, x) if t else getitem(A, y): conditionals in the index of a look-up are lifted out
    (one level), so that a value reads the same whether the choice was made by an if statement or inside the subscript"""
    def fn(x):
        if is_call(x, "getitem") and len(x.args) == 3 and isinstance(x.args[2], E) and x.args[2].op == "cond":
            t, a, b = x.args[2].args
            return S.cond(t, S.call("getitem", x.args[1], a), S.call("getitem", x.args[1], b))
        return None
    return transform(e, fn)
