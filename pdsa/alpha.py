"""Alpha-normalisation of local variable names.

Renaming a local variable of a function to a fresh name never changes what the function computes.
Several rules locate constructs through the names the pinned source gives its locals; to keep
such rules from losing their anchors when a local is merely renamed, every function is compared
with a reference table (`alpha_ref.json`: for each function, each local's *binding signature* -
the text of the statement that first binds it with all locals blanked, plus its ordinal among
equal signatures).  A reference name that no longer occurs in the function is given back to the
(unique) new local with the same signature.  Whatever the match, the result is alpha-equivalent
to the source that was read, so no verdict can change because of it; only the rules' ability to
find their anchors does.  The renames applied are recorded and shown with the findings.
"""

import ast
import json
import os

REF_PATH = os.path.join(os.path.dirname(os.path.abspath(__file__)), "alpha_ref.json")
_REF = None


def _ref():
    global _REF
    if _REF is None:
        try:
            with open(REF_PATH) as fh:
                _REF = json.load(fh)
        except (OSError, ValueError):
            _REF = {}
    return _REF


def functions_of(tree, modname):
    """(qualname, node) for every function, with the qualnames the program model uses"""
    out = []

    def walk(body, prefix, in_func):
        for st in body:
            if isinstance(st, (ast.FunctionDef, ast.AsyncFunctionDef)):
                q = prefix + (".<locals>." if in_func else ".") + st.name
                out.append((q, st))
                walk(st.body, q, True)
            elif isinstance(st, ast.ClassDef):
                q = prefix + (".<locals>." if in_func else ".") + st.name
                walk(st.body, q, False)
            else:
                for fld in ("body", "orelse", "finalbody"):
                    sub = getattr(st, fld, None)
                    if isinstance(sub, list) and sub and isinstance(sub[0], ast.stmt):
                        walk(sub, prefix, in_func)
                for h in getattr(st, "handlers", []) or []:
                    walk(h.body, prefix, in_func)
    walk(tree.body, modname, False)
    return out


def _own_nodes(fn):
    """nodes of the function body, not descending into nested function / class definitions"""
    stack = list(fn.body)
    while stack:
        n = stack.pop()
        yield n
        for c in ast.iter_child_nodes(n):
            if isinstance(c, (ast.FunctionDef, ast.AsyncFunctionDef, ast.ClassDef, ast.Lambda)):
                continue
            stack.append(c)


def params_of(fn):
    a = fn.args
    names = [x.arg for x in a.posonlyargs + a.args + a.kwonlyargs]
    if a.vararg:
        names.append(a.vararg.arg)
    if a.kwarg:
        names.append(a.kwarg.arg)
    return set(names)


def locals_of(fn):
    out = set()
    skip = set()
    for n in _own_nodes(fn):
        if isinstance(n, (ast.Global, ast.Nonlocal)):
            skip.update(n.names)
        elif isinstance(n, ast.Name) and isinstance(n.ctx, ast.Store):
            out.add(n.id)
    # comprehension targets are treated like locals: renaming one consistently is just as harmless
    return out - params_of(fn) - skip


def _stored_outside_comprehensions(fn):
    out = set()
    comp_nodes = set()
    for n in _own_nodes(fn):
        if isinstance(n, (ast.ListComp, ast.SetComp, ast.DictComp, ast.GeneratorExp)):
            for x in ast.walk(n):
                comp_nodes.add(id(x))
    for n in _own_nodes(fn):
        if isinstance(n, ast.Name) and isinstance(n.ctx, ast.Store) and id(n) not in comp_nodes:
            out.add(n.id)
    return out


class _Blank(ast.NodeTransformer):
    def __init__(self, names):
        self.names = names

    def visit_Name(self, node):
        if node.id in self.names:
            return ast.copy_location(ast.Name(id="_", ctx=node.ctx), node)
        return node

    def visit_FunctionDef(self, node):
        return ast.copy_location(ast.Pass(), node)

    visit_AsyncFunctionDef = visit_FunctionDef
    visit_ClassDef = visit_FunctionDef


def _header(st):
    """the binding part of a statement as text (bodies of compound statements left out)"""
    import copy
    st = copy.deepcopy(st)
    for fld in ("body", "orelse", "finalbody"):
        if isinstance(getattr(st, fld, None), list) and getattr(st, fld) and isinstance(getattr(st, fld)[0], ast.stmt):
            setattr(st, fld, [ast.Pass()] if fld == "body" else [])
    if hasattr(st, "handlers"):
        st.handlers = []
    return st


def signatures(fn):
    """{local: [signature text, ordinal]} in order of first binding"""
    loc = locals_of(fn)
    order = []  # (lineno, col, name, stmt)
    parents = {}
    for n in _own_nodes(fn):
        for c in ast.iter_child_nodes(n):
            parents[id(c)] = n
    for n in _own_nodes(fn):
        if isinstance(n, ast.Name) and isinstance(n.ctx, ast.Store) and n.id in loc:
            cur = n
            while cur is not None and not isinstance(cur, ast.stmt):
                cur = parents.get(id(cur))
            if cur is None:
                continue
            order.append((n.lineno, n.col_offset, n.id, cur))
    order.sort(key=lambda t: (t[0], t[1]))
    first = {}
    for ln, col, name, st in order:
        if name not in first:
            first[name] = st
    out = {}
    counts = {}
    for ln, col, name, st in order:
        if name in out or first[name] is not st:
            continue
        try:
            txt = ast.unparse(_Blank(loc).visit(_header(st)))
        except Exception:
            txt = type(st).__name__
        txt = " ".join(txt.split())
        # position of this name among the names the statement binds
        bound = [x.id for x in ast.walk(st) if isinstance(x, ast.Name) and isinstance(x.ctx, ast.Store) and x.id in loc]
        pos = bound.index(name) if name in bound else 0
        key = "%s #%d" % (txt, pos)
        k = counts.get(key, 0)
        counts[key] = k + 1
        out[name] = [key, k]
    return out


class _Rename(ast.NodeTransformer):
    def __init__(self, mapping):
        self.mapping = mapping

    def visit_Name(self, node):
        if node.id in self.mapping:
            node.id = self.mapping[node.id]
        return node


def normalise(tree, modname):
    """Rename locals back to their reference names where the reference name has vanished; returns {qualname: {new: ref}}."""
    if os.environ.get("PDSA_NO_ALPHA"):
        return {}
    ref = _ref()
    applied = {}
    for q, fn in functions_of(tree, modname):
        r = ref.get(q)
        if not r or q.startswith("@"):
            continue
        now = signatures(fn)
        present = {x.id for x in ast.walk(fn) if isinstance(x, ast.Name)} | {a.arg for a in ast.walk(fn) if isinstance(a, ast.arg)}
        missing = [m for m in r if m not in present]
        if not missing:
            continue
        extra = [v for v in now if v not in r]
        by_sig = {}
        for v in extra:
            by_sig.setdefault(tuple(now[v]), []).append(v)
        mapping = {}
        for m in missing:
            cands = by_sig.get(tuple(r[m]), [])
            if len(cands) == 1 and cands[0] not in mapping:
                mapping[cands[0]] = m
        if mapping:
            _Rename(mapping).visit(fn)
            applied[q] = mapping
    return applied


class _IfNormal(ast.NodeTransformer):
    """`if not c: A else: B`  ->  `if c: B else: A`  (only for a plain else, not an elif chain): one spelling per two-way
    branch, so that rules written against the pinned source also read the mirrored spelling"""

    def visit_If(self, node):
        self.generic_visit(node)
        t = node.test
        if isinstance(t, ast.UnaryOp) and isinstance(t.op, ast.Not) and node.orelse:
            node.test = t.operand
            node.body, node.orelse = node.orelse, node.body
        return node


_EQ_INV = {ast.Eq: ast.NotEq, ast.NotEq: ast.Eq, ast.Is: ast.IsNot, ast.IsNot: ast.Is, ast.In: ast.NotIn, ast.NotIn: ast.In}


def _nnf(e, negate=False):
    """negation normal form of an expression used as a test: negations are pushed through and/or and through (in)equality,
    identity and membership comparisons (not through ordering comparisons: `not a < b` is not `a >= b` for NaN)"""
    if isinstance(e, ast.UnaryOp) and isinstance(e.op, ast.Not):
        return _nnf(e.operand, not negate)
    if isinstance(e, ast.BoolOp):
        op = e.op
        if negate:
            op = ast.Or() if isinstance(e.op, ast.And) else ast.And()
        return ast.copy_location(ast.BoolOp(op=op, values=[_nnf(v, negate) for v in e.values]), e)
    if negate and isinstance(e, ast.Compare) and len(e.ops) == 1 and type(e.ops[0]) in _EQ_INV:
        return ast.copy_location(ast.Compare(left=e.left, ops=[_EQ_INV[type(e.ops[0])]()], comparators=e.comparators), e)
    if negate:
        return ast.copy_location(ast.UnaryOp(op=ast.Not(), operand=e), e)
    return e


class _TestNormal(ast.NodeTransformer):
    def _t(self, node):
        self.generic_visit(node)
        t = node.test
        if isinstance(node, ast.If) and node.orelse and isinstance(t, ast.UnaryOp) and isinstance(t.op, ast.Not):
            # the outer negation of a two-way branch is removed by swapping the branches (_IfNormal)
            node.test = ast.copy_location(ast.UnaryOp(op=ast.Not(), operand=_nnf(t.operand)), t)
        else:
            node.test = _nnf(t)
        return node

    visit_If = visit_While = visit_IfExp = visit_Assert = _t


def _uncondition_casts(tree):
    """`if v.dtype != T: v = v.astype(T, copy=False)` is `v = v.astype(T, copy=False)`: with copy=False astype hands back its
    operand when the type already matches, so the guard only skips a call that would have done nothing.  Also through a flag
    bound once to the comparison (`needs_cast = x.dtype != T`) and for a value just sliced out of the array whose type was tested
    (`v = x[i]` has x's dtype).  Slice objects called by name in a subscript read as slices: `x[slice(a, b)]` is `x[a:b]`."""
    def norm(e):
        return ast.unparse(e).replace(" ", "")
    for fn in [n for n in ast.walk(tree) if isinstance(n, (ast.FunctionDef, ast.AsyncFunctionDef))]:
        flags = {}
        counts = {}
        for n in ast.walk(fn):
            if isinstance(n, ast.Assign) and len(n.targets) == 1 and isinstance(n.targets[0], ast.Name):
                counts[n.targets[0].id] = counts.get(n.targets[0].id, 0) + 1
                flags[n.targets[0].id] = n.value
        for holder in ast.walk(fn):
            for fld in ("body", "orelse", "finalbody"):
                lst = getattr(holder, fld, None)
                if not (isinstance(lst, list) and lst and isinstance(lst[0], ast.stmt)):
                    continue
                for i, st in enumerate(list(lst)):
                    if not (isinstance(st, ast.If) and not st.orelse and len(st.body) == 1 and isinstance(st.body[0], ast.Assign)):
                        continue
                    a = st.body[0]
                    if not (len(a.targets) == 1 and isinstance(a.targets[0], ast.Name) and isinstance(a.value, ast.Call) and isinstance(a.value.func, ast.Attribute)
                            and a.value.func.attr == "astype" and isinstance(a.value.func.value, ast.Name) and a.value.func.value.id == a.targets[0].id
                            and len(a.value.args) == 1 and any(k.arg == "copy" and isinstance(k.value, ast.Constant) and k.value.value is False for k in a.value.keywords)):
                        continue
                    v, T = a.targets[0].id, norm(a.value.args[0])
                    test = st.test
                    if isinstance(test, ast.Name) and counts.get(test.id) == 1:
                        test = flags[test.id]
                    if not (isinstance(test, ast.Compare) and len(test.ops) == 1 and isinstance(test.ops[0], ast.NotEq) and isinstance(test.left, ast.Attribute)
                            and test.left.attr == "dtype" and isinstance(test.left.value, ast.Name) and norm(test.comparators[0]) == T):
                        continue
                    w = test.left.value.id
                    same = w == v
                    if not same:
                        prev = [p_ for p_ in lst[:i] if isinstance(p_, ast.Assign) and len(p_.targets) == 1 and isinstance(p_.targets[0], ast.Name) and p_.targets[0].id == v]
                        same = bool(prev) and isinstance(prev[-1].value, ast.Subscript) and isinstance(prev[-1].value.value, ast.Name) and prev[-1].value.value.id == w
                    if same:
                        j = lst.index(st)
                        lst[j] = ast.copy_location(a, st)
                        # `v = e` immediately followed by the (now unconditional) `v = v.astype(T, copy=False)` is `v = (e).astype(T, copy=False)`
                        if j > 0 and isinstance(lst[j - 1], ast.Assign) and len(lst[j - 1].targets) == 1 and isinstance(lst[j - 1].targets[0], ast.Name) \
                                and lst[j - 1].targets[0].id == v and not any(isinstance(x, ast.Name) and x.id == v for x in ast.walk(lst[j - 1].value)):
                            a.value.func.value = lst[j - 1].value
                            del lst[j - 1]
    return slice_calls_as_slices(tree)


def slice_calls_as_slices(tree):
    """`x[slice(a, b)]` is `x[a:b]` (also inside an index tuple)"""
    for n in ast.walk(tree):
        if isinstance(n, ast.Subscript) and isinstance(n.slice, ast.Tuple):
            for k_, el in enumerate(n.slice.elts):
                if isinstance(el, ast.Call) and isinstance(el.func, ast.Name) and el.func.id == "slice" and not el.keywords and 1 <= len(el.args) <= 3:
                    a_ = [None if (isinstance(x, ast.Constant) and x.value is None) else x for x in el.args]
                    n.slice.elts[k_] = ast.Slice(lower=None, upper=a_[0], step=None) if len(a_) == 1 else ast.Slice(lower=a_[0], upper=a_[1], step=a_[2] if len(a_) == 3 else None)
        if isinstance(n, ast.Subscript) and isinstance(n.slice, ast.Call) and isinstance(n.slice.func, ast.Name) and n.slice.func.id == "slice" \
                and not n.slice.keywords and 1 <= len(n.slice.args) <= 3:
            args = list(n.slice.args)
            def nn(x):
                return None if isinstance(x, ast.Constant) and x.value is None else x
            if len(args) == 1:
                n.slice = ast.Slice(lower=None, upper=nn(args[0]), step=None)
            else:
                n.slice = ast.Slice(lower=nn(args[0]), upper=nn(args[1]), step=nn(args[2]) if len(args) == 3 else None)
    return tree


def normalise_shape(tree):
    if os.environ.get("PDSA_NO_ALPHA"):
        return tree
    tree = _TestNormal().visit(tree)
    tree = _IfNormal().visit(tree)
    tree = _uncondition_casts(tree)
    # IOError and EnvironmentError are OSError (one class since Python 3.3): one spelling
    bound = {x.id for x in ast.walk(tree) if isinstance(x, ast.Name) and isinstance(x.ctx, ast.Store)} | {a.arg for a in ast.walk(tree) if isinstance(a, ast.arg)}
    if not bound & {"IOError", "OSError", "EnvironmentError"}:
        for x in ast.walk(tree):
            if isinstance(x, ast.Name) and x.id in ("OSError", "EnvironmentError") and isinstance(x.ctx, ast.Load):
                x.id = "IOError"
    ast.fix_missing_locations(tree)
    return tree


_SIMPLE = (ast.Assign, ast.AugAssign, ast.AnnAssign, ast.Return, ast.Expr, ast.Raise, ast.Assert, ast.If, ast.For)


def inline_new_temps(tree, modname):
    """A local that the reference function does not have, bound once to an expression and read once, by the statement
    that follows, names a sub-expression: it is substituted back (`_r = e; return _r` is `return e`).  Only names that are
    new with respect to the reference are touched, so the pinned source reads as it is."""
    if os.environ.get("PDSA_NO_ALPHA"):
        return {}
    ref = _ref()
    applied = {}
    for q, fn in functions_of(tree, modname):
        r = ref.get(q)
        if r is None or q.startswith("@"):
            continue
        params = {a.arg for a in ast.walk(fn.args) if isinstance(a, ast.arg)}
        # a, b = (x, y) binding new names is a = x; b = y when no target occurs in the values
        for blk in _blocks(fn):
            i = 0
            while i < len(blk):
                st = blk[i]
                if (isinstance(st, ast.Assign) and len(st.targets) == 1 and isinstance(st.targets[0], ast.Tuple) and isinstance(st.value, ast.Tuple)
                        and len(st.targets[0].elts) == len(st.value.elts) and all(isinstance(t, ast.Name) and t.id not in r and t.id not in params for t in st.targets[0].elts)):
                    tn = {t.id for t in st.targets[0].elts}
                    if not any(isinstance(y, ast.Name) and y.id in tn for v in st.value.elts for y in ast.walk(v)) and all(_pure_expr(v) for v in st.value.elts):
                        new = [ast.copy_location(ast.Assign(targets=[t], value=v), st) for t, v in zip(st.targets[0].elts, st.value.elts)]
                        blk[i:i + 1] = new
                        applied.setdefault(q, []).append("split:" + ",".join(sorted(tn)))
                        i += len(new)
                        continue
                i += 1
        for _ in range(8):
            own = list(_own_nodes(fn))
            stores, loads = {}, {}
            for x in own:
                if isinstance(x, ast.Name):
                    (stores if isinstance(x.ctx, (ast.Store, ast.Del)) else loads).setdefault(x.id, []).append(x)
            nested_use = set()
            for x in ast.walk(fn):
                if x is not fn and isinstance(x, (ast.FunctionDef, ast.AsyncFunctionDef, ast.Lambda, ast.ClassDef, ast.ListComp, ast.SetComp, ast.DictComp, ast.GeneratorExp)):
                    nested_use.update(y.id for y in ast.walk(x) if isinstance(y, ast.Name))
            done = False
            for blk in _blocks(fn):
                for i in range(len(blk) - 1):
                    st, nxt = blk[i], blk[i + 1]
                    if not (isinstance(st, ast.Assign) and len(st.targets) == 1 and isinstance(st.targets[0], ast.Name)):
                        continue
                    v = st.targets[0].id
                    # a view (x[a:b]) updated in place through its name: the augmented assignments are uses of the view, not re-bindings
                    aug_targets = []
                    if isinstance(st.value, ast.Subscript) and isinstance(st.value.slice, ast.Slice):
                        aug_targets = [x.target for x in _own_nodes(fn) if isinstance(x, ast.AugAssign) and isinstance(x.target, ast.Name) and x.target.id == v]
                    plain_stores = [x for x in stores.get(v, []) if not any(x is t_ for t_ in aug_targets)]
                    all_uses = list(loads.get(v, [])) + aug_targets
                    if v not in r and v not in params and v not in nested_use and len(plain_stores) == 1 and loads.get(v) \
                            and all(getattr(u, "lineno", 0) > (st.end_lineno or st.lineno) for u in all_uses) \
                            and (_constant_expr(st.value) or _stable_pure_expr(fn, blk, i, st, all_uses, stores)):
                        # a named constant (2 * np.pi, a literal): every use reads the same value
                        import copy as _copy

                        def _as(u_):
                            new_ = _copy.deepcopy(st.value)
                            if isinstance(u_.ctx, ast.Store) and hasattr(new_, "ctx"):
                                new_.ctx = ast.Store()
                            return new_
                        for u in all_uses:
                            for holder in ast.walk(fn):
                                for fld, val_ in ast.iter_fields(holder):
                                    if val_ is u:
                                        setattr(holder, fld, _as(u))
                                    elif isinstance(val_, list):
                                        for j_, item in enumerate(val_):
                                            if item is u:
                                                val_[j_] = _as(u)
                        del blk[i]
                        for x_ in ast.walk(fn):
                            # x[a:b][:] = w  is  x[a:b] = w
                            if isinstance(x_, ast.Assign):
                                for k_, t_ in enumerate(x_.targets):
                                    whole_ = isinstance(t_, ast.Subscript) and (
                                        (isinstance(t_.slice, ast.Slice) and t_.slice.lower is None and t_.slice.upper is None and t_.slice.step is None)
                                        or (isinstance(t_.slice, ast.Constant) and t_.slice.value is Ellipsis))
                                    if (whole_ and isinstance(t_.value, ast.Subscript) and isinstance(t_.value.slice, ast.Slice)):
                                        inner_ = t_.value
                                        inner_.ctx = ast.Store()
                                        x_.targets[k_] = inner_
                        applied.setdefault(q, []).append(v)
                        done = True
                        break
                    if v in r or v in params or v in nested_use or len(stores.get(v, [])) != 1 or len(loads.get(v, [])) != 1:
                        continue
                    if not isinstance(nxt, _SIMPLE):
                        continue
                    use = loads[v][0]
                    header = [nxt.test] if isinstance(nxt, ast.If) else [nxt.iter] if isinstance(nxt, ast.For) else [nxt]
                    if not any(y is use for h in header for y in ast.walk(h)):
                        continue
                    _Subst(use, st.value).visit(nxt)
                    del blk[i]
                    applied.setdefault(q, []).append(v)
                    done = True
                    break
                if done:
                    break
            if not done:
                break
    return applied


_FLIP = {ast.Lt: ast.Gt, ast.Gt: ast.Lt, ast.LtE: ast.GtE, ast.GtE: ast.LtE, ast.Eq: ast.Eq, ast.NotEq: ast.NotEq}


def operand_orders(fn):
    """the operand order of every + / * and of every single-operator comparison of a function, as text pairs"""
    comm, cmps = set(), set()
    for x in _own_nodes(fn):
        if isinstance(x, ast.BinOp) and isinstance(x.op, (ast.Add, ast.Mult)):
            comm.add((type(x.op).__name__, ast.unparse(x.left), ast.unparse(x.right)))
        elif isinstance(x, ast.Compare) and len(x.ops) == 1 and type(x.ops[0]) in _FLIP:
            cmps.add((type(x.ops[0]).__name__, ast.unparse(x.left), ast.unparse(x.comparators[0])))
    ifexp = sorted({x.targets[0].id for x in _own_nodes(fn) if isinstance(x, ast.Assign) and isinstance(x.value, ast.IfExp)
                    and len(x.targets) == 1 and isinstance(x.targets[0], ast.Name)})
    _J = (ast.Return, ast.Raise, ast.Continue, ast.Break)
    else_after_jump = sorted({ast.unparse(x.test) for x in _own_nodes(fn) if isinstance(x, ast.If) and x.orelse and isinstance(x.body[-1], _J)})
    and_tests = sorted({ast.unparse(x.test) for x in _own_nodes(fn) if isinstance(x, ast.If) and not x.orelse and isinstance(x.test, ast.BoolOp)
                        and isinstance(x.test.op, ast.And)})
    two_way = sorted({ast.unparse(x.test) for x in _own_nodes(fn) if isinstance(x, ast.If) and x.orelse})
    return {"comm": sorted(map(list, comm)), "cmp": sorted(map(list, cmps)), "ifexp": ifexp, "else_after_jump": else_after_jump, "and_tests": and_tests,
            "two_way": two_way}


def _sequence_like(e):
    for x in ast.walk(e):
        if isinstance(x, (ast.List, ast.Tuple, ast.ListComp, ast.JoinedStr, ast.Dict, ast.Set)) or (isinstance(x, ast.Constant) and isinstance(x.value, (str, bytes))):
            return True
    return False


def _visibly_numeric(n):
    """one operand of the + is a number or an arithmetic expression, so the + is not a concatenation"""
    def num(e):
        return (isinstance(e, ast.Constant) and isinstance(e.value, (int, float)) and not isinstance(e.value, bool)) or (
            isinstance(e, ast.BinOp) and isinstance(e.op, (ast.Mult, ast.Div, ast.FloorDiv, ast.Pow, ast.Mod, ast.Sub))) or (
            isinstance(e, ast.UnaryOp) and isinstance(e.op, ast.USub))
    return num(n.left) or num(n.right)


class _Reorder(ast.NodeTransformer):
    def __init__(self, ref):
        self.comm = {tuple(x) for x in ref.get("comm", [])}
        self.cmp = {tuple(x) for x in ref.get("cmp", [])}
        self.n = 0

    def visit_FunctionDef(self, node):
        return node  # nested functions have their own entry

    visit_AsyncFunctionDef = visit_Lambda = visit_ClassDef = visit_FunctionDef

    def visit_BinOp(self, node):
        self.generic_visit(node)
        if (isinstance(node.op, ast.Mult) or (isinstance(node.op, ast.Add) and _visibly_numeric(node))) and not _sequence_like(node):
            k = type(node.op).__name__
            l, r = ast.unparse(node.left), ast.unparse(node.right)
            if (k, l, r) not in self.comm and (k, r, l) in self.comm:
                node.left, node.right = node.right, node.left
                self.n += 1
        return node

    def visit_Compare(self, node):
        self.generic_visit(node)
        if len(node.ops) == 1 and type(node.ops[0]) in _FLIP:
            k = type(node.ops[0])
            l, r = ast.unparse(node.left), ast.unparse(node.comparators[0])
            if (k.__name__, l, r) not in self.cmp and (_FLIP[k].__name__, r, l) in self.cmp:
                node.left, node.comparators, node.ops = node.comparators[0], [node.left], [_FLIP[k]()]
                self.n += 1
        return node


def restore_operand_order(tree, modname):
    """a + b / a * b (numbers or arrays: exact in IEEE arithmetic) and a < b / b > a are one expression with two spellings;
    where the reference function spells it the other way round, the reference spelling is restored"""
    if os.environ.get("PDSA_NO_ALPHA"):
        return {}
    ref = _ref()
    applied = {}
    for q, fn in functions_of(tree, modname):
        r = ref.get("@ops:" + q)
        if not r:
            continue
        # `x = a if c else b` where the reference function assigns x in the two branches of an if statement
        keep = set(r.get("ifexp", []))
        for blk in _blocks(fn):
            for i, st in enumerate(list(blk)):
                if (isinstance(st, ast.Assign) and isinstance(st.value, ast.IfExp) and len(st.targets) == 1 and isinstance(st.targets[0], ast.Name)
                        and st.targets[0].id not in keep and st.targets[0].id in ref.get(q, {})):
                    import copy
                    a, b = copy.copy(st), copy.copy(st)
                    a.value, b.value = st.value.body, st.value.orelse
                    new = ast.copy_location(ast.If(test=st.value.test, body=[a], orelse=[b]), st)
                    new = _IfNormal().visit(new)
                    blk[blk.index(st)] = new
                    applied[q] = applied.get(q, 0) + 1
        # a two-way branch written with the inverse test and the branches exchanged
        two_way = set(r.get("two_way", []))
        for x in list(_own_nodes(fn)):
            if isinstance(x, ast.If) and x.orelse and not (len(x.orelse) == 1 and isinstance(x.orelse[0], ast.If)) and ast.unparse(x.test) not in two_way:
                inv = _nnf(x.test, True)
                if ast.unparse(inv) in two_way:
                    x.test = inv
                    x.body, x.orelse = x.orelse, x.body
                    applied[q] = applied.get(q, 0) + 1
        eaj, ands = set(r.get("else_after_jump", [])), set(r.get("and_tests", []))
        _J = (ast.Return, ast.Raise, ast.Continue, ast.Break)
        for _ in range(4):
            changed = False
            for blk in _blocks(fn):
                for i, st in enumerate(blk):
                    if not isinstance(st, ast.If) or st.orelse:
                        continue
                    # `if a: if b: X`  where the reference tests `a and b`
                    if len(st.body) == 1 and isinstance(st.body[0], ast.If) and not st.body[0].orelse:
                        inner = st.body[0]
                        vals = (st.test.values if isinstance(st.test, ast.BoolOp) and isinstance(st.test.op, ast.And) else [st.test]) + \
                               (inner.test.values if isinstance(inner.test, ast.BoolOp) and isinstance(inner.test.op, ast.And) else [inner.test])
                        merged = ast.BoolOp(op=ast.And(), values=list(vals))
                        if ast.unparse(merged) in ands:
                            st.test = ast.copy_location(merged, st.test)
                            st.body = inner.body
                            changed = True
                            break
                    # `if c: ...; return` followed by the rest, where the reference has the rest under else
                    if isinstance(st.body[-1], _J) and i + 1 < len(blk) and ast.unparse(st.test) in eaj:
                        st.orelse = blk[i + 1:]
                        del blk[i + 1:]
                        changed = True
                        break
                if changed:
                    break
            if not changed:
                break
            applied[q] = applied.get(q, 0) + 1
        for _ in range(3):
            t = _Reorder(r)
            for st in fn.body:
                t.visit(st)
            if not t.n:
                break
            applied[q] = applied.get(q, 0) + t.n
    return applied


def _pure_expr(e):
    """names, attributes, literals, arithmetic, subscripts / slices and len(): evaluating it twice gives the same value (or a
    view of the same data) as long as the names in it are not re-bound"""
    if isinstance(e, (ast.Name, ast.Constant)):
        return True
    if isinstance(e, ast.Attribute):
        return _pure_expr(e.value)
    if isinstance(e, ast.BinOp):
        return _pure_expr(e.left) and _pure_expr(e.right)
    if isinstance(e, ast.UnaryOp):
        return _pure_expr(e.operand)
    if isinstance(e, ast.Subscript):
        return _pure_expr(e.value) and _pure_expr(e.slice)
    if isinstance(e, ast.Slice):
        return all(x is None or _pure_expr(x) for x in (e.lower, e.upper, e.step))
    if isinstance(e, ast.Tuple):
        return all(_pure_expr(x) for x in e.elts)
    if isinstance(e, ast.Call) and isinstance(e.func, ast.Name) and e.func.id in ("len", "int", "float", "min", "max", "abs", "slice") and not e.keywords:
        return all(_pure_expr(a) for a in e.args)
    if isinstance(e, ast.Compare):
        return _pure_expr(e.left) and all(_pure_expr(c) for c in e.comparators)
    if isinstance(e, ast.BoolOp):
        return all(_pure_expr(v) for v in e.values)
    if isinstance(e, ast.IfExp):
        return _pure_expr(e.test) and _pure_expr(e.body) and _pure_expr(e.orelse)
    return False


def _stable_pure_expr(fn, blk, i, st, uses, stores):
    """the definition `v = <pure expression>` at blk[i] can be substituted at every use: all uses are in the statements that
    follow it in its own block (at any depth), and no name the expression mentions is stored to in those statements"""
    if not _pure_expr(st.value) or isinstance(st.value, (ast.Name, ast.Constant)):
        return False
    following = blk[i + 1:]
    inside = {id(x) for s_ in following for x in ast.walk(s_)}
    if not all(id(u) in inside for u in uses):
        return False
    names = {x.id for x in ast.walk(st.value) if isinstance(x, ast.Name)}
    attrs = {ast.unparse(x) for x in ast.walk(st.value) if isinstance(x, ast.Attribute)}
    # only the statements up to the last use matter (inside a loop the definition is evaluated again on the next round)
    last = max((k for k, s_ in enumerate(following) if any(id(x) in {id(u) for u in uses} for x in ast.walk(s_))), default=-1)
    for s_ in following[:last + 1]:
        for x in ast.walk(s_):
            if isinstance(x, ast.Name) and isinstance(x.ctx, (ast.Store, ast.Del)) and x.id in names:
                return False
            if isinstance(x, ast.Attribute) and isinstance(x.ctx, (ast.Store, ast.Del)) and ast.unparse(x) in attrs:
                return False
            if isinstance(x, (ast.AugAssign,)) and isinstance(x.target, ast.Name) and x.target.id in names:
                return False
    # scalar operands only change by re-binding; containers named in the expression may be mutated, which both spellings see alike
    return True


def _constant_expr(e):
    """literals, module attributes such as np.pi, and arithmetic over them"""
    if isinstance(e, ast.Constant):
        return isinstance(e.value, (int, float, complex)) and not isinstance(e.value, bool)
    if isinstance(e, ast.Attribute):
        return isinstance(e.value, ast.Name) and e.value.id in ("np", "numpy", "math") and e.attr in ("pi", "e", "inf")
    if isinstance(e, ast.BinOp) and isinstance(e.op, (ast.Add, ast.Sub, ast.Mult, ast.Div, ast.Pow)):
        return _constant_expr(e.left) and _constant_expr(e.right)
    if isinstance(e, ast.UnaryOp) and isinstance(e.op, (ast.USub, ast.UAdd)):
        return _constant_expr(e.operand)
    return False


def new_params_as_defaults(tree, modname):
    """A parameter the reference function does not have, with a default, is a hook for new callers; every existing caller -
    and every behaviour the properties speak about - runs with the default.  Its reads are replaced by the default value (a
    name, an attribute of a module, a literal) so that the body reads as it did before the hook was threaded through."""
    if os.environ.get("PDSA_NO_ALPHA"):
        return {}
    ref = _ref()
    applied = {}
    import copy
    for q, fn in functions_of(tree, modname):
        rp = ref.get("@params:" + q)
        if rp is None:
            continue
        a = fn.args
        pos = a.posonlyargs + a.args
        defaults = {}
        for arg, d in zip(pos[len(pos) - len(a.defaults):], a.defaults):
            defaults[arg.arg] = d
        for arg, d in zip(a.kwonlyargs, a.kw_defaults):
            if d is not None:
                defaults[arg.arg] = d
        stored = {x.id for x in _own_nodes(fn) if isinstance(x, ast.Name) and isinstance(x.ctx, (ast.Store, ast.Del))}
        now_names = {x.arg for x in pos + a.kwonlyargs} | ({a.vararg.arg} if a.vararg else set()) | ({a.kwarg.arg} if a.kwarg else set())
        if any(p_ not in now_names for p_ in rp):
            continue  # a reference parameter is gone: the new name is a renamed parameter that callers do pass, not a hook
        for name, d in defaults.items():
            if name in rp or name in stored:
                continue
            if not (isinstance(d, (ast.Name, ast.Constant)) or (isinstance(d, ast.Attribute) and isinstance(d.value, ast.Name))):
                continue
            n = 0
            for holder in ast.walk(fn):
                if holder is fn.args:
                    continue
                for fld, val_ in ast.iter_fields(holder):
                    if isinstance(val_, ast.Name) and val_.id == name and isinstance(val_.ctx, ast.Load) and holder is not fn:
                        setattr(holder, fld, copy.deepcopy(d))
                        n += 1
                    elif isinstance(val_, list):
                        for j_, item in enumerate(val_):
                            if isinstance(item, ast.Name) and item.id == name and isinstance(item.ctx, ast.Load):
                                val_[j_] = copy.deepcopy(d)
                                n += 1
            if n:
                applied.setdefault(q, []).append(name)
        if q in applied:
            _ConstFold().visit(fn)
            ast.fix_missing_locations(fn)
    return applied


class _ConstFold(ast.NodeTransformer):
    """`None is None`, `x and True`, `if False:` ... left behind by reading a hook parameter as its default"""

    def visit_Compare(self, node):
        self.generic_visit(node)
        if len(node.ops) == 1 and isinstance(node.left, ast.Constant) and isinstance(node.comparators[0], ast.Constant) \
                and isinstance(node.ops[0], (ast.Is, ast.IsNot)) and (node.left.value is None or node.comparators[0].value is None):
            same = node.left.value is None and node.comparators[0].value is None
            return ast.copy_location(ast.Constant(value=same if isinstance(node.ops[0], ast.Is) else not same), node)
        return node

    def visit_UnaryOp(self, node):
        self.generic_visit(node)
        if isinstance(node.op, ast.Not) and isinstance(node.operand, ast.Constant) and isinstance(node.operand.value, bool):
            return ast.copy_location(ast.Constant(value=not node.operand.value), node)
        return node

    def visit_BoolOp(self, node):
        self.generic_visit(node)
        is_and = isinstance(node.op, ast.And)
        vals = []
        for v in node.values:
            if isinstance(v, ast.Constant) and isinstance(v.value, bool):
                if v.value != is_and:
                    return ast.copy_location(ast.Constant(value=v.value), node)  # False in an and / True in an or decides (as a test)
                continue
            vals.append(v)
        if not vals:
            return ast.copy_location(ast.Constant(value=is_and), node)
        if len(vals) == 1:
            return vals[0]
        node.values = vals
        return node

    def visit_IfExp(self, node):
        self.generic_visit(node)
        if isinstance(node.test, ast.Constant) and isinstance(node.test.value, bool):
            return node.body if node.test.value else node.orelse
        return node

    def _body(self, stmts):
        out = []
        for st in stmts:
            st = self.visit(st)
            if isinstance(st, list):
                out.extend(st)
            elif st is not None:
                out.append(st)
        return out

    def visit_If(self, node):
        node.test = self.visit(node.test)
        node.body = self._body(node.body)
        node.orelse = self._body(node.orelse)
        if isinstance(node.test, ast.Constant) and isinstance(node.test.value, bool):
            return (node.body if node.test.value else node.orelse) or [ast.copy_location(ast.Pass(), node)]
        if not node.body:
            node.body = [ast.copy_location(ast.Pass(), node)]
        return node

    def generic_visit(self, node):
        for fld in ("body", "orelse", "finalbody"):
            b = getattr(node, fld, None)
            if isinstance(b, list) and b and isinstance(b[0], ast.stmt) and not isinstance(node, ast.If):
                setattr(node, fld, self._body(b) or [ast.Pass()])
        for fld, val in ast.iter_fields(node):
            if fld in ("body", "orelse", "finalbody") and isinstance(val, list) and val and isinstance(val[0], ast.stmt):
                continue
            if isinstance(val, list):
                new = []
                for item in val:
                    if isinstance(item, ast.AST):
                        r = self.visit(item)
                        if isinstance(r, list):
                            new.extend(r)
                        elif r is not None:
                            new.append(r)
                    else:
                        new.append(item)
                val[:] = new
            elif isinstance(val, ast.AST):
                r = self.visit(val)
                if r is not None and not isinstance(r, list):
                    setattr(node, fld, r)
        return node


def _blocks(fn):
    out = []
    stack = [fn]
    while stack:
        n = stack.pop()
        for fld in ("body", "orelse", "finalbody"):
            b = getattr(n, fld, None)
            if isinstance(b, list) and b and isinstance(b[0], ast.stmt):
                out.append(b)
                for s_ in b:
                    if not isinstance(s_, (ast.FunctionDef, ast.AsyncFunctionDef, ast.ClassDef)):
                        stack.append(s_)
        for h in getattr(n, "handlers", []) or []:
            out.append(h.body)
            stack.extend(h.body)
    return out


class _Subst(ast.NodeTransformer):
    def __init__(self, target, value):
        self.target, self.value = target, value

    def visit_Name(self, node):
        return self.value if node is self.target else node


# ---------------------------------------------------------------------------------------------------------------------
# call shapes: f(x, 2, 1) and f(x, ord=2, dim=1) are the same call; f(x, dim=0) restates a default.  For the library
# functions below (signature: parameters in order, with their defaults where restating them is common) a call is brought
# back to the shape the reference function spells it with - same number of positional arguments, same keywords - when
# the arguments bound are the same; arguments that restate a documented default and that the reference does not pass are
# dropped.  Aliases of one function (torch.concatenate is torch.cat) get the reference's spelling.
_REQ = object()
_SIGS = {
    "torch.cat": [("tensors", _REQ), ("dim", 0)],
    "torch.stack": [("tensors", _REQ), ("dim", 0)],
    "torch.linalg.norm": [("A|input", _REQ), ("ord", None), ("dim", None), ("keepdim", False)],
    "torch.fft.rfft": [("input", _REQ), ("n", None), ("dim", -1), ("norm", ("backward", None))],
    "torch.fft.fft": [("input", _REQ), ("n", None), ("dim", -1), ("norm", ("backward", None))],
    "torch.tensor": [("data", _REQ), ("dtype", None), ("device", None), ("requires_grad", False)],
    "torch.load": [("f", _REQ), ("map_location", None)],
    "torch.save": [("obj", _REQ), ("f", _REQ)],
    "numpy.fft.rfft": [("a", _REQ), ("n", None), ("axis", -1), ("norm", ("backward", None))],
    "numpy.fft.fft": [("a", _REQ), ("n", None), ("axis", -1), ("norm", ("backward", None))],
    "numpy.fft.irfft": [("a", _REQ), ("n", None), ("axis", -1), ("norm", ("backward", None))],
    "numpy.fft.ifft": [("a", _REQ), ("n", None), ("axis", -1), ("norm", ("backward", None))],
    "numpy.concatenate": [("arrays", _REQ), ("axis", 0)],
    "numpy.stack": [("arrays", _REQ), ("axis", 0)],
    "numpy.pad": [("array", _REQ), ("pad_width", _REQ), ("mode", "constant")],
    "numpy.roll": [("a", _REQ), ("shift", _REQ), ("axis", None)],
    "numpy.load": [("file", _REQ), ("mmap_mode", None), ("allow_pickle", False), ("fix_imports", True), ("encoding", "ASCII")],
    "numpy.moveaxis": [("a", _REQ), ("source", _REQ), ("destination", _REQ)],
    "numpy.swapaxes": [("a", _REQ), ("axis1", _REQ), ("axis2", _REQ)],
    "numpy.sum": [("a", _REQ), ("axis", None)],
    "numpy.prod": [("a", _REQ), ("axis", None)],
    "numpy.frombuffer": [("buffer", _REQ), ("dtype", _REQ), ("count", -1), ("offset", 0)],
    "numpy.correlate": [("a", _REQ), ("v", _REQ), ("mode", "valid")],
    "numpy.convolve": [("a", _REQ), ("v", _REQ), ("mode", "full")],
    "numpy.isclose": [("a", _REQ), ("b", _REQ)],
    "numpy.savez": None,
    "warnings.warn": [("message", _REQ), ("category", ("UserWarning", None)), ("stacklevel", 1)],
    "os.makedirs": [("name", _REQ), ("mode", 0o777), ("exist_ok", False)],
    "open": [("file", _REQ), ("mode", "r")],
    ".astype": [("dtype", _REQ), ("order", "K"), ("casting", "unsafe"), ("subok", True), ("copy", True)],
    ".sum": [("axis|dim", _REQ)],
    ".mean": [("axis|dim", _REQ)],
    ".as_strided": [("size", _REQ), ("stride", _REQ)],
    ".flip": [("dims", _REQ)],
    ".reshape": None,
    ".size": [("dim", _REQ)],
    ".clamp_min": [("min", _REQ)],
}
_ALIASES = [{"torch.cat", "torch.concatenate", "torch.concat"}, {"numpy.concatenate", "numpy.concat"}, {"numpy.absolute", "numpy.abs"},
            {"numpy.power", "numpy.pow"}]


def _callee_text(func):
    try:
        t = ast.unparse(func)
    except Exception:
        return None
    if t.startswith("np."):
        t = "numpy." + t[3:]
    return t


def _sig_for(text):
    if text in _SIGS:
        return _SIGS[text]
    for al in _ALIASES:
        if text in al:
            for a in al:
                if a in _SIGS:
                    return _SIGS[a]
    if "." in text:
        m = "." + text.rsplit(".", 1)[1]
        if not text.startswith(("numpy.", "torch.", "os.", "warnings.")) and m in _SIGS:
            return _SIGS[m]
    return None


def _call_key(func):
    """how calls are matched between the reference and the analysed function: library functions by dotted name (aliases
    folded), methods by attribute name"""
    t = _callee_text(func)
    if t is None:
        return None
    for al in _ALIASES:
        if t in al:
            return sorted(al)[0]
    if t in _SIGS:
        return t
    if "." in t and not t.startswith(("numpy.", "torch.", "os.", "warnings.")):
        return "." + t.rsplit(".", 1)[1]
    return t


def call_shapes(fn):
    out = {}
    for x in _own_nodes(fn):
        if isinstance(x, ast.Call) and not any(isinstance(a, ast.Starred) for a in x.args):
            k = _call_key(x.func)
            if k is None or _sig_for(k if not k.startswith(".") else k) is None:
                continue
            shape = [_callee_text(x.func) if not k.startswith(".") else k, len(x.args), sorted(kw.arg for kw in x.keywords if kw.arg is not None),
                     any(kw.arg is None for kw in x.keywords)]
            out.setdefault(k, [])
            if shape not in out[k]:
                out[k].append(shape)
    return out


def _default_equal(node, default):
    alts = default if isinstance(default, tuple) else (default,)
    for d in alts:
        if isinstance(node, ast.Constant) and type(node.value) is type(d) and node.value == d:
            return True
        if isinstance(node, ast.Constant) and node.value is None and d is None:
            return True
        if isinstance(d, str) and isinstance(node, ast.Name) and node.id == d:
            return True
    return False


def restore_call_shapes(tree, modname):
    if os.environ.get("PDSA_NO_ALPHA"):
        return {}
    ref = _ref()
    applied = {}
    for q, fn in functions_of(tree, modname):
        shapes = ref.get("@calls:" + q)
        if not shapes:
            continue
        for x in list(_own_nodes(fn)):
            if not isinstance(x, ast.Call) or any(isinstance(a, ast.Starred) for a in x.args):
                continue
            k = _call_key(x.func)
            if k is None or k not in shapes:
                continue
            sig = _sig_for(k)
            if not sig:
                continue
            mine = [len(x.args), sorted(kw.arg for kw in x.keywords if kw.arg is not None), any(kw.arg is None for kw in x.keywords)]
            text = _callee_text(x.func)
            if any(sh[1:] == mine and (k.startswith(".") or sh[0] == text) for sh in shapes[k]):
                # same shape as some reference call - but a keyword that restates its default is dropped all the same when the
                # reference also spells the call without it (x.astype(t, copy=True) next to a reference x.astype(t))
                defaults_ = dict(sig)
                for kw in list(x.keywords):
                    if kw.arg is None:
                        continue
                    hit = [p for p in defaults_ if kw.arg in p.split("|")]
                    if hit and defaults_[hit[0]] is not _REQ and _default_equal(kw.value, defaults_[hit[0]]):
                        rest = sorted(k2.arg for k2 in x.keywords if k2.arg is not None and k2 is not kw)
                        if any(sh[1] == len(x.args) and sh[2] == rest for sh in shapes[k]):
                            x.keywords.remove(kw)
                            applied[q] = applied.get(q, 0) + 1
                continue
            # bind
            names = [p for p, _ in sig]
            if len(x.args) > len(names):
                continue
            bound = {}
            for (p, _), a in zip(sig, x.args):
                bound[p] = a
            okb = True
            for kw in x.keywords:
                if kw.arg is None:
                    continue
                hit = [p for p in names if kw.arg in p.split("|")]
                if not hit or hit[0] in bound:
                    okb = False
                    break
                bound[hit[0]] = kw.value
            if not okb:
                continue
            star = [kw for kw in x.keywords if kw.arg is None]
            for sh in shapes[k]:
                rtext, npos, kws, rstar = sh
                if bool(star) != bool(rstar):
                    continue
                want = set(names[:npos])
                kwmap = {}
                bad = False
                for kwn in kws:
                    hit = [p for p in names if kwn in p.split("|")]
                    if not hit:
                        bad = True
                        break
                    want.add(hit[0])
                    kwmap[hit[0]] = kwn
                if bad:
                    continue
                extra = set(bound) - want
                defaults = dict(sig)
                if set(bound) - extra != want:
                    continue
                if any(defaults[p] is _REQ or not _default_equal(bound[p], defaults[p]) for p in extra):
                    continue
                x.args = [bound[p] for p in names[:npos]]
                x.keywords = [ast.keyword(arg=kwmap[p], value=bound[p]) for p in names if p in kwmap] + star
                if not k.startswith(".") and rtext != text:
                    try:
                        x.func = ast.copy_location(ast.parse(rtext if not rtext.startswith("numpy.") or text.startswith("numpy.") else rtext, mode="eval").body, x.func)
                        if text.startswith("numpy.") and ast.unparse(fn).find("np.") >= 0 and rtext.startswith("numpy."):
                            x.func = ast.copy_location(ast.parse("np." + rtext[6:], mode="eval").body, x.func)
                    except SyntaxError:
                        pass
                applied[q] = applied.get(q, 0) + 1
                break
    if applied:
        ast.fix_missing_locations(tree)
    return applied


# ---------------------------------------------------------------------------------------------------------------------
# new module-level look-up tables: NAME = {"a": X, "b": Y} that the reference module does not have and that nothing
# mutates names a finite map.  `k in NAME` is `k in {"a", "b"}`; NAME["a"] is X; NAME[k] is X if k == "a" else (Y if k == "b"
# else NAME[k]) - the last alternative keeps the KeyError of a missing key.
def inline_new_tables(tree, modname):
    if os.environ.get("PDSA_NO_ALPHA") or not _ref():
        return {}
    import copy
    tables = {}
    for st in tree.body:
        if isinstance(st, ast.Assign) and len(st.targets) == 1 and isinstance(st.targets[0], ast.Name) and isinstance(st.value, ast.Dict) and st.value.keys:
            nm = st.targets[0].id
            if not is_new_module_name(modname, nm):
                continue
            if all(isinstance(k, ast.Constant) and isinstance(k.value, (str, int)) for k in st.value.keys) and all(_simple_arg(v) for v in st.value.values):
                tables[nm] = st.value
    if not tables:
        return {}
    for x in ast.walk(tree):
        # any store / mutation / escape of the table disqualifies it
        if isinstance(x, ast.Name) and x.id in tables and isinstance(x.ctx, (ast.Store, ast.Del)):
            cnt = sum(1 for y in ast.walk(tree) if isinstance(y, ast.Name) and y.id == x.id and isinstance(y.ctx, (ast.Store, ast.Del)))
            if cnt > 1:
                tables.pop(x.id, None)
    parents = {}
    for n in ast.walk(tree):
        for c in ast.iter_child_nodes(n):
            parents[id(c)] = n
    for x in ast.walk(tree):
        if isinstance(x, ast.Name) and x.id in tables and isinstance(x.ctx, ast.Load):
            par = parents.get(id(x))
            ok = (isinstance(par, ast.Subscript) and par.value is x and isinstance(par.ctx, ast.Load)) or \
                 (isinstance(par, ast.Compare) and len(par.ops) == 1 and isinstance(par.ops[0], (ast.In, ast.NotIn)) and par.comparators[0] is x)
            if not ok:
                tables.pop(x.id, None)
    if not tables:
        return {}
    applied = {}

    class T(ast.NodeTransformer):
        def visit_Compare(self, node):
            self.generic_visit(node)
            if len(node.ops) == 1 and isinstance(node.ops[0], (ast.In, ast.NotIn)) and isinstance(node.comparators[0], ast.Name) and node.comparators[0].id in tables:
                d = tables[node.comparators[0].id]
                node.comparators[0] = ast.copy_location(ast.Set(elts=[copy.deepcopy(k) for k in d.keys]), node.comparators[0])
                applied[node.comparators[0].__class__.__name__] = applied.get("Set", 0) + 1
            return node

        def visit_Subscript(self, node):
            self.generic_visit(node)
            if isinstance(node.value, ast.Name) and node.value.id in tables and isinstance(node.ctx, ast.Load):
                d = tables[node.value.id]
                key = node.slice
                if isinstance(key, ast.Constant):
                    for k, v in zip(d.keys, d.values):
                        if type(k.value) is type(key.value) and k.value == key.value:
                            applied["const"] = applied.get("const", 0) + 1
                            return ast.copy_location(copy.deepcopy(v), node)
                    return node
                if _pure_expr(key):
                    out = node
                    for k, v in reversed(list(zip(d.keys, d.values))):
                        out = ast.IfExp(test=ast.Compare(left=copy.deepcopy(key), ops=[ast.Eq()], comparators=[copy.deepcopy(k)]), body=copy.deepcopy(v), orelse=out)
                    applied["var"] = applied.get("var", 0) + 1
                    return ast.copy_location(out, node)
            return node
    T().visit(tree)
    if applied:
        ast.fix_missing_locations(tree)
    return applied


# ---------------------------------------------------------------------------------------------------------------------
# loop headers: `for i, (a, b) in enumerate(zip(A, B)):` walks A and B in step, as `for i in range(len(A)): a = A[i]; b = B[i]`
# does when the two have the same length.  Where the reference function has the index form of the loop (same index name,
# range(len(A))), the zipped form is rewritten to it.  Also `for a, b in zip(A, B)` / `for i, a in enumerate(A)`.
def loop_headers(fn):
    return sorted({"%s|%s" % (ast.unparse(x.target), ast.unparse(x.iter)) for x in _own_nodes(fn) if isinstance(x, ast.For)})


def restore_index_loops(tree, modname):
    if os.environ.get("PDSA_NO_ALPHA"):
        return {}
    ref = _ref()
    applied = {}
    for q, fn in functions_of(tree, modname):
        heads = ref.get("@loops:" + q)
        if not heads:
            continue
        index_loops = {}
        for h in heads:
            t, it = h.split("|", 1)
            if it.startswith("range(len(") and it.endswith("))") and t.isidentifier():
                index_loops[it[len("range(len("):-2]] = t
        if not index_loops:
            continue
        for x in list(_own_nodes(fn)):
            if not isinstance(x, ast.For) or not isinstance(x.iter, ast.Call) or x.orelse:
                continue
            it = x.iter
            seqs, idx, elems = None, None, None
            if isinstance(it.func, ast.Name) and it.func.id == "enumerate" and len(it.args) == 1 and not it.keywords and isinstance(x.target, ast.Tuple) and len(x.target.elts) == 2 \
                    and isinstance(x.target.elts[0], ast.Name):
                idx = x.target.elts[0].id
                inner = it.args[0]
                if isinstance(inner, ast.Call) and isinstance(inner.func, ast.Name) and inner.func.id == "zip" and not inner.keywords and isinstance(x.target.elts[1], ast.Tuple) \
                        and len(inner.args) == len(x.target.elts[1].elts):
                    seqs, elems = list(inner.args), list(x.target.elts[1].elts)
                elif isinstance(x.target.elts[1], ast.Name):
                    seqs, elems = [inner], [x.target.elts[1]]
            if seqs is None or not all(isinstance(e, ast.Name) for e in elems) or not all(_pure_expr(s_) for s_ in seqs):
                continue
            first = ast.unparse(seqs[0])
            if index_loops.get(first) != idx:
                continue
            # the sequences must not be re-bound in the body
            names = {y.id for s_ in seqs for y in ast.walk(s_) if isinstance(y, ast.Name)}
            if any(isinstance(y, ast.Name) and isinstance(y.ctx, ast.Store) and y.id in names for b in x.body for y in ast.walk(b)):
                continue
            import copy
            pre = []
            for s_, e_ in zip(seqs, elems):
                pre.append(ast.Assign(targets=[ast.Name(id=e_.id, ctx=ast.Store())],
                                      value=ast.Subscript(value=copy.deepcopy(s_), slice=ast.Name(id=idx, ctx=ast.Load()), ctx=ast.Load())))
            for p_ in pre:
                ast.copy_location(p_, x.body[0])
                for y in ast.walk(p_):
                    ast.copy_location(y, x.body[0])
            x.target = ast.copy_location(ast.Name(id=idx, ctx=ast.Store()), x.target)
            x.iter = ast.copy_location(ast.parse("range(len(%s))" % first, mode="eval").body, x.iter)
            x.body[0:0] = pre
            applied[q] = applied.get(q, 0) + 1
    if applied:
        ast.fix_missing_locations(tree)
    return applied


# ---------------------------------------------------------------------------------------------------------------------
# constants moved to a new module: `from pydrobert.speech._consts import A, B` where _consts is a module the reference package
# does not have and A, B are plain constants there is `A = ...; B = ...` in the importing module.  The assignments are copied
# in (with the constants they are built from) so that the module reads as it did before the move.
_LOG_METHODS = {"debug", "info", "warning", "warn", "error", "exception", "critical", "log"}


def strip_new_pure_logging(tree, rel):
    """Logging statements the reference tree does not have, whose arguments are names, constants, attribute reads, `type(x)` and
    `getattr(x, "name", default)` only, are taken out of the model: formatting is deferred by the logging module, evaluating such
    arguments cannot raise, consume a stream or a random generator, or modify anything, so the statement cannot change what the
    program computes.  Every other logging call stays and is inspected like any statement (`data.min()`, `torch.seed()` inside a
    log line are exactly what the effect rules look for).  Returns the number of statements removed."""
    if os.environ.get("PDSA_NO_ALPHA"):
        return 0
    from . import refdist
    import hashlib
    ref = refdist.reference().get(rel)
    if ref is None:
        return 0
    loggers = set()
    for n in ast.walk(tree):
        if isinstance(n, ast.Assign) and isinstance(n.value, ast.Call) and isinstance(n.value.func, (ast.Attribute, ast.Name)):
            fn = n.value.func
            nm = fn.attr if isinstance(fn, ast.Attribute) else fn.id
            if nm == "getLogger":
                loggers |= {t.id for t in n.targets if isinstance(t, ast.Name)}

    def pure(e):
        if isinstance(e, (ast.Constant, ast.Name)):
            return True
        if isinstance(e, ast.Attribute):
            return pure(e.value)
        if isinstance(e, (ast.Tuple, ast.List)):
            return all(pure(x) for x in e.elts)
        if isinstance(e, ast.Call) and isinstance(e.func, ast.Name) and not e.keywords:
            if e.func.id == "type" and len(e.args) == 1:
                return pure(e.args[0])
            if e.func.id == "getattr" and len(e.args) == 3 and isinstance(e.args[1], ast.Constant):
                return pure(e.args[0]) and pure(e.args[2])
        return False

    def is_log(st):
        if not (isinstance(st, ast.Expr) and isinstance(st.value, ast.Call) and isinstance(st.value.func, ast.Attribute)):
            return False
        c = st.value
        if c.func.attr not in _LOG_METHODS or not (isinstance(c.func.value, ast.Name) and c.func.value.id in loggers):
            return False
        if not all(pure(a) for a in c.args) or not all(k.arg in ("exc_info", "stack_info", "stacklevel", "extra") and pure(k.value) for k in c.keywords):
            return False
        k = hashlib.sha1(refdist._key(st).encode()).hexdigest()[:12]
        return k not in ref
    removed = 0
    for n in ast.walk(tree):
        for fld in ("body", "orelse", "finalbody"):
            lst = getattr(n, fld, None)
            if isinstance(lst, list) and lst and isinstance(lst[0], ast.stmt):
                keep = [st for st in lst if not is_log(st)]
                if len(keep) != len(lst):
                    removed += len(lst) - len(keep)
                    if not keep and fld == "body":
                        keep = [ast.copy_location(ast.Pass(), lst[0])]
                    setattr(n, fld, keep)
    return removed


def inline_new_module_constants(tree, modname, pkg_dir, pkg="pydrobert.speech"):
    if os.environ.get("PDSA_NO_ALPHA") or not _ref():
        return {}
    import copy
    ref = _ref()
    applied = {}
    for st in list(tree.body):
        if not isinstance(st, ast.ImportFrom) or any(a.name == "*" or a.asname not in (None, a.name) for a in st.names):
            continue
        mod = st.module or ""
        if st.level:
            base = modname.rsplit(".", st.level)[0] if modname.count(".") >= st.level else pkg
            full = (base + "." + mod) if mod else base
        else:
            full = mod
        if not full.startswith(pkg + ".") or ("@module:" + full) in ref:
            continue
        path = os.path.join(pkg_dir, full[len(pkg) + 1:].replace(".", os.sep) + ".py")
        if not os.path.isfile(path):
            continue
        try:
            with open(path) as fh:
                other = ast.parse(fh.read())
        except (OSError, SyntaxError):
            continue
        # module-level constant assignments of the other module, in order
        defs = []
        simple = set()

        def const_like(e):
            if _constant_expr(e) or isinstance(e, ast.Constant):
                return True
            if isinstance(e, ast.Name):
                return e.id in simple
            if isinstance(e, ast.BinOp):
                return const_like(e.left) and const_like(e.right)
            if isinstance(e, ast.UnaryOp):
                return const_like(e.operand)
            if isinstance(e, (ast.Tuple, ast.List, ast.Set)):
                return all(const_like(x) for x in e.elts)
            return False
        okmod = True
        body_ = []
        for o in other.body:
            # a, b = 1, 2  is  a = 1; b = 2
            if (isinstance(o, ast.Assign) and len(o.targets) == 1 and isinstance(o.targets[0], ast.Tuple) and isinstance(o.value, ast.Tuple)
                    and len(o.targets[0].elts) == len(o.value.elts) and all(isinstance(t, ast.Name) for t in o.targets[0].elts)):
                for t_, v_ in zip(o.targets[0].elts, o.value.elts):
                    body_.append(ast.copy_location(ast.Assign(targets=[t_], value=v_), o))
            else:
                body_.append(o)
        for o in body_:
            if isinstance(o, ast.Assign) and all(isinstance(t, ast.Name) for t in o.targets) and const_like(o.value):
                defs.append(o)
                simple.update(t.id for t in o.targets)
            elif isinstance(o, ast.Expr) and isinstance(o.value, ast.Constant):
                continue  # docstring
            elif isinstance(o, (ast.Import, ast.ImportFrom)):
                continue
            else:
                okmod = False
        wanted = {a.name for a in st.names}
        if not okmod or not wanted <= simple:
            continue
        # every name assigned more than once disqualifies
        counts = {}
        for o in defs:
            for t in o.targets:
                counts[t.id] = counts.get(t.id, 0) + 1
        if any(v > 1 for v in counts.values()):
            continue
        new = [ast.copy_location(copy.deepcopy(o), st) for o in defs]
        for n_ in new:
            for y in ast.walk(n_):
                if hasattr(y, "lineno"):
                    y.lineno = st.lineno
                    y.end_lineno = st.lineno
        i = tree.body.index(st)
        tree.body[i:i + 1] = new
        applied[full] = sorted(wanted)
    if applied:
        ast.fix_missing_locations(tree)
    return applied


def build_reference(repo_pkg_dir, pkg="pydrobert.speech"):
    table = {}
    for fnm in sorted(os.listdir(repo_pkg_dir)):
        if not fnm.endswith(".py"):
            continue
        base = fnm[:-3]
        modname = pkg if base == "__init__" else pkg + "." + base
        with open(os.path.join(repo_pkg_dir, fnm)) as fh:
            tree = normalise_shape(ast.parse(fh.read()))
        for q, fn in functions_of(tree, modname):
            s = signatures(fn)
            table[q] = s
            table["@ops:" + q] = operand_orders(fn)
            table["@params:" + q] = sorted(params_of(fn))
            lh = loop_headers(fn)
            if lh:
                table["@loops:" + q] = lh
            cs = call_shapes(fn)
            if cs:
                table["@calls:" + q] = cs
        table["@module:" + modname] = {"names": sorted(module_names(tree))}
        for cq, cnode in classes_of(tree, modname):
            table["@class:" + cq] = attr_signatures(cnode)
    return table


def module_names(tree):
    out = set()
    for st in ast.walk(tree):
        pass
    for st in tree.body:
        for x in ast.walk(st) if not isinstance(st, (ast.FunctionDef, ast.AsyncFunctionDef, ast.ClassDef)) else []:
            if isinstance(x, ast.Name) and isinstance(x.ctx, ast.Store):
                out.add(x.id)
        if isinstance(st, (ast.FunctionDef, ast.AsyncFunctionDef, ast.ClassDef)):
            out.add(st.name)
    return out


def classes_of(tree, modname):
    out = []

    def walk(body, prefix):
        for st in body:
            if isinstance(st, ast.ClassDef):
                q = prefix + "." + st.name
                out.append((q, st))
                walk(st.body, q)
            elif isinstance(st, (ast.If, ast.Try)):
                for fld in ("body", "orelse", "finalbody"):
                    walk(getattr(st, fld, []) or [], prefix)
                for h in getattr(st, "handlers", []) or []:
                    walk(h.body, prefix)
    walk(tree.body, modname)
    return out


def attr_signatures(cnode):
    """{private attribute: [signature of its first store in the class (methods in source order), ordinal]}"""
    order = []
    for m in cnode.body:
        if not isinstance(m, (ast.FunctionDef, ast.AsyncFunctionDef)) or not m.args.args:
            continue
        s0 = m.args.args[0].arg
        loc = locals_of(m) | params_of(m)
        parents = {}
        for n in ast.walk(m):
            for c in ast.iter_child_nodes(n):
                parents[id(c)] = n
        for n in ast.walk(m):
            if isinstance(n, ast.Attribute) and isinstance(n.ctx, ast.Store) and isinstance(n.value, ast.Name) and n.value.id == s0 and n.attr.startswith("_") \
                    and not n.attr.startswith("__"):
                cur = n
                while cur is not None and not isinstance(cur, ast.stmt):
                    cur = parents.get(id(cur))
                if cur is not None:
                    order.append((m.lineno, n.lineno, n.col_offset, n.attr, cur, s0, loc))
    order.sort(key=lambda t: t[:3])
    out, counts = {}, {}
    for _, _, _, attr, st, s0, loc in order:
        if attr in out:
            continue

        class B(ast.NodeTransformer):
            def visit_Attribute(self, node):
                self.generic_visit(node)
                if isinstance(node.value, ast.Name) and node.value.id == s0 and node.attr.startswith("_") and not node.attr.startswith("__"):
                    return ast.copy_location(ast.Attribute(value=node.value, attr="_", ctx=node.ctx), node)
                return node

            def visit_Name(self, node):
                if node.id in loc and node.id != s0:
                    return ast.copy_location(ast.Name(id="_", ctx=node.ctx), node)
                return node
        import copy
        try:
            txt = " ".join(ast.unparse(B().visit(copy.deepcopy(_header(st)))).split())
        except Exception:
            txt = type(st).__name__
        k = counts.get(txt, 0)
        counts[txt] = k + 1
        out[attr] = [txt, k]
    return out


class _RenameAttr(ast.NodeTransformer):
    def __init__(self, mapping):
        self.mapping = mapping

    def visit_Attribute(self, node):
        self.generic_visit(node)
        if node.attr in self.mapping:
            node.attr = self.mapping[node.attr]
        return node


def normalise_attrs(tree, modname):
    """private attributes renamed consistently inside a class get their reference names back (same idea as for locals)"""
    if os.environ.get("PDSA_NO_ALPHA"):
        return {}
    ref = _ref()
    applied = {}
    for cq, cnode in classes_of(tree, modname):
        r = ref.get("@class:" + cq)
        if not r:
            continue
        now = attr_signatures(cnode)
        present = {x.attr for x in ast.walk(cnode) if isinstance(x, ast.Attribute)}
        # an attribute that other modules of the package read keeps its name there too; only rename when the reference name is gone everywhere in this module
        present_mod = {x.attr for x in ast.walk(tree) if isinstance(x, ast.Attribute)}
        missing = [a for a in r if a not in present_mod]
        extra = [a for a in now if a not in r]
        by_sig = {}
        for a in extra:
            by_sig.setdefault(tuple(now[a]), []).append(a)
        mapping = {}
        for mname in missing:
            cands = by_sig.get(tuple(r[mname]), [])
            if len(cands) == 1 and cands[0] not in mapping:
                mapping[cands[0]] = mname
        if mapping:
            _RenameAttr(mapping).visit(cnode)
            applied[cq] = mapping
    return applied


def is_new_function(qualname):
    """a function that the reference tree does not have (a helper extracted by a refactoring)"""
    ref = _ref()
    return bool(ref) and qualname not in ref


def is_new_module_name(modname, name):
    ref = _ref()
    m = ref.get("@module:" + modname)
    return bool(m) and name not in m.get("names", [])


if __name__ == "__main__":
    import sys
    pkg_dir = sys.argv[1] if len(sys.argv) > 1 else "/repo/src/pydrobert/speech"
    t = build_reference(pkg_dir)
    with open(REF_PATH, "w") as fh:
        json.dump(t, fh, indent=0, sort_keys=True)
    print("alpha_ref.json: %d entries" % len(t))


# ---------------------------------------------------------------------------------------------------------------------
# un-extraction of helpers: a private function / method that the reference tree does not have, whose body runs straight
# to a single final `return` (or to its end), is spliced back into the statements that call it.  The result is the same
# program (parameters are bound first, the helper's locals get fresh names), and the caller reads as it did before the
# helper was extracted - which is what the rules were written against.
def _simple_arg(e):
    return isinstance(e, (ast.Name, ast.Constant)) or (isinstance(e, ast.Attribute) and _simple_arg(e.value))


def _helper_ok(fn):
    a = fn.args
    if a.vararg or a.kwarg or a.posonlyargs:
        return False
    decos = [ast.unparse(d) for d in fn.decorator_list]
    if any(d not in ("staticmethod",) for d in decos):
        return False
    body = [s for i, s in enumerate(fn.body) if not (i == 0 and isinstance(s, ast.Expr) and isinstance(s.value, ast.Constant) and isinstance(s.value.value, str))]
    if not body:
        return False
    for i, st in enumerate(body):
        for x in ast.walk(st):
            if isinstance(x, (ast.Yield, ast.YieldFrom, ast.Await, ast.Global, ast.Nonlocal, ast.FunctionDef, ast.AsyncFunctionDef, ast.ClassDef, ast.Lambda)):
                return False
            if isinstance(x, ast.Return) and not (x is st and i == len(body) - 1):
                if not _structured_returns(body):
                    return False
            if isinstance(x, ast.Call) and isinstance(x.func, ast.Name) and x.func.id == fn.name:
                return False
            if isinstance(x, ast.Call) and isinstance(x.func, ast.Attribute) and x.func.attr == fn.name:
                return False
    return True


def _always_exits(stmts):
    if not stmts:
        return False
    last = stmts[-1]
    if isinstance(last, (ast.Return, ast.Raise)):
        return True
    if isinstance(last, ast.If):
        return _always_exits(last.body) and _always_exits(last.orelse)
    return False


def _has_return(stmts):
    return any(isinstance(x, ast.Return) for s_ in stmts for x in ast.walk(s_))


def _structured_returns(stmts):
    """returns occur only as statements of (nested) if-branches or at the end of the body - never inside loops / try / with"""
    for st in stmts:
        if isinstance(st, ast.Return):
            continue
        if isinstance(st, ast.If):
            if not (_structured_returns(st.body) and _structured_returns(st.orelse)):
                return False
            if (_has_return(st.body) and not _always_exits(st.body)) or (_has_return(st.orelse) and not _always_exits(st.orelse)):
                return False
            continue
        if _has_return([st]):
            return False
    return True


def _single_exit(stmts, target):
    """the same statements with every `return e` turned into `target = e` (or dropped when target is None) and the code
    after an exiting if-branch moved under the other branch"""
    import copy
    out = []
    for i, st in enumerate(stmts):
        if isinstance(st, ast.Return):
            if target is not None:
                out.append(ast.copy_location(ast.Assign(targets=[copy.deepcopy(target)], value=st.value if st.value is not None else ast.Constant(value=None)), st))
            return out, True
        if isinstance(st, ast.Raise):
            out.append(st)
            return out, True
        if isinstance(st, ast.If) and (_has_return(st.body) or _has_return(st.orelse)):
            b, be = _single_exit(st.body, target)
            o, oe = _single_exit(st.orelse, target)
            rest = stmts[i + 1:]
            if be and oe:
                out.append(ast.copy_location(ast.If(test=st.test, body=b or [ast.Pass()], orelse=o), st))
                return out, True
            r, re_ = _single_exit(rest, target)
            if be:
                out.append(ast.copy_location(ast.If(test=st.test, body=b or [ast.Pass()], orelse=o + r), st))
            elif oe:
                out.append(ast.copy_location(ast.If(test=st.test, body=(b + r) or [ast.Pass()], orelse=o), st))
            else:
                out.append(st)
                out.extend(r)
            return out, re_
        out.append(st)
    return out, False


def _renumber(fn):
    """Statements spliced into a function keep the line numbers of the helper they came from.  Rules order statements by line,
    so after splicing every statement of the function gets a fresh number in document order (the line it is reported at is kept
    in `orig_lineno`)."""
    counter = [fn.lineno]

    def stamp(node, n):
        for y in ast.walk(node):
            if hasattr(y, "lineno"):
                if not hasattr(y, "orig_lineno"):
                    y.orig_lineno = y.lineno
                y.lineno = n
                y.end_lineno = n

    def go(stmts):
        last = counter[0]
        for st in stmts:
            counter[0] += 1
            n = counter[0]
            subs = []
            for fld in ("body", "orelse", "finalbody"):
                sub = getattr(st, fld, None)
                if isinstance(sub, list) and sub and isinstance(sub[0], ast.stmt):
                    subs.append(sub)
            for h in getattr(st, "handlers", []) or []:
                subs.append(h.body)
            if subs:
                # header expressions
                for fld, val in ast.iter_fields(st):
                    if fld in ("body", "orelse", "finalbody", "handlers"):
                        continue
                    for v_ in (val if isinstance(val, list) else [val]):
                        if isinstance(v_, ast.AST):
                            stamp(v_, n)
                if not hasattr(st, "orig_lineno"):
                    st.orig_lineno = st.lineno
                st.lineno = n
                for h in getattr(st, "handlers", []) or []:
                    if not hasattr(h, "orig_lineno"):
                        h.orig_lineno = h.lineno
                    counter[0] += 1
                    h.lineno = counter[0]
                    if h.type is not None:
                        stamp(h.type, counter[0])
                    h.end_lineno = go(h.body)
                for sub in subs:
                    if not any(sub is h.body for h in getattr(st, "handlers", []) or []):
                        go(sub)
                st.end_lineno = counter[0]
            else:
                stamp(st, n)
            last = counter[0]
        return last
    go(fn.body)


def inline_new_helpers(tree, modname):
    if os.environ.get("PDSA_NO_ALPHA") or os.environ.get("PDSA_NO_UNEXTRACT"):
        return {}
    ref = _ref()
    if not ref:
        return {}
    funcs = functions_of(tree, modname)
    helpers = {}  # (class qualname or None, name) -> node
    cls_of = {}
    for cq, cnode in classes_of(tree, modname):
        for st in cnode.body:
            if isinstance(st, (ast.FunctionDef,)):
                cls_of[id(st)] = (cq, cnode)
    for q, fn in funcs:
        if isinstance(fn, ast.AsyncFunctionDef) or ".<locals>." in q:
            continue
        nm = fn.name
        if (nm.startswith("__") and nm.endswith("__")) or q in ref:
            continue
        if not _helper_ok(fn):
            continue
        owner = cls_of.get(id(fn))
        helpers[(owner[0] if owner else None, nm)] = (fn, owner)
    applied = {}
    counter = [0]
    # new read-only properties that only name an expression over the object's attributes are read through
    classes = classes_of(tree, modname)
    by_name = {cq.rsplit(".", 1)[-1]: (cq, cn) for cq, cn in classes}

    def _family(cnode):
        """the class and the classes of this module that derive from it"""
        out = [cnode]
        grew = True
        while grew:
            grew = False
            for _, cn in classes:
                if cn not in out and any(isinstance(b, ast.Name) and by_name.get(b.id, (None, None))[1] in out for b in cn.bases):
                    out.append(cn)
                    grew = True
        return out
    import copy as _copy
    for cq, cnode in classes:
        for st in list(cnode.body):
            if not isinstance(st, ast.FunctionDef) or [ast.unparse(d) for d in st.decorator_list] != ["property"]:
                continue
            if (cq + "." + st.name) in ref or len(st.args.args) != 1:
                continue
            body = [b for j, b in enumerate(st.body) if not (j == 0 and isinstance(b, ast.Expr) and isinstance(b.value, ast.Constant) and isinstance(b.value.value, str))]
            if len(body) != 1 or not isinstance(body[0], ast.Return) or body[0].value is None or not _pure_expr(body[0].value):
                continue
            pself = st.args.args[0].arg
            if any(isinstance(x, ast.Attribute) and x.attr == st.name for x in ast.walk(body[0].value)):
                continue
            # a setter / deleter of the same name makes it more than a name for the expression
            if any(isinstance(o, ast.FunctionDef) and o is not st and o.name == st.name for o in cnode.body):
                continue
            for cn in _family(cnode):
                for m in cn.body:
                    if not isinstance(m, ast.FunctionDef) or m is st or not m.args.args or any(ast.unparse(d) in ("staticmethod", "classmethod") for d in m.decorator_list):
                        continue
                    mself = m.args.args[0].arg

                    class P(ast.NodeTransformer):
                        def visit_Attribute(self, node):
                            self.generic_visit(node)
                            if isinstance(node.ctx, ast.Load) and node.attr == st.name and isinstance(node.value, ast.Name) and node.value.id == mself:
                                e = _copy.deepcopy(body[0].value)
                                for x in ast.walk(e):
                                    if isinstance(x, ast.Name) and x.id == pself:
                                        x.id = mself
                                applied.setdefault(cq + "." + m.name, []).append(st.name)
                                return ast.copy_location(e, node)
                            return node
                    P().visit(m)
    # the constructor of a new base class of this module is read through at super().__init__(...)
    for cq, cnode in classes:
        if not is_new_module_name(modname, cnode.name):
            continue
        for st in cnode.body:
            if isinstance(st, ast.FunctionDef) and st.name == "__init__" and _helper_ok(st):
                helpers[(cq, "super().__init__")] = (st, (cq, cnode))
    if not helpers:
        if applied:
            ast.fix_missing_locations(tree)
        return applied
    cnode_of = {cq: cn for cq, cn in classes}

    def _is_helper_call(val, owner_q, self_name):
        if not isinstance(val, ast.Call):
            return False
        if isinstance(val.func, ast.Name):
            return (None, val.func.id) in helpers
        if isinstance(val.func, ast.Attribute) and isinstance(val.func.value, ast.Name) and owner_q is not None:
            if val.func.value.id == self_name or val.func.value.id == owner_q.rsplit(".", 1)[-1]:
                return (owner_q, val.func.attr) in helpers
        return False

    def hoist(caller, owner_q, self_name):
        """a helper call that is the first thing a statement evaluates, but not the statement's whole value (the iterable of a
        comprehension, a leading argument of a call), is given a name of its own first, so that it can be spliced"""
        for blk in _blocks(caller):
            i = 0
            while i < len(blk):
                st = blk[i]
                i += 1
                if not isinstance(st, (ast.Assign, ast.Return, ast.Expr)) or st.value is None:
                    continue
                val = st.value
                slot = None
                if isinstance(val, (ast.ListComp, ast.SetComp, ast.GeneratorExp)) and _is_helper_call(val.generators[0].iter, owner_q, self_name):
                    slot = (val.generators[0], "iter")
                elif isinstance(val, ast.Call) and not _is_helper_call(val, owner_q, self_name) and _simple_arg(val.func):
                    for j, a in enumerate(val.args):
                        if _is_helper_call(a, owner_q, self_name):
                            slot = (val.args, j)
                            break
                        if not _simple_arg(a):
                            break
                if slot is None:
                    continue
                counter[0] += 1
                names_ = {x.id for x in ast.walk(caller) if isinstance(x, ast.Name)}
                tmp = "_hoisted_%d" % counter[0]
                while tmp in names_:
                    tmp += "_"
                holder, key = slot
                call = holder[key] if isinstance(holder, list) else getattr(holder, key)
                new_st = ast.copy_location(ast.Assign(targets=[ast.Name(id=tmp, ctx=ast.Store())], value=call), st)
                ref_ = ast.copy_location(ast.Name(id=tmp, ctx=ast.Load()), call)
                if isinstance(holder, list):
                    holder[key] = ref_
                else:
                    setattr(holder, key, ref_)
                blk.insert(i - 1, new_st)
                i += 1

    def splice(caller_q, caller, owner_q, self_name):
        hoist(caller, owner_q, self_name)
        changed = True
        rounds = 0
        while changed and rounds < 6:
            changed = False
            rounds += 1
            names_in_caller = {x.id for x in ast.walk(caller) if isinstance(x, ast.Name)} | {a.arg for a in ast.walk(caller.args) if isinstance(a, ast.arg)}
            for blk in _blocks(caller):
                for i, st in enumerate(blk):
                    if not isinstance(st, (ast.Assign, ast.AugAssign, ast.AnnAssign, ast.Return, ast.Expr)):
                        continue
                    # the call must be evaluated first in the statement: the statement's value itself
                    val = st.value
                    if not isinstance(val, ast.Call):
                        continue
                    key = None
                    if isinstance(val.func, ast.Name):
                        key = (None, val.func.id)
                    elif isinstance(val.func, ast.Attribute) and isinstance(val.func.value, ast.Name) and owner_q is not None:
                        if val.func.value.id == self_name or val.func.value.id == owner_q.rsplit(".", 1)[-1]:
                            key = (owner_q, val.func.attr)
                    via_super = False
                    if (isinstance(val.func, ast.Attribute) and val.func.attr == "__init__" and isinstance(val.func.value, ast.Call)
                            and isinstance(val.func.value.func, ast.Name) and val.func.value.func.id == "super" and not val.func.value.args
                            and owner_q in cnode_of and len(cnode_of[owner_q].bases) == 1 and isinstance(cnode_of[owner_q].bases[0], ast.Name)
                            and cnode_of[owner_q].bases[0].id in by_name and caller.name == "__init__"):
                        key = (by_name[cnode_of[owner_q].bases[0].id][0], "super().__init__")
                        via_super = True
                    if key not in helpers:
                        continue
                    hfn, howner = helpers[key]
                    if hfn is caller or any(isinstance(a, ast.Starred) for a in val.args) or any(k.arg is None for k in val.keywords):
                        continue
                    static = any(ast.unparse(d) == "staticmethod" for d in hfn.decorator_list)
                    params = [a.arg for a in hfn.args.args] + [a.arg for a in hfn.args.kwonlyargs]
                    bind = {}
                    pos = list(params)
                    if howner is not None and not static:
                        if not pos or not isinstance(val.func, ast.Attribute) or not (via_super or val.func.value.id == self_name) or self_name is None:
                            continue
                        bind[pos.pop(0)] = ast.Name(id=self_name, ctx=ast.Load())
                    if len(val.args) > len(pos):
                        continue
                    for p_, a_ in zip(pos, val.args):
                        bind[p_] = a_
                    okk = True
                    for k in val.keywords:
                        if k.arg not in params or k.arg in bind:
                            okk = False
                        bind[k.arg] = k.value
                    if not okk:
                        continue
                    # defaults
                    dpos = hfn.args.args[len(hfn.args.args) - len(hfn.args.defaults):] if hfn.args.defaults else []
                    for a_, d_ in zip(dpos, hfn.args.defaults):
                        bind.setdefault(a_.arg, d_)
                    for a_, d_ in zip(hfn.args.kwonlyargs, hfn.args.kw_defaults):
                        if d_ is not None:
                            bind.setdefault(a_.arg, d_)
                    if set(params) - set(bind):
                        continue
                    counter[0] += 1
                    pre = []
                    mapping = {}
                    stored_params = {x.id for x in ast.walk(hfn) if isinstance(x, ast.Name) and isinstance(x.ctx, ast.Store)} & set(params)
                    tgt_name = st.targets[0].id if (isinstance(st, ast.Assign) and len(st.targets) == 1 and isinstance(st.targets[0], ast.Name)) else None
                    for p_ in params:
                        a_ = bind[p_]
                        if _simple_arg(a_) and p_ not in stored_params:
                            mapping[p_] = a_
                        elif isinstance(a_, ast.Name) and a_.id == tgt_name and sum(1 for q_ in params if isinstance(bind[q_], ast.Name) and bind[q_].id == tgt_name) == 1:
                            # x = helper(..., x, ...): the helper may re-bind its copy of x - the caller's x is overwritten by the result anyway
                            mapping[p_] = a_
                        else:
                            tmp = "_%s_%d" % (p_, counter[0]) if (p_ in names_in_caller) else p_
                            pre.append(ast.Assign(targets=[ast.Name(id=tmp, ctx=ast.Store())], value=a_))
                            mapping[p_] = ast.Name(id=tmp, ctx=ast.Load())
                            names_in_caller.add(tmp)
                    body = [s for j, s in enumerate(hfn.body) if not (j == 0 and isinstance(s, ast.Expr) and isinstance(s.value, ast.Constant) and isinstance(s.value.value, str))]
                    import copy
                    body = copy.deepcopy(body)
                    hlocals = {x.id for s in body for x in ast.walk(s) if isinstance(x, ast.Name) and isinstance(x.ctx, ast.Store)} - set(params)
                    lmap = {}
                    # a helper local named like the variable the call's result is assigned to may keep its name: the variable is
                    # overwritten by this statement anyway (unless the call's arguments read it)
                    own_targets = set()
                    if isinstance(st, ast.Assign) and len(st.targets) == 1:
                        tnames = [st.targets[0]] if isinstance(st.targets[0], ast.Name) else (
                            list(st.targets[0].elts) if isinstance(st.targets[0], ast.Tuple) and all(isinstance(e_, ast.Name) for e_ in st.targets[0].elts) else [])
                        argnames = {x.id for a_ in list(val.args) + [k.value for k in val.keywords] for x in ast.walk(a_) if isinstance(x, ast.Name)}
                        own_targets = {t_.id for t_ in tnames if t_.id not in argnames}
                    for l_ in hlocals:
                        lmap[l_] = l_ if (l_ not in names_in_caller or l_ in own_targets) else "%s_h%d" % (l_, counter[0])
                        names_in_caller.add(lmap[l_])

                    class Sub(ast.NodeTransformer):
                        def visit_Name(self, node):
                            if node.id in mapping and isinstance(node.ctx, ast.Load):
                                return copy.deepcopy(mapping[node.id])
                            if node.id in mapping and isinstance(mapping[node.id], ast.Name):
                                return ast.Name(id=mapping[node.id].id, ctx=node.ctx)
                            if node.id in lmap:
                                return ast.Name(id=lmap[node.id], ctx=node.ctx)
                            return node
                    body = [Sub().visit(s) for s in body]
                    ret = None
                    nested = any(isinstance(x, ast.Return) for s_ in body[:-1] for x in ast.walk(s_)) or (body and not isinstance(body[-1], ast.Return) and _has_return(body))
                    if nested:
                        # early returns: the helper body in single-exit form, assigning the call statement's own target
                        if isinstance(st, ast.Return):
                            new_stmts = pre + body  # `return helper(...)`: the helper's returns are the caller's
                        elif isinstance(st, ast.Expr):
                            conv, _ = _single_exit(body, None)
                            new_stmts = pre + conv
                        elif isinstance(st, ast.Assign) and len(st.targets) == 1 and (isinstance(st.targets[0], ast.Name) or (
                                isinstance(st.targets[0], ast.Tuple) and all(isinstance(e_, ast.Name) for e_ in st.targets[0].elts))):
                            conv, exits = _single_exit(body, st.targets[0])
                            if not exits:
                                conv.append(ast.Assign(targets=[copy.deepcopy(st.targets[0])], value=ast.Constant(value=None)))
                            new_stmts = pre + conv
                        else:
                            continue
                    else:
                        if body and isinstance(body[-1], ast.Return):
                            ret = body[-1].value
                            body = body[:-1]
                        new_stmts = pre + body
                        if isinstance(st, ast.Expr):
                            pass  # a bare call: nothing remains of the statement
                        else:
                            st.value = ret if ret is not None else ast.Constant(value=None)
                            new_stmts.append(st)
                    for s_ in new_stmts:
                        if s_ is st:
                            continue
                        # spliced statements are reported at the call they replace
                        for y_ in ast.walk(s_):
                            if hasattr(y_, "lineno"):
                                y_.orig_lineno = getattr(st, "orig_lineno", st.lineno)
                        ast.copy_location(s_, st)
                    blk[i:i + 1] = new_stmts
                    applied.setdefault(caller_q, []).append(hfn.name)
                    changed = True
                    break
                if changed:
                    break

    for q, fn in funcs:
        if isinstance(fn, ast.AsyncFunctionDef):
            continue
        owner = cls_of.get(id(fn))
        self_name = None
        if owner is not None and fn.args.args and not any(ast.unparse(d) == "staticmethod" for d in fn.decorator_list):
            self_name = fn.args.args[0].arg
        before = len(applied.get(q, []))
        splice(q, fn, owner[0] if owner else None, self_name)
        if len(applied.get(q, [])) > before:
            _ConstFold().visit(fn)  # literal arguments bound to the helper's flags: `if True:` / `if False:` fold away
            _renumber(fn)
    if applied:
        ast.fix_missing_locations(tree)
    return applied
