"""Alpha-normalisation of local variable names.

Renaming a local variable of a function to a fresh name never changes what the function computes.
Several rules locate constructs through the names the pinned source gives its locals; to keep
such rules from losing their anchors when a local is merely renamed, every function is compared
with a reference table (`alpha_ref.json`: for each function, each local's *binding signature* -
the text of the statement that first binds it with all locals blanked, plus its ordinal among
equal signatures).  A reference name that no longer occurs in the function is given back to the
(unique) new local with the same signature.  Whatever the match, the result is alpha-equivalent
to the source that was read, so no verdict can change because of it; only the rules' ability to
find their anchors does.  The renames applied are recorded and shown with the findings.
"""

import ast
import json
import os

REF_PATH = os.path.join(os.path.dirname(os.path.abspath(__file__)), "alpha_ref.json")
_REF = None


def _ref():
    global _REF
    if _REF is None:
        try:
            with open(REF_PATH) as fh:
                _REF = json.load(fh)
        except (OSError, ValueError):
            _REF = {}
    return _REF


def functions_of(tree, modname):
    """(qualname, node) for every function, with the qualnames the program model uses"""
    out = []

    def walk(body, prefix, in_func):
        for st in body:
            if isinstance(st, (ast.FunctionDef, ast.AsyncFunctionDef)):
                q = prefix + (".<locals>." if in_func else ".") + st.name
                out.append((q, st))
                walk(st.body, q, True)
            elif isinstance(st, ast.ClassDef):
                q = prefix + (".<locals>." if in_func else ".") + st.name
                walk(st.body, q, False)
            else:
                for fld in ("body", "orelse", "finalbody"):
                    sub = getattr(st, fld, None)
                    if isinstance(sub, list) and sub and isinstance(sub[0], ast.stmt):
                        walk(sub, prefix, in_func)
                for h in getattr(st, "handlers", []) or []:
                    walk(h.body, prefix, in_func)
    walk(tree.body, modname, False)
    return out


def _own_nodes(fn):
    """nodes of the function body, not descending into nested function / class definitions"""
    stack = list(fn.body)
    while stack:
        n = stack.pop()
        yield n
        for c in ast.iter_child_nodes(n):
            if isinstance(c, (ast.FunctionDef, ast.AsyncFunctionDef, ast.ClassDef, ast.Lambda)):
                continue
            stack.append(c)


def params_of(fn):
    a = fn.args
    names = [x.arg for x in a.posonlyargs + a.args + a.kwonlyargs]
    if a.vararg:
        names.append(a.vararg.arg)
    if a.kwarg:
        names.append(a.kwarg.arg)
    return set(names)


def locals_of(fn):
    out = set()
    skip = set()
    for n in _own_nodes(fn):
        if isinstance(n, (ast.Global, ast.Nonlocal)):
            skip.update(n.names)
        elif isinstance(n, ast.Name) and isinstance(n.ctx, ast.Store):
            out.add(n.id)
    # comprehension targets are treated like locals: renaming one consistently is just as harmless
    return out - params_of(fn) - skip


def _stored_outside_comprehensions(fn):
    out = set()
    comp_nodes = set()
    for n in _own_nodes(fn):
        if isinstance(n, (ast.ListComp, ast.SetComp, ast.DictComp, ast.GeneratorExp)):
            for x in ast.walk(n):
                comp_nodes.add(id(x))
    for n in _own_nodes(fn):
        if isinstance(n, ast.Name) and isinstance(n.ctx, ast.Store) and id(n) not in comp_nodes:
            out.add(n.id)
    return out


class _Blank(ast.NodeTransformer):
    def __init__(self, names):
        self.names = names

    def visit_Name(self, node):
        if node.id in self.names:
            return ast.copy_location(ast.Name(id="_", ctx=node.ctx), node)
        return node

    def visit_FunctionDef(self, node):
        return ast.copy_location(ast.Pass(), node)

    visit_AsyncFunctionDef = visit_FunctionDef
    visit_ClassDef = visit_FunctionDef


def _header(st):
    """the binding part of a statement as text (bodies of compound statements left out)"""
    import copy
    st = copy.deepcopy(st)
    for fld in ("body", "orelse", "finalbody"):
        if isinstance(getattr(st, fld, None), list) and getattr(st, fld) and isinstance(getattr(st, fld)[0], ast.stmt):
            setattr(st, fld, [ast.Pass()] if fld == "body" else [])
    if hasattr(st, "handlers"):
        st.handlers = []
    return st


def signatures(fn):
    """{local: [signature text, ordinal]} in order of first binding"""
    loc = locals_of(fn)
    order = []  # (lineno, col, name, stmt)
    parents = {}
    for n in _own_nodes(fn):
        for c in ast.iter_child_nodes(n):
            parents[id(c)] = n
    for n in _own_nodes(fn):
        if isinstance(n, ast.Name) and isinstance(n.ctx, ast.Store) and n.id in loc:
            cur = n
            while cur is not None and not isinstance(cur, ast.stmt):
                cur = parents.get(id(cur))
            if cur is None:
                continue
            order.append((n.lineno, n.col_offset, n.id, cur))
    order.sort(key=lambda t: (t[0], t[1]))
    first = {}
    for ln, col, name, st in order:
        if name not in first:
            first[name] = st
    out = {}
    counts = {}
    for ln, col, name, st in order:
        if name in out or first[name] is not st:
            continue
        try:
            txt = ast.unparse(_Blank(loc).visit(_header(st)))
        except Exception:
            txt = type(st).__name__
        txt = " ".join(txt.split())
        # position of this name among the names the statement binds
        bound = [x.id for x in ast.walk(st) if isinstance(x, ast.Name) and isinstance(x.ctx, ast.Store) and x.id in loc]
        pos = bound.index(name) if name in bound else 0
        key = "%s #%d" % (txt, pos)
        k = counts.get(key, 0)
        counts[key] = k + 1
        out[name] = [key, k]
    return out


class _Rename(ast.NodeTransformer):
    def __init__(self, mapping):
        self.mapping = mapping

    def visit_Name(self, node):
        if node.id in self.mapping:
            node.id = self.mapping[node.id]
        return node


def normalise(tree, modname):
    """Rename locals back to their reference names where the reference name has vanished; returns {qualname: {new: ref}}."""
    if os.environ.get("PDSA_NO_ALPHA"):
        return {}
    ref = _ref()
    applied = {}
    for q, fn in functions_of(tree, modname):
        r = ref.get(q)
        if not r:
            continue
        now = signatures(fn)
        present = {x.id for x in ast.walk(fn) if isinstance(x, ast.Name)} | {a.arg for a in ast.walk(fn) if isinstance(a, ast.arg)}
        missing = [m for m in r if m not in present]
        if not missing:
            continue
        extra = [v for v in now if v not in r]
        by_sig = {}
        for v in extra:
            by_sig.setdefault(tuple(now[v]), []).append(v)
        mapping = {}
        for m in missing:
            cands = by_sig.get(tuple(r[m]), [])
            if len(cands) == 1 and cands[0] not in mapping:
                mapping[cands[0]] = m
        if mapping:
            _Rename(mapping).visit(fn)
            applied[q] = mapping
    return applied


class _IfNormal(ast.NodeTransformer):
    """`if not c: A else: B`  ->  `if c: B else: A`  (only for a plain else, not an elif chain): one spelling per two-way
    branch, so that rules written against the pinned source also read the mirrored spelling"""

    def visit_If(self, node):
        self.generic_visit(node)
        t = node.test
        if isinstance(t, ast.UnaryOp) and isinstance(t.op, ast.Not) and node.orelse:
            node.test = t.operand
            node.body, node.orelse = node.orelse, node.body
        return node


def normalise_shape(tree):
    if os.environ.get("PDSA_NO_ALPHA"):
        return tree
    return _IfNormal().visit(tree)


def build_reference(repo_pkg_dir, pkg="pydrobert.speech"):
    table = {}
    for fnm in sorted(os.listdir(repo_pkg_dir)):
        if not fnm.endswith(".py"):
            continue
        base = fnm[:-3]
        modname = pkg if base == "__init__" else pkg + "." + base
        with open(os.path.join(repo_pkg_dir, fnm)) as fh:
            tree = normalise_shape(ast.parse(fh.read()))
        for q, fn in functions_of(tree, modname):
            s = signatures(fn)
            if s:
                table[q] = s
    return table


if __name__ == "__main__":
    import sys
    pkg_dir = sys.argv[1] if len(sys.argv) > 1 else "/repo/src/pydrobert/speech"
    t = build_reference(pkg_dir)
    with open(REF_PATH, "w") as fh:
        json.dump(t, fh, indent=0, sort_keys=True)
    print("alpha_ref.json: %d functions, %d locals" % (len(t), sum(len(v) for v in t.values())))
