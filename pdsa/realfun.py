"""Exact reasoning about real functions of one variable built from Moebius maps,
log / exp / powers of two and piecewise definitions with rational break-points
(CF-1 of DESIGN §1.3).  All arithmetic is exact (fractions); only the published-
value anchors use 60-digit decimals."""

from fractions import Fraction

from . import sym as S
from .model import AnalysisError

INF = None  # open end


def simplify_explog(e):
    """exp(log u) = u, log(exp u) = u, 2**log2(u) = u, log2(2**u) = u - where the
    argument is recognised up to rational normal form."""
    if e.op in ("const", "sym", "unknown"):
        return e
    args = [simplify_explog(a) if isinstance(a, S.E) else a for a in e.args]
    e = S.rebuild(e.op, args)
    inv = {"log": "exp", "exp": "log", "log2": "exp2", "exp2": "log2"}
    if e.op == "pow" and S.is_num(e.args[0]) and e.args[0].value == 2:
        e = S.call("exp2", e.args[1])
    if e.op == "call" and e.args[0] in inv and len(e.args) == 2:
        arg = e.args[1]
        want = inv[e.args[0]]
        cands = []
        for x in S.walk(arg):
            if x.op == "call" and x.args[0] == want and len(x.args) == 2:
                cands.append(x)
            if want == "exp2" and x.op == "pow" and S.is_num(x.args[0]) and x.args[0].value == 2:
                cands.append(x)
        try:
            ra = S.ratfunc(arg).cancel_monomial()
        except S.Inconclusive:
            ra = None
        for c in cands:
            try:
                if ra is not None and ra.equals(S.ratfunc(c)):
                    return c.args[1]
            except S.Inconclusive:
                pass
    return e


def norm_pow2(e):
    """represent 2**u uniformly as exp2(u)"""
    if e.op in ("const", "sym", "unknown"):
        return e
    args = [norm_pow2(a) if isinstance(a, S.E) else a for a in e.args]
    e = S.rebuild(e.op, args)
    if e.op == "pow" and S.is_num(e.args[0]) and e.args[0].value == 2:
        return S.call("exp2", e.args[1])
    return e


def mobius(e, x):
    """(a, b, c, d) as Poly (in parameters) with e == (a x + b)/(c x + d), or None."""
    try:
        r = S.ratfunc(e)
    except S.Inconclusive:
        return None
    if r.num.degree_in(x) > 1 or r.den.degree_in(x) > 1:
        r2 = _reduce_univariate(r, x)
        if r2 is None:
            return None
        nc, dc = r2
        if len(nc) > 2 or len(dc) > 2:
            return None
        P = S.Poly
        return (P.const(nc[1] if len(nc) > 1 else 0), P.const(nc[0] if nc else 0),
                P.const(dc[1] if len(dc) > 1 else 0), P.const(dc[0] if dc else 0))
    # every other atom must not contain x
    for a in set(r.num.atoms()) | set(r.den.atoms()):
        if a != x and _mentions(a, x):
            return None
    return (r.num.coeff_of(x, 1), r.num.coeff_of(x, 0), r.den.coeff_of(x, 1), r.den.coeff_of(x, 0))


def _coeffs(p, x):
    """coefficient list (ascending) of a univariate polynomial with numeric coefficients, else None"""
    if any(a != x for a in p.atoms()):
        return None
    out = [Fraction(0)] * (p.degree_in(x) + 1)
    for k, v in p.t.items():
        out[dict(k).get(x, 0)] += v
    return out


def _trim(c):
    while c and c[-1] == 0:
        c = c[:-1]
    return c


def _divmod(a, b):
    a, b = _trim(list(a)), _trim(list(b))
    q = [Fraction(0)] * max(1, len(a) - len(b) + 1)
    while len(a) >= len(b) and a:
        k = len(a) - len(b)
        f = a[-1] / b[-1]
        q[k] = f
        for i, bv in enumerate(b):
            a[i + k] -= f * bv
        a = _trim(a)
    return _trim(q), a


def _gcd(a, b):
    a, b = _trim(list(a)), _trim(list(b))
    while b:
        _, r = _divmod(a, b)
        a, b = b, r
    return [v / a[-1] for v in a] if a else a


def _reduce_univariate(r, x):
    nc, dc = _coeffs(r.num, x), _coeffs(r.den, x)
    if nc is None or dc is None:
        return None
    g = _gcd(nc, dc)
    if not g or len(g) == 1:
        return _trim(nc), _trim(dc)
    qn, rn = _divmod(nc, g)
    qd, rd = _divmod(dc, g)
    if rn or rd:
        return None
    return qn, qd


def _mentions(atom_key, x):
    import re

    return re.search(r"(?<![A-Za-z0-9_.])%s(?![A-Za-z0-9_])" % re.escape(x), atom_key) is not None


def _num(p):
    """Poly -> Fraction if constant else None"""
    return p.const_value() if p.is_const() else None


def mobius_numeric(e, x):
    m = mobius(e, x)
    if m is None:
        return None
    vals = [_num(p) for p in m]
    if any(v is None for v in vals):
        return None
    return tuple(vals)


def eval_mobius(m, x0):
    a, b, c, d = m
    den = c * x0 + d
    if den == 0:
        raise AnalysisError("evaluation at a pole")
    return (a * x0 + b) / den


def solve_mobius(m, k):
    """x with m(x) == k, or None when there is none"""
    a, b, c, d = m
    den = a - k * c
    if den == 0:
        return None
    return (k * d - b) / den


class Interval:
    def __init__(self, lo, hi, lo_open=False, hi_open=False):
        self.lo, self.hi, self.lo_open, self.hi_open = lo, hi, lo_open, hi_open

    def intersect(self, o):
        lo, lo_open = self.lo, self.lo_open
        if o.lo is not None and (lo is None or o.lo > lo or (o.lo == lo and o.lo_open)):
            lo, lo_open = o.lo, o.lo_open
        hi, hi_open = self.hi, self.hi_open
        if o.hi is not None and (hi is None or o.hi < hi or (o.hi == hi and o.hi_open)):
            hi, hi_open = o.hi, o.hi_open
        return Interval(lo, hi, lo_open, hi_open)

    def nonempty_interior(self):
        if self.lo is None or self.hi is None:
            return True
        return self.lo < self.hi

    def contains(self, v):
        if self.lo is not None and (v < self.lo or (v == self.lo and self.lo_open)):
            return False
        if self.hi is not None and (v > self.hi or (v == self.hi and self.hi_open)):
            return False
        return True

    def __repr__(self):
        return "%s%s, %s%s" % ("(" if self.lo_open else "[", self.lo, self.hi, ")" if self.hi_open else "]")


def pole_outside(m, iv):
    a, b, c, d = m
    if c == 0:
        return d != 0
    pole = -d / c
    return not iv.contains(pole) and not ((iv.lo is not None and pole == iv.lo) or (iv.hi is not None and pole == iv.hi))


def mobius_direction(m):
    a, b, c, d = m
    det = a * d - b * c
    return (det > 0) - (det < 0)


def test_interval(test, x, dom):
    """The subset of dom on which a comparison test holds, as an Interval, when the
    compared quantity is a Moebius function of x that is monotone on dom."""
    if test.op == "and":
        # plain comparisons first; disjunctions are then resolved inside what the comparisons leave
        iv = dom
        flat = []
        for a in test.args:
            flat.extend(a.args if a.op == "and" else [a])
        simple = [a for a in flat if a.op == "cmp" or (a.op == "not" and a.args[0].op == "cmp")]
        rest = [a for a in flat if a not in simple]
        for a in simple + rest:
            if not iv.nonempty_interior():
                return iv
            if a.is_const:
                if not S.truthy(a):
                    return Interval(0, 0, True, True)
                continue
            iv = iv.intersect(test_interval(a, x, iv))
        return iv
    if test.op == "not":
        inner = test.args[0]
        if inner.op == "and":
            return test_interval(S.E("or", *[S.enot(a) for a in inner.args]), x, dom)
        if inner.op == "or":
            return test_interval(S.E("and", *[S.enot(a) for a in inner.args]), x, dom)
        if inner.op == "cmp":
            return test_interval(S.enot(inner), x, dom)
        raise AnalysisError("negated test outside the fragment: %s" % S.show(test))
    if test.op == "or":
        # complement of the conjunction of the negations; only single-interval results are supported
        neg = dom
        for a in test.args:
            neg = neg.intersect(test_interval(S.enot(a), x, dom))
        if not neg.nonempty_interior():
            return dom
        if neg.lo == dom.lo:
            return dom.intersect(Interval(neg.hi, None, not neg.hi_open, False))
        if neg.hi == dom.hi:
            return dom.intersect(Interval(None, neg.lo, False, not neg.lo_open))
        raise AnalysisError("disjunctive test with a two-sided complement: %s" % S.show(test))
    if test.op != "cmp" or test.args[0] not in ("<", "<=", ">", ">="):
        raise AnalysisError("test outside the fragment: %s" % S.show(test))
    op, lhs, rhs = test.args
    if not S.is_num(rhs):
        if S.is_num(lhs):
            flip = {"<": ">", "<=": ">=", ">": "<", ">=": "<="}
            op, lhs, rhs = flip[op], rhs, lhs
        else:
            raise AnalysisError("comparison without a constant side: %s" % S.show(test))
    m = mobius_numeric(lhs, x)
    if m is None:
        raise AnalysisError("tested quantity is not a Moebius function of %s: %s" % (x, S.show(lhs)))
    if not pole_outside(m, dom):
        raise AnalysisError("tested quantity has a pole inside the domain: %s" % S.show(lhs))
    k = rhs.value
    direction = mobius_direction(m)
    if direction == 0:
        # constant on the domain
        v = eval_mobius(m, dom.lo if dom.lo is not None else Fraction(0))
        holds = {"<": v < k, "<=": v <= k, ">": v > k, ">=": v >= k}[op]
        return dom if holds else Interval(Fraction(0), Fraction(0), True, True)
    x0 = solve_mobius(m, k)
    if x0 is None:
        v = eval_mobius(m, dom.lo if dom.lo is not None else Fraction(0))
        holds = {"<": v < k, "<=": v <= k, ">": v > k, ">=": v >= k}[op]
        return dom if holds else Interval(Fraction(0), Fraction(0), True, True)
    # the solution may lie on the other branch of the hyperbola (beyond the pole): then the comparison has one truth value on dom
    a_, b_, c_, d_ = m
    if c_ != 0:
        pole = -Fraction(d_) / Fraction(c_)
        ref = dom.lo if dom.lo is not None else (dom.hi if dom.hi is not None else Fraction(0))
        if dom.lo is not None and dom.hi is not None:
            ref = (dom.lo + dom.hi) / 2
        elif dom.lo is not None:
            ref = dom.lo + 1
        elif dom.hi is not None:
            ref = dom.hi - 1
        if (x0 < pole) != (ref < pole):
            v = eval_mobius(m, ref)
            holds = {"<": v < k, "<=": v <= k, ">": v > k, ">=": v >= k}[op]
            return dom if holds else Interval(Fraction(0), Fraction(0), True, True)
    less = op in ("<", "<=")
    strict = op in ("<", ">")
    if (direction > 0) == less:
        return dom.intersect(Interval(None, x0, False, strict))
    return dom.intersect(Interval(x0, None, strict, False))


def pieces(e, x, dom, alternatives):
    """Feasible alternatives of a conditional expression: [(Interval, leaf)], sorted."""
    out = []
    for tests, leaf in alternatives(e):
        # the branch's path condition as one conjunction (plain comparisons narrow first, see test_interval)
        conj = [t if lbl == "T" else S.enot(t) for lbl, t in tests]
        iv = test_interval(S.E("and", *conj), x, dom) if conj else dom
        if iv.nonempty_interior():
            out.append((iv, leaf))
    out.sort(key=lambda p: (p[0].lo is not None, p[0].lo if p[0].lo is not None else 0))
    return out


def monotone(e, x, iv, pos=()):
    """+1 / -1 if e is strictly monotone in x on iv by a structural argument, else None."""
    if not any(s.op == "sym" and s.args[0] == x for s in S.walk(e)):
        return 0
    if e.op == "sym":
        return 1
    mn = mobius_numeric(e, x)
    if mn is not None:
        if not pole_outside(mn, iv):
            return None
        d = mobius_direction(mn)
        return d if d != 0 else 0
    m = mobius(e, x)
    if m is not None:
        # symbolic coefficients: affine case with a positive / negative slope
        a, b, c, d = m
        if c.is_zero() and d.is_const() and d.const_value() != 0:
            sgn = _poly_sign(a, pos)
            if sgn is not None:
                return sgn * (1 if d.const_value() > 0 else -1)
        if c.is_zero():
            sa, sd = _poly_sign(a, pos), _poly_sign(d, pos)
            if sa is not None and sd is not None and sd != 0:
                return sa * sd
        return None
    if e.op == "neg":
        r = monotone(e.args[0], x, iv, pos)
        return None if r is None else -r
    if e.op == "add":
        a, b = monotone(e.args[0], x, iv, pos), monotone(e.args[1], x, iv, pos)
        if a is None or b is None:
            return None
        if a == 0:
            return b
        if b == 0 or a == b:
            return a
        return None
    if e.op in ("mul", "truediv"):
        a, b = e.args
        ma, mb = monotone(a, x, iv, pos), monotone(b, x, iv, pos)
        if mb == 0:
            sb = _sign(b, pos)
            if sb is None or ma is None:
                return None
            return ma * sb
        if ma == 0 and e.op == "mul":
            sa = _sign(a, pos)
            if sa is None or mb is None:
                return None
            return mb * sa
        return None
    if e.op == "call" and e.args[0] in ("log", "log2", "log10", "exp", "exp2", "sqrt") and len(e.args) == 2:
        return monotone(e.args[1], x, iv, pos)
    if e.op == "pow" and S.is_num(e.args[0]) and e.args[0].value > 1:
        return monotone(e.args[1], x, iv, pos)
    return None


def _sign(e, pos):
    if S.is_num(e):
        return (e.value > 0) - (e.value < 0)
    if S.positive(e, pos=pos):
        return 1
    if e.op == "neg" and S.positive(e.args[0], pos=pos):
        return -1
    return None


def _poly_sign(p, pos):
    """sign of a polynomial all of whose monomials are products of positive atoms"""
    if p.is_zero():
        return 0
    signs = set()
    for k, v in p.t.items():
        for a, _ in k:
            if a not in pos and not a.startswith("max("):
                return None
        signs.add(v > 0)
    if len(signs) == 1:
        return 1 if signs.pop() else -1
    return None


def eval_exact(e, x, x0):
    return S.evaluate(e, {x: x0})
