"""Rule self-test (thorough tier).

For each property a set of *mutants* of the current tree is analysed in a scratch
copy outside /repo and /verif (removed immediately afterwards):

* un-fix mutants  - each repaired defect re-introduced (reverse of the fix commit's
                    diff, kept under pdsa/selftest/unfix/);
* seeded mutants  - the independently authored breaking changes kept under
                    /verif/seeded/<id>/patch.diff;
* edit mutants    - small source edits computed on the current text (exact, unique
                    fragments; an edit whose anchor text is no longer present is
                    skipped and counted as not applicable);
* preserving edits - behaviour-preserving rewrites of the same constructs on which
                    the rules must stay silent.

A rule must fire on its mutants (naming the expected rule) and be silent on the
preserving edits; otherwise the thorough run reports the machinery as broken
(ANALYSIS-ERROR, exit 2) - never a violation.
"""

import glob
import importlib
import json
import os
import shutil
import subprocess
import tempfile

from . import REPO, PKG_REL, VERIF
from . import report
from .model import AnalysisError, Program

UNFIX = {
    # fix commit -> (property, expected rule prefix)
    "bb64a30": [("C20", "R-C20-none-default")],
    "afc0ba2": [("C09", "R-C09-pipeline")],
    "c78b172": [("C09", "R-C09-attrs")],
    "61a44fd": [("C10", "R-C10-durable-ack")],
    "66d62e0": [("C10", "R-C10-seed-identity")],
    "18fbfdc": [("C12", "R-C12-frame-aligned-reads")],
    "15d35ad": [("C12", "R-C12-no-uninitialised")],
    "df2915f": [("C13", "R-C13-nep50")],
    "5bd5cfe": [("C14", "R-C14-columns")],
    "77a8d9d": [("C02", "R-C02-walk"), ("C14", "R-C14-mirror-twin")],
    "32802d6": [("C14", "R-C14-mirror-twin")],
    "49e5b35": [("C03", "R-C03-dtype-in")],
    "d44587a": [("C17", "R-C17-npz-typestate")],
    "6487c08": [("C17", "R-C17-reader-accepts-writer")],
    "4a81ef3": [("C05", "R-C05-constants")],
    "c5b528e": [("C05", "R-C05-constants")],
    "b5dea8d": [("C05", "R-C05-range")],
    "b7714e5": [("C07", "R-C07-support-frame")],
    "4fe22b9": [("C01", "R-C01-short-signal")],
    "eb5740a": [("C01", "R-C01-reflection-depth")],
}

# edit mutants: (property, name, file, old, new, expected rule prefix)  - `old` must occur exactly once
EDITS = [
    ("C01", "driver keeps one sample twice", "compute.py", "        signal = signal[chunk_size:]\n    coeffs.append(computer.finalize())",
     "        signal = signal[chunk_size - 1:]\n    coeffs.append(computer.finalize())", "R-C01-driver"),
    ("C01", "finalize pads by reflection without the edge", "compute.py", 'self._buf[frame_length - hist_len :], (pad_left, pad_right), "symmetric"',
     'self._buf[frame_length - hist_len :], (pad_left, pad_right), "reflect"', "R-C01-geom-siblings"),
    ("C01", "finalize reflects the pending samples only", "compute.py", "            hist_len = max(self._hist_len, buf_len)\n",
     "            hist_len = buf_len\n", "R-C01-reflection-depth"),
    ("C01", "short first utterance still framed by finalize", "compute.py", "        elif buf_len < frame_length // 2 + 1:\n",
     "        elif buf_len < frame_length // 2:\n", "R-C01-short-signal"),
    ("C07", "gammatone frequency response: wrong sign of the shift phase", "filters.py", "        numer = np.exp(-1j * omega * offset) * c * math.factorial(n - 1)",
     "        numer = np.exp(1j * omega * offset) * c * math.factorial(n - 1)", "R-C07-gammatone-pair"),
    ("C07", "triangular impulse: edge terms swapped", "filters.py", "                numer -= (right - mid) / div_term * np.exp(1j * left * t)\n                numer -= (mid - left) / div_term * np.exp(1j * right * t)",
     "                numer -= (mid - left) / div_term * np.exp(1j * left * t)\n                numer -= (right - mid) / div_term * np.exp(1j * right * t)", "R-C07-triangle-pair"),
    ("C03", "energy impulse one sample late", "compute.py", "            dirac_filter[self._translation] = 1", "            dirac_filter[self._translation + 1] = 1", "R-C03-energy-impulse"),
    ("C03", "power as the square of a complex number", "compute.py", "                y_valid[:] = y_valid * y_valid.conj()", "                y_valid[:] = y_valid * y_valid", "R-C03-power"),
    ("C02", "default window from the bank's phase", "compute.py", '            if frame_style == "causal":\n                window_function = GammaWindow()\n            else:\n                window_function = HannWindow()\n        else:\n            window_function = alias_factory_subclass_from_arg(\n                WindowFunction, window_function\n            )\n        self._window = window_function.get_impulse_response(self._frame_length)',
     '            if not bank.is_zero_phase:\n                window_function = GammaWindow()\n            else:\n                window_function = HannWindow()\n        else:\n            window_function = alias_factory_subclass_from_arg(\n                WindowFunction, window_function\n            )\n        self._window = window_function.get_impulse_response(self._frame_length)', "R-C02-default-window"),
    ("C10", "seed offsets from the salted hash", "command_line.py", "    utt2offset = dict((utt_id, idx) for (idx, utt_id) in enumerate(utt2path))",
     "    utt2offset = dict((utt_id, hash(utt_id) % 1000003) for utt_id in utt2path)", "R-C10-seed-process-independent"),
    ("C11", "suffix pattern without end anchor", "util.py", '    elif rfilename.endswith(".wav"):\n        force_as = "wav"',
     '    elif match(r"^.*\\.(wav)", rfilename):\n        force_as = match(r"^.*\\.(wav)", rfilename).group(1)', "R-C11-dispatch-tables"),
    ("C17", "entries merged by double-star unpacking", "post.py", "            array[key] = self._stats\n            if compress:\n                np.savez_compressed(wfilename, **array)\n            else:\n                np.savez(wfilename, **array)",
     "            if compress:\n                np.savez_compressed(wfilename, **array, **{key: self._stats})\n            else:\n                np.savez(wfilename, **array, **{key: self._stats})", "R-C17-entry-replaces"),
    ("C07", "gammatone support end shifted twice", "filters.py", "        return (int(np.floor(offset)), int(np.ceil(right) + offset))",
     "        return (int(np.floor(offset)), int(np.ceil(right) + 2 * offset))", "R-C07-support-frame"),
    ("C15", "stack: feature axis coefficient-major", "post.py", "                feat_slice[time_axis] = slice(i, T, self.num_vectors)",
     "                feat_slice[time_axis] = slice(i * nT, (i + 1) * nT)", "R-C15-stack-layout"),
    ("C15", "stack 2-D: transpose decided by the raw attribute", "post.py", "            if time_axis:\n                features = features.T\n            features = features[:T]",
     "            if self.time_axis:\n                features = features.T\n            features = features[:T]", "R-C15-stack-layout"),
    ("C02", "log without floor", "compute.py", "val = np.log(max(val, config.LOG_FLOOR_VALUE))", "val = np.log(val)", "R-C02-logfloor"),
    ("C02", "energy from the windowed frame", "compute.py", "coeffs[0] = np.inner(frame, frame) / self._frame_length",
     "coeffs[0] = np.inner(frame * self._window, frame * self._window) / self._frame_length", "R-C02-energy"),
    ("C02", "frame count floors instead of rounding", "compute.py", "num_frames = max(0, (len(signal) + frame_shift // 2) // frame_shift)",
     "num_frames = max(0, len(signal) // frame_shift)", "R-C02-geom"),
    ("C03", "result buffer in float64", "compute.py", "coeffs = np.empty((num_frames, self.num_coeffs), dtype=self._ret_dtype)\n        cur_frame",
     "coeffs = np.empty((num_frames, self.num_coeffs), dtype=np.float64)\n        cur_frame", "R-C03-dtype-out"),
    ("C04", "finalize forgets the first-frame flag", "compute.py", "        self._started = False\n        self._first_frame = True\n        return coeffs",
     "        self._started = False\n        return coeffs", "R-C04-reset"),
    ("C04", "window applied in place", "compute.py", "            half_spect = np.fft.rfft(frame * self._window, n=self._dft_size)",
     "            frame *= self._window\n            half_spect = np.fft.rfft(frame, n=self._dft_size)", "R-C04-readonly-input"),
    ("C05", "one vertex too few", "filters.py", "        scale_delta = (scale_high - scale_low) / (num_filts + 1)\n        self._vertices = tuple(\n            scaling_function.scale_to_hertz(scale_low + scale_delta * idx)\n            for idx in range(0, num_filts + 2)\n        )\n        self._analytic = analytic\n\n    @property\n    def is_real(self) -> bool:\n        return not self._analytic\n\n    @property\n    def is_analytic(self) -> bool:\n        return self._analytic\n\n    @property\n    def is_zero_phase(self) -> bool:\n        return True\n\n    @property\n    def num_filts(self) -> int:\n        return len(self._vertices) - 2\n\n    @property\n    def sampling_rate(self) -> float:\n        return self._rate\n\n    @property\n    def centers_hz(self) -> Tuple[float, ...]:\n        \"\"\"The point",
     "        scale_delta = (scale_high - scale_low) / (num_filts + 2)\n        self._vertices = tuple(\n            scaling_function.scale_to_hertz(scale_low + scale_delta * idx)\n            for idx in range(0, num_filts + 2)\n        )\n        self._analytic = analytic\n\n    @property\n    def is_real(self) -> bool:\n        return not self._analytic\n\n    @property\n    def is_analytic(self) -> bool:\n        return self._analytic\n\n    @property\n    def is_zero_phase(self) -> bool:\n        return True\n\n    @property\n    def num_filts(self) -> int:\n        return len(self._vertices) - 2\n\n    @property\n    def sampling_rate(self) -> float:\n        return self._rate\n\n    @property\n    def centers_hz(self) -> Tuple[float, ...]:\n        \"\"\"The point", "R-C05-spacing"),
    ("C06", "half length off for odd widths", "filters.py", "        res = np.zeros(dft_size, dtype=np.complex128)\n        omega = np.arange(dft_size",
     "        dft_size = width // 2 + (width % 2 == 0) if half else width\n        res = np.zeros(dft_size, dtype=np.complex128)\n        omega = np.arange(dft_size", "R-C06-halflen"),
    ("C07", "real triangular impulse response allocated complex", "filters.py", "res = np.zeros(width, dtype=np.complex128 if self._analytic else np.float64)",
     "res = np.zeros(width, dtype=np.complex128)", "R-C07-realness"),
    ("C08", "Stack takes the alias of Deltas", "post.py", 'aliases = {"stack"}  #:', 'aliases = {"stack", "deltas"}  #:', "R-C08-registry"),
    ("C08", "mapping popped without a copy", "alias.py", "        arg = dict(arg)\n", "", "R-C08-dispatch"),
    ("C09", "empty utterances silently skipped", "command_line.py", "        feats = computer.compute_full(buff)\n",
     "        feats = computer.compute_full(buff)\n        if not len(feats):\n            continue\n", "R-C09-exclusions"),
    ("C09", "pre-processors applied in reverse", "command_line.py", "        for preprocessor in preprocessors:\n            buff = preprocessor.apply(buff, in_place=True)",
     "        for preprocessor in reversed(preprocessors):\n            buff = preprocessor.apply(buff, in_place=True)", "R-C09-pipeline"),
    ("C10", "manifest line before the save", "command_line.py", "        utt_id, feat = utt_ids[0], feats[0]\n        torch.save(",
     "        utt_id, feat = utt_ids[0], feats[0]\n        if options.manifest is not None:\n            print(utt_id, file=options.manifest, flush=True)\n        torch.save(", "R-C10-save-before-ack"),
    ("C10", "loader shuffles", "command_line.py", "loader = torch.utils.data.DataLoader(dataset, num_workers=options.num_workers)",
     "loader = torch.utils.data.DataLoader(dataset, num_workers=options.num_workers, shuffle=True)", "R-C10-order"),
    ("C11", "stream without force_as tolerated", "util.py", "        if force_as is None:\n            raise ValueError(\"cannot infer type from IO stream. Set force_as\")\n", "", "R-C11-stream-guards"),
    ("C12", "one G.711 entry changed", "_sphere.py", "        -32124,\n        -31100,", "        -32124,\n        -31101,", "R-C12-g711"),
    ("C12", "byte order inverted", "_sphere.py", 'in_type.newbyteorder(">" if (inporder == "10") else "<")', 'in_type.newbyteorder("<" if (inporder == "10") else ">")', "R-C12-shape-order"),
    ("C13", "ZERO command dropped from the dispatch", "_sphere.py", "if cmd in {FN_ZERO, FN_DIFF0, FN_DIFF1, FN_DIFF2, FN_DIFF3, FN_QLPC}:",
     "if cmd in {FN_DIFF0, FN_DIFF1, FN_DIFF2, FN_DIFF3, FN_QLPC}:", "R-C13-commands"),
    ("C13", "second-order predictor coefficient", "_sphere.py", "cbuffer[i] = var_get(resn) + 2 * cbuffer[i - 1]", "cbuffer[i] = var_get(resn) + 3 * cbuffer[i - 1]", "R-C13-predictors"),
    ("C14", "use_log / use_power crossed in the factory", "torch.py", "            dft_size,\n            use_log,\n            use_power,\n            include_energy,\n            kaldi_shift,\n            is_real,\n        )\n\n    def forward",
     "            dft_size,\n            use_power,\n            use_log,\n            include_energy,\n            kaldi_shift,\n            is_real,\n        )\n\n    def forward", "R-C14-nameflow"),
    ("C14", "reflect instead of symmetric padding", "torch.py", "[sig[:pad_left].flip(0), sig, sig[sig_len - pad_right :].flip(0)]",
     "[sig[1 : pad_left + 1].flip(0), sig, sig[sig_len - pad_right - 1 : sig_len - 1].flip(0)]", "R-C14-symmetric-pad"),
    ("C15", "delta blocks in float64", "post.py", "delta_feat = np.empty(features.shape, dtype=features.dtype)", "delta_feat = np.empty(features.shape, dtype=np.float64)", "R-C15-dtype"),
    ("C16", "sums overwritten instead of accumulated", "post.py", "        self._stats[0, :-1] += vec.astype(np.float64)", "        self._stats[0, :-1] = vec.astype(np.float64)", "R-C16-additive"),
    ("C17", "save without statistics tolerated", "post.py", "        if not self.have_stats:\n            raise ValueError(\"No stats have been accumulated to save\")\n", "", "R-C17-save-guard"),
    ("C18", "dither without the float64 copy", "pre.py", "        if not in_place or signal.dtype != np.float64:\n            signal = signal.astype(np.float64)\n        if axis is None or",
     "        if signal.dtype != np.float64:\n            signal = signal.astype(np.float64)\n        if axis is None or", "R-C18-readonly"),
    ("C19", "Bark inverse uses the forward constant", "scales.py", "(26.28 - bark)", "(26.81 - bark)", "R-C19/BarkScaling"),
    ("C19", "mel constant", "scales.py", "return 700.0 * (np.exp(scale / 1127.0) - 1.0)", "return 700.0 * (np.exp(scale / 1125.0) - 1.0)", "R-C19/MelScaling"),
    ("C20", "Hamming DC coefficient", "filters.py", "window /= 0.54 * max(1, width - 1)", "window /= 0.53 * max(1, width - 1)", "R-C20-windows"),
    ("C20", "Odeh-Evans coefficient", "util.py", "0.342242088547", "0.342242088574", "R-C20-gauss"),
]

# behaviour-preserving edits: the property's rules must stay silent
PRESERVING = [
    ("C02", "pad_left rewritten", "compute.py", "            pad_left = (self._frame_length + 1) // 2 - 1\n        # total_len", "            pad_left = (self._frame_length - 1) // 2\n        # total_len"),
    ("C01", "finalize pad_left rewritten", "compute.py", "            pad_left = (frame_length + 1) // 2 - 1\n        num_frames = buf_len", "            pad_left = (frame_length - 1) // 2\n        num_frames = buf_len"),
    ("C14", "torch pad_left rewritten", "torch.py", "        pad_left = (frame_length + 1) // 2 - 1\n    num_frames", "        pad_left = (frame_length - 1) // 2\n    num_frames"),
    ("C19", "mel division as multiplication", "scales.py", "return 1127.0 * np.log(1 + hertz / 700.0)", "return 1127.0 * np.log((700.0 + hertz) / 700.0)"),
    ("C20", "Bartlett divisor rewritten", "filters.py", "window /= max(1, width - 1) / 2", "window /= 0.5 * max(1, width - 1)"),
    ("C12", "read size rewritten", "_sphere.py", "buf_size = max(1, buf_size // (chancount * sampsize)) * chancount * sampsize",
     "frame_size = sampsize * chancount\n    buf_size = frame_size * max(1, buf_size // frame_size)"),
    ("C05", "gammatone l2 constant regrouped", "filters.py", "                log_c = (order - 0.5) * (log_2 + log_alpha)\n                log_c -= 0.5 * log_double_factorial",
     "                log_c = 0.5 * ((2 * order - 1) * (log_2 + log_alpha) - log_double_factorial)"),
    ("C13", "DIFF3 regrouped", "_sphere.py", "                    cbuffer[i] = var_get(resn)\n                    cbuffer[i] += 3 * (cbuffer[i - 1] - cbuffer[i - 2])\n                    cbuffer[i] += cbuffer[i - 3]",
     "                    cbuffer[i] = var_get(resn) + 3 * cbuffer[i - 1] - 3 * cbuffer[i - 2] + cbuffer[i - 3]"),
    ("C10", "flush as a separate call", "command_line.py", "            print(utt_id, file=options.manifest, flush=True)",
     "            print(utt_id, file=options.manifest)\n            options.manifest.flush()"),
    ("C09", "renamed loop variable", "command_line.py", "        for preprocessor in preprocessors:\n            buff = preprocessor.apply(buff, in_place=True)",
     "        for pre_op in preprocessors:\n            buff = pre_op.apply(buff, in_place=True)"),
]


def _scratch_base():
    for d in ("/dev/shm", None):
        if d is None or os.path.isdir(d):
            return d


def _copy_tree(dst):
    os.makedirs(os.path.join(dst, "src", "pydrobert"), exist_ok=True)
    shutil.copytree(os.path.join(REPO, PKG_REL), os.path.join(dst, PKG_REL))


def _analyse(prop, root):
    prog = Program(root)
    ctx = report.Ctx(prop, "quick", prog, 0)
    mod = importlib.import_module("pdsa.rules.%s" % prop.lower())
    try:
        mod.run(ctx)
    except AnalysisError as e:
        ctx.error("analysis", str(e))
    except Exception as e:  # a crash of a rule on a mutant is recorded, never a kill
        ctx.error("internal", repr(e))
    ctx.postprocess()
    return ctx


def _apply_patch(root, path, reverse=False):
    cmd = ["patch", "-p1", "-s", "--no-backup-if-mismatch", "-f"]
    if reverse:
        cmd.append("-R")
    with open(path, "rb") as fh:
        r = subprocess.run(cmd, cwd=root, stdin=fh, stdout=subprocess.PIPE, stderr=subprocess.STDOUT)
    return r.returncode == 0


def _job(spec):
    """one variant of the tree, analysed in a scratch copy: spec = (prop, group, name, how, expect)"""
    prop, group, name, how, expect = spec
    base = tempfile.mkdtemp(prefix="pdsa-selftest-", dir=_scratch_base())
    root = os.path.join(base, "t")
    try:
        _copy_tree(root)
        if how[0] in ("patch", "rpatch"):
            if not os.path.exists(how[1]) or not _apply_patch(root, how[1], reverse=(how[0] == "rpatch")):
                return {"group": group, "name": name, "na": "patch no longer applies to the current tree"}
        else:
            _, fn, old, new = how
            path = os.path.join(root, PKG_REL, fn)
            with open(path) as fh:
                src = fh.read()
            if src.count(old) != 1:
                return {"group": group, "name": name, "na": "anchor text occurs %d times" % src.count(old)}
            with open(path, "w") as fh:
                fh.write(src.replace(old, new))
        c = _analyse(prop, root)
        rules = sorted({f.rule for f in c.findings})
        return {"group": group, "name": name, "expect": expect, "rules": rules, "errors": [e["message"][:160] for e in c.errors][:3]}
    finally:
        shutil.rmtree(base, ignore_errors=True)


def selftest(ctx, prop):
    specs = []
    for commit, pairs in UNFIX.items():
        for p, expect in pairs:
            if p == prop:
                specs.append((prop, "unfix", "un-fix of %s" % commit, ("rpatch", os.path.join(VERIF, "pdsa", "selftest", "unfix", commit + ".diff")), expect))
    for meta_path in sorted(glob.glob(os.path.join(VERIF, "seeded", "*", "meta.json"))):
        try:
            with open(meta_path) as fh:
                meta = json.load(fh)
        except (OSError, ValueError):
            continue
        det = meta.get("detected_by", {})
        if prop in det:
            d = os.path.dirname(meta_path)
            specs.append((prop, "seeded", "seeded %s" % os.path.basename(d), ("patch", os.path.join(d, "patch.diff")), det[prop]))
    for p, name, fn, old, new, expect in EDITS:
        if p == prop:
            specs.append((prop, "edit", name, ("edit", fn, old, new), expect))
    for p, name, fn, old, new in PRESERVING:
        if p == prop:
            specs.append((prop, "preserving", name, ("edit", fn, old, new), None))
    # behaviour-preserving refactorings (benign/<name>/patch.diff, each with an equivalence harness): no violation may be
    # reported on them; "cannot decide" (analysis error) is an acceptable answer on a module that was re-written
    for pp in sorted(glob.glob(os.path.join(VERIF, "benign", "*", "patch.diff"))):
        specs.append((prop, "refactoring", os.path.basename(os.path.dirname(pp)), ("patch", pp), None))
    from concurrent.futures import ProcessPoolExecutor
    workers = max(1, min(12, (os.cpu_count() or 2) - 2))
    try:
        with ProcessPoolExecutor(workers) as ex:
            out = list(ex.map(_job, specs, chunksize=1))
    except Exception:  # no process pool available: same work in this process
        out = [_job(sp) for sp in specs]
    res = {"mutants": [], "preserving": [], "not_applicable": [], "refactorings": []}
    for r in out:
        if "na" in r:
            res["not_applicable"].append("%s %s (%s)" % (r["group"], r["name"], r["na"]))
        elif r["group"] in ("unfix", "seeded", "edit"):
            exp = r["expect"]
            killed = any(x.startswith(exp) for x in r["rules"]) if exp else bool(r["rules"])
            res["mutants"].append({"name": r["name"], "kind": r["group"], "expected_rule": exp, "killed": killed, "rules_fired": r["rules"],
                                   "analysis_errors": r["errors"]})
        elif r["group"] == "preserving":
            res["preserving"].append({"name": r["name"], "silent": not r["rules"] and not r["errors"], "rules_fired": r["rules"], "errors": r["errors"][:2]})
        else:
            res["refactorings"].append({"name": r["name"], "silent": not r["rules"], "undecided": bool(r["errors"]), "rules_fired": r["rules"]})
    survivors = [m for m in res["mutants"] if not m["killed"]]
    noisy = [m for m in res["preserving"] if not m["silent"]]
    ctx.info["selftest"] = {
        "mutants_total": len(res["mutants"]), "mutants_killed": len(res["mutants"]) - len(survivors),
        "preserving_total": len(res["preserving"]), "preserving_silent": len(res["preserving"]) - len(noisy),
        "refactorings_total": len(res["refactorings"]), "refactorings_without_violation": sum(1 for r in res["refactorings"] if r["silent"]),
        "refactorings_undecided": sum(1 for r in res["refactorings"] if r["silent"] and r["undecided"]),
        "not_applicable": res["not_applicable"], "mutants": res["mutants"], "preserving": res["preserving"], "refactorings": res["refactorings"],
    }
    for m in survivors:
        ctx.error("selftest", "rule %s did not fire on mutant '%s' (fired: %s)" % (m["expected_rule"], m["name"], m["rules_fired"]))
    for m in noisy:
        ctx.error("selftest", "rules fired on the behaviour-preserving edit '%s': %s %s" % (m["name"], m["rules_fired"], m["errors"]))
    for r in res["refactorings"]:
        if not r["silent"]:
            ctx.error("selftest", "rules fired on the behaviour-preserving refactoring '%s': %s" % (r["name"], r["rules_fired"]))
