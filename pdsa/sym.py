"""Symbolic expressions and their exact normal forms (the CF domain of DESIGN §1.3).

* ``E``        - immutable expression trees with constant folding.
* ``ratfunc``  - numerator/denominator polynomials (Fraction coefficients) over
                 canonical atoms; decides equality of rational / log-linear forms.
* ``qa_compare`` - quasi-affine integer forms (``+ - *const //const %const``, parity
                 conditionals) compared through their residue tables on one period
                 box; complete for that fragment.
* ``compare``  - ratfunc equality, then quasi-affine equality, else an exact-arithmetic
                 *witness search*: a difference is only ever reported together with a
                 concrete valuation of the symbols at which the two forms differ.
"""

import decimal
import itertools
import math
from fractions import Fraction

D = decimal.Decimal
_CTX = decimal.Context(prec=60)
decimal.getcontext().prec = 60  # unary minus / abs / + on Decimals use the thread context


class Inconclusive(Exception):
    pass


class E:
    __slots__ = ("op", "args", "_h")

    def __init__(self, op, *args):
        self.op = op
        self.args = tuple(args)
        self._h = None

    def __eq__(self, o):
        return isinstance(o, E) and self.op == o.op and self.args == o.args

    def __hash__(self):
        if self._h is None:
            self._h = hash((self.op, self.args))
        return self._h

    def __repr__(self):
        return show(self)

    # python operator sugar for writing spec tables
    def __add__(self, o):
        return add(self, lift(o))

    def __radd__(self, o):
        return add(lift(o), self)

    def __sub__(self, o):
        return sub(self, lift(o))

    def __rsub__(self, o):
        return sub(lift(o), self)

    def __mul__(self, o):
        return mul(self, lift(o))

    def __rmul__(self, o):
        return mul(lift(o), self)

    def __truediv__(self, o):
        return truediv(self, lift(o))

    def __rtruediv__(self, o):
        return truediv(lift(o), self)

    def __floordiv__(self, o):
        return floordiv(self, lift(o))

    def __mod__(self, o):
        return mod(self, lift(o))

    def __neg__(self):
        return neg(self)

    def __pow__(self, o):
        return power(self, lift(o))

    @property
    def is_const(self):
        return self.op == "const"

    @property
    def value(self):
        return self.args[0]


def lift(x):
    if isinstance(x, E):
        return x
    if isinstance(x, bool) or x is None or isinstance(x, str):
        return E("const", x)
    if isinstance(x, int):
        return E("const", Fraction(x))
    if isinstance(x, Fraction):
        return E("const", x)
    if isinstance(x, float):
        return E("const", Fraction(repr(x)))
    raise TypeError("cannot lift %r" % (x,))


def const(x):
    return lift(x)


def sym(name):
    return E("sym", name)


def call(name, *args):
    return E("call", name, *[lift(a) for a in args])


def unknown(tag):
    return E("unknown", tag)


ZERO = lift(0)
ONE = lift(1)
TRUE = lift(True)
FALSE = lift(False)
NONE = lift(None)
PI = sym("pi")


def is_num(e):
    return e.op == "const" and isinstance(e.value, Fraction)


def is_bool(e):
    return e.op == "const" and isinstance(e.value, bool)


def _numval(e):
    v = e.value
    if isinstance(v, bool):
        return Fraction(int(v))
    return v


def _numlike(e):
    return e.op == "const" and isinstance(e.value, (Fraction, bool))


def add(a, b):
    if _numlike(a) and _numlike(b):
        return lift(_numval(a) + _numval(b))
    if _numlike(a) and _numval(a) == 0:
        return b
    if _numlike(b) and _numval(b) == 0:
        return a
    return E("add", a, b)


def neg(a):
    if _numlike(a):
        return lift(-_numval(a))
    if a.op == "neg":
        return a.args[0]
    return E("neg", a)


def sub(a, b):
    return add(a, neg(b))


def mul(a, b):
    if _numlike(a) and _numlike(b):
        return lift(_numval(a) * _numval(b))
    if _numlike(a):
        if _numval(a) == 0:
            return ZERO
        if _numval(a) == 1:
            return b
    if _numlike(b):
        if _numval(b) == 0:
            return ZERO
        if _numval(b) == 1:
            return a
    return E("mul", a, b)


def truediv(a, b):
    if _numlike(a) and _numlike(b) and _numval(b) != 0:
        return lift(_numval(a) / _numval(b))
    if _numlike(b) and _numval(b) == 1:
        return a
    return E("truediv", a, b)


def floordiv(a, b):
    if _numlike(a) and _numlike(b) and _numval(b) != 0:
        return lift(Fraction(math.floor(_numval(a) / _numval(b))))
    return E("floordiv", a, b)


def mod(a, b):
    if _numlike(a) and _numlike(b) and _numval(b) != 0:
        q = math.floor(_numval(a) / _numval(b))
        return lift(_numval(a) - q * _numval(b))
    return E("mod", a, b)


def power(a, b):
    if _numlike(a) and _numlike(b):
        bv = _numval(b)
        av = _numval(a)
        if bv.denominator == 1 and abs(bv) <= 64 and not (av == 0 and bv < 0):
            return lift(av ** int(bv))
    if _numlike(b) and _numval(b) == 1:
        return a
    if _numlike(b) and _numval(b) == 0:
        return ONE
    return E("pow", a, b)


def emax(*args):
    args = [lift(a) for a in args]
    if all(_numlike(a) for a in args):
        return lift(max(_numval(a) for a in args))
    flat = []
    for a in args:
        if a.op == "max":
            flat.extend(a.args)
        else:
            flat.append(a)
    return E("max", *flat)


def emin(*args):
    args = [lift(a) for a in args]
    if all(_numlike(a) for a in args):
        return lift(min(_numval(a) for a in args))
    flat = []
    for a in args:
        if a.op == "min":
            flat.extend(a.args)
        else:
            flat.append(a)
    return E("min", *flat)


_CMP = {
    "==": lambda a, b: a == b,
    "!=": lambda a, b: a != b,
    "<": lambda a, b: a < b,
    "<=": lambda a, b: a <= b,
    ">": lambda a, b: a > b,
    ">=": lambda a, b: a >= b,
}


def cmp(op, a, b):
    a, b = lift(a), lift(b)
    if op in (">", ">="):
        # one spelling per ordering comparison: a > b is b < a
        return cmp("<" if op == ">" else "<=", b, a)
    if op in ("is", "is not"):
        if a.is_const and b.is_const:
            same = (a.value is None) == (b.value is None) and a.value == b.value
            return lift(same if op == "is" else not same)
        # a value that is not a constant compared with None: unknown
        return E("cmp", op, a, b)
    if op in ("in", "not in"):
        if a.is_const and b.is_const and isinstance(a.value, str) and isinstance(b.value, str):
            return lift((a.value in b.value) == (op == "in"))
        return E("cmp", op, a, b)
    if a.is_const and b.is_const:
        av, bv = a.value, b.value
        try:
            if isinstance(av, (Fraction, bool)) and isinstance(bv, (Fraction, bool)):
                return lift(_CMP[op](_numval(a), _numval(b)))
            if type(av) is type(bv):
                return lift(_CMP[op](av, bv))
            if op == "==":
                return FALSE
            if op == "!=":
                return TRUE
        except TypeError:
            pass
    if op in ("==", "<=", ">=") and a == b:
        return TRUE
    if op in ("!=", "<", ">") and a == b:
        return FALSE
    sa, sb = _inf_sign(a), _inf_sign(b)
    if (sa or sb) and not (sa and sb) and op in _CMP:
        # an infinite bound against a finite quantity
        big, small = (sa or 0), (sb or 0)
        return lift(_CMP[op](big, small))
    return E("cmp", op, a, b)


def _inf_sign(e):
    if e.op == "sym" and e.args[0] in ("numpy.inf", "math.inf", "np.inf", "inf"):
        return 1
    if e.op == "neg" and _inf_sign(e.args[0]) == 1:
        return -1
    return 0


def enot(a):
    if a.is_const:
        return lift(not truthy(a))
    if a.op == "not":
        return E("bool", a.args[0]) if a.args[0].op not in ("cmp", "not", "and", "or", "bool") else a.args[0]
    if a.op == "cmp":
        inv = {"==": "!=", "!=": "==", "<": ">=", ">=": "<", ">": "<=", "<=": ">",
               "is": "is not", "is not": "is", "in": "not in", "not in": "in"}
        return cmp(inv[a.args[0]], a.args[1], a.args[2])
    return E("not", a)


def truthy(c):
    v = c.value
    if isinstance(v, Fraction):
        return v != 0
    return bool(v)


def eand(*args):
    """Boolean conjunction (used for tests; value semantics of ``and`` are not kept)."""
    out = []
    for a in args:
        a = lift(a)
        if a.is_const:
            if not truthy(a):
                return FALSE
            continue
        if a not in out:
            out.append(a)
    if not out:
        return TRUE
    if len(out) == 1:
        return out[0]
    return E("and", *out)


def eor(*args):
    out = []
    for a in args:
        a = lift(a)
        if a.is_const:
            if truthy(a):
                return TRUE
            continue
        if a not in out:
            out.append(a)
    if not out:
        return FALSE
    if len(out) == 1:
        return out[0]
    return E("or", *out)


def cond(t, a, b):
    t = lift(t)
    if t.is_const:
        return a if truthy(t) else b
    if a == b:
        return a
    # (0 if not x else x) and (x if x else 0) are x for a number x
    if t.op == "not" and a == ZERO and (t.args[0] == b or (t.args[0].op == "bool" and t.args[0].args[0] == b)):
        return b
    if b == ZERO and (t == a or (t.op == "bool" and t.args[0] == a)):
        return a
    if t.op == "cmp" and t.args[0] == "==" and t.args[2] == ZERO and a == ZERO and t.args[1] == b:
        return b
    return E("cond", t, a, b)


# --------------------------------------------------------------------- printing
def _fr(v):
    if isinstance(v, Fraction):
        return str(v.numerator) if v.denominator == 1 else "%d/%d" % (v.numerator, v.denominator)
    return repr(v)


def show(e):
    op = e.op
    if op == "const":
        return _fr(e.value)
    if op == "sym":
        return e.args[0]
    if op == "unknown":
        return "?%s" % (e.args[0],)
    if op == "add":
        return "(%s + %s)" % (show(e.args[0]), show(e.args[1]))
    if op == "neg":
        return "-%s" % show(e.args[0])
    if op == "mul":
        return "(%s * %s)" % (show(e.args[0]), show(e.args[1]))
    if op == "truediv":
        return "(%s / %s)" % (show(e.args[0]), show(e.args[1]))
    if op == "floordiv":
        return "(%s // %s)" % (show(e.args[0]), show(e.args[1]))
    if op == "mod":
        return "(%s %% %s)" % (show(e.args[0]), show(e.args[1]))
    if op == "pow":
        return "(%s ** %s)" % (show(e.args[0]), show(e.args[1]))
    if op in ("max", "min", "and", "or"):
        return "%s(%s)" % (op, ", ".join(show(a) for a in e.args))
    if op in ("not", "bool"):
        return "%s(%s)" % (op, show(e.args[0]))
    if op == "cmp":
        return "(%s %s %s)" % (show(e.args[1]), e.args[0], show(e.args[2]))
    if op == "cond":
        return "(%s if %s else %s)" % (show(e.args[1]), show(e.args[0]), show(e.args[2]))
    if op == "call":
        return "%s(%s)" % (e.args[0], ", ".join(show(a) for a in e.args[1:]))
    return "%s(%s)" % (op, ", ".join(show(a) if isinstance(a, E) else repr(a) for a in e.args))


def walk(e):
    yield e
    for a in e.args:
        if isinstance(a, E):
            yield from walk(a)


def symbols(e):
    return sorted({x.args[0] for x in walk(e) if x.op == "sym"})


def has_unknown(e):
    return any(x.op == "unknown" for x in walk(e))


def subst(e, mapping):
    """Replace symbols (by name) or whole subexpressions (E keys) bottom-up."""
    if e in mapping:
        return mapping[e]
    if e.op == "sym":
        return mapping.get(e.args[0], e)
    if e.op in ("const", "unknown"):
        return e
    args = [subst(a, mapping) if isinstance(a, E) else a for a in e.args]
    return rebuild(e.op, args)


def rebuild(op, args):
    if op == "add":
        return add(*args)
    if op == "neg":
        return neg(*args)
    if op == "mul":
        return mul(*args)
    if op == "truediv":
        return truediv(*args)
    if op == "floordiv":
        return floordiv(*args)
    if op == "mod":
        return mod(*args)
    if op == "pow":
        return power(*args)
    if op == "max":
        return emax(*args)
    if op == "min":
        return emin(*args)
    if op == "cmp":
        return cmp(*args)
    if op == "not":
        return enot(*args)
    if op == "and":
        return eand(*args)
    if op == "or":
        return eor(*args)
    if op == "cond":
        return cond(*args)
    if op == "bool" and len(args) == 1 and isinstance(args[0], E):
        if args[0].is_const:
            return lift(truthy(args[0]))
        if args[0].op in ("cmp", "not", "and", "or", "bool"):
            return args[0]
    return E(op, *args)


# ------------------------------------------------------------------ polynomials
class Poly:
    """Polynomial with Fraction coefficients over string atom keys."""

    __slots__ = ("t",)

    def __init__(self, terms=None):
        self.t = {k: v for k, v in (terms or {}).items() if v != 0}

    @staticmethod
    def const(c):
        return Poly({(): Fraction(c)})

    @staticmethod
    def atom(key):
        return Poly({((key, 1),): Fraction(1)})

    def __add__(self, o):
        t = dict(self.t)
        for k, v in o.t.items():
            t[k] = t.get(k, 0) + v
        return Poly(t)

    def __neg__(self):
        return Poly({k: -v for k, v in self.t.items()})

    def __sub__(self, o):
        return self + (-o)

    def __mul__(self, o):
        t = {}
        for k1, v1 in self.t.items():
            for k2, v2 in o.t.items():
                m = dict(k1)
                for a, p in k2:
                    m[a] = m.get(a, 0) + p
                key = tuple(sorted((a, p) for a, p in m.items() if p))
                t[key] = t.get(key, 0) + v1 * v2
        return Poly(t)

    def __pow__(self, n):
        r = Poly.const(1)
        for _ in range(n):
            r = r * self
        return r

    def is_zero(self):
        return not self.t

    def is_const(self):
        return all(k == () for k in self.t)

    def const_value(self):
        return self.t.get((), Fraction(0))

    def __eq__(self, o):
        return isinstance(o, Poly) and self.t == o.t

    def __hash__(self):
        return hash(tuple(sorted(self.t.items())))

    def atoms(self):
        return sorted({a for k in self.t for a, _ in k})

    def degree_in(self, atom):
        d = 0
        for k in self.t:
            for a, p in k:
                if a == atom:
                    d = max(d, p)
        return d

    def coeff_of(self, atom, power):
        """Coefficient polynomial of atom**power (other atoms kept)."""
        t = {}
        for k, v in self.t.items():
            p = dict(k).get(atom, 0)
            if p == power:
                key = tuple((a, q) for a, q in k if a != atom)
                t[key] = t.get(key, 0) + v
        return Poly(t)

    def show(self):
        if not self.t:
            return "0"
        parts = []
        for k in sorted(self.t):
            c = self.t[k]
            mon = "*".join(a if p == 1 else "%s^%d" % (a, p) for a, p in k)
            if not mon:
                parts.append(_fr(c))
            elif c == 1:
                parts.append(mon)
            else:
                parts.append("%s*%s" % (_fr(c), mon))
        return " + ".join(parts)

    def __repr__(self):
        return "Poly(%s)" % self.show()


class RatFunc:
    __slots__ = ("num", "den")

    def __init__(self, num, den=None):
        self.num = num
        self.den = den if den is not None else Poly.const(1)
        if self.den.is_const() and not self.den.is_zero():
            c = self.den.const_value()
            if c != 1:
                self.num = Poly({k: v / c for k, v in self.num.t.items()})
                self.den = Poly.const(1)

    def __add__(self, o):
        if self.den == o.den:
            return RatFunc(self.num + o.num, self.den)
        return RatFunc(self.num * o.den + o.num * self.den, self.den * o.den)

    def __neg__(self):
        return RatFunc(-self.num, self.den)

    def __mul__(self, o):
        return RatFunc(self.num * o.num, self.den * o.den)

    def inv(self):
        if self.num.is_zero():
            raise Inconclusive("division by zero polynomial")
        return RatFunc(self.den, self.num)

    def equals(self, o):
        return (self.num * o.den - o.num * self.den).is_zero()

    def is_poly(self):
        return self.den.is_const()

    def cancel_monomial(self):
        """Divide numerator and denominator by the denominator when it is a single
        monomial dividing every numerator term."""
        if len(self.den.t) != 1:
            return self
        (dk, dc), = self.den.t.items()
        dd = dict(dk)
        t = {}
        for k, v in self.num.t.items():
            m = dict(k)
            for a, p in dd.items():
                if m.get(a, 0) < p:
                    return self
                m[a] -= p
            key = tuple(sorted((a, p) for a, p in m.items() if p))
            t[key] = t.get(key, 0) + v / dc
        return RatFunc(Poly(t))

    def show(self):
        if self.den.is_const():
            return self.num.show()
        return "(%s) / (%s)" % (self.num.show(), self.den.show())


_POS_ASSUMED = set()  # atom keys assumed positive for log expansion (set by callers)


def canon(e, expand_logs=False):
    """Canonical string of an expression (through its ratfunc normal form)."""
    r = ratfunc(e, expand_logs=expand_logs)
    return r.show()


def _atom_key(e, expand_logs):
    op = e.op
    if op == "sym":
        return e.args[0]
    if op == "unknown":
        return "?%s" % (e.args[0],)
    if op == "const":
        return "<%s>" % _fr(e.value)
    if op in ("floordiv", "mod", "truediv"):
        return "%s(%s, %s)" % (op, canon(e.args[0], expand_logs), canon(e.args[1], expand_logs))
    if op in ("max", "min", "and", "or"):
        return "%s(%s)" % (op, ", ".join(sorted(canon(a, expand_logs) for a in e.args)))
    if op in ("not", "bool"):
        return "%s(%s)" % (op, canon(e.args[0], expand_logs))
    if op == "cmp":
        o, a, b = e.args
        ca, cb = canon(a, expand_logs), canon(b, expand_logs)
        if o in ("==", "!=") and cb < ca:
            ca, cb = cb, ca
        if o in (">", ">="):
            o = {">": "<", ">=": "<="}[o]
            ca, cb = cb, ca
        return "(%s %s %s)" % (ca, o, cb)
    if op == "cond":
        return "cond(%s, %s, %s)" % tuple(canon(a, expand_logs) for a in e.args)
    if op == "pow":
        return "pow(%s, %s)" % (canon(e.args[0], expand_logs), canon(e.args[1], expand_logs))
    if op == "call":
        return "%s(%s)" % (e.args[0], ", ".join(canon(a, expand_logs) for a in e.args[1:]))
    return "%s(%s)" % (op, ", ".join(canon(a, expand_logs) if isinstance(a, E) else repr(a) for a in e.args))


def ratfunc(e, expand_logs=False):
    op = e.op
    if op == "const":
        v = e.value
        if isinstance(v, bool):
            return RatFunc(Poly.const(int(v)))
        if isinstance(v, Fraction):
            return RatFunc(Poly.const(v))
        return RatFunc(Poly.atom(_atom_key(e, expand_logs)))
    if op == "add":
        return ratfunc(e.args[0], expand_logs) + ratfunc(e.args[1], expand_logs)
    if op == "neg":
        return -ratfunc(e.args[0], expand_logs)
    if op == "mul":
        return ratfunc(e.args[0], expand_logs) * ratfunc(e.args[1], expand_logs)
    if op == "truediv":
        return ratfunc(e.args[0], expand_logs) * ratfunc(e.args[1], expand_logs).inv()
    if op == "pow":
        b, x = e.args
        if is_num(x) and x.value.denominator == 1 and abs(x.value) <= 12:
            n = int(x.value)
            rb = ratfunc(b, expand_logs)
            if n >= 0:
                return RatFunc(rb.num ** n, rb.den ** n)
            return RatFunc(rb.den ** (-n), rb.num ** (-n))
        if is_num(x) and x.value == Fraction(1, 2):
            return ratfunc(call("sqrt", b), expand_logs)
        return RatFunc(Poly.atom(_atom_key(e, expand_logs)))
    if op == "call" and expand_logs and e.args[0] == "log" and len(e.args) == 2:
        return _log_expand(e.args[1], expand_logs)
    if op == "call" and expand_logs:
        lf = _logfact_form(e, expand_logs)
        if lf is not None:
            return lf
    if op == "call" and e.args[0] == "sqrt" and len(e.args) == 2:
        # sqrt(c) for rational perfect squares
        a = e.args[1]
        if is_num(a) and a.value >= 0:
            n, d = a.value.numerator, a.value.denominator
            rn, rd = math.isqrt(n), math.isqrt(d)
            if rn * rn == n and rd * rd == d:
                return RatFunc(Poly.const(Fraction(rn, rd)))
    if op == "call" and e.args[0] == "exp" and len(e.args) == 2 and expand_logs:
        a = e.args[1]
        if a.op == "call" and a.args[0] == "log":
            return ratfunc(a.args[1], expand_logs)
    return RatFunc(Poly.atom(_atom_key(e, expand_logs)))


def _logfact_atom(k, expand_logs):
    """log k! as an atom keyed by the canonical form of k (k a non-negative integer by construction)"""
    if is_num(k) and k.value.denominator == 1 and 0 <= k.value <= 1:
        return RatFunc(Poly.const(0))
    return RatFunc(Poly.atom("logfact(%s)" % canon(k, expand_logs)))


def _logfact_form(e, expand_logs):
    """Other spellings of a log-factorial: sum(log(arange(a, b))) = log (b-1)! - log (a-1)!,
    lgamma(k) = log (k-1)!."""
    name = e.args[0]
    if name in (".sum", "np.sum", "sum") and len(e.args) == 2:
        a = e.args[1]
        if a.op == "call" and a.args[0] == "log" and len(a.args) == 2:
            r = a.args[1]
            if r.op == "call" and r.args[0] in ("np.arange", "range") and len(r.args) in (2, 3):
                lo, hi = (r.args[1], r.args[2]) if len(r.args) == 3 else (None, r.args[1])
                if lo is None:
                    return None  # arange(n) starts at 0: log 0
                return _logfact_atom(sub(hi, ONE), expand_logs) + (-_logfact_atom(sub(lo, ONE), expand_logs))
    if isinstance(name, str) and name.split(".")[-1] in ("lgamma", "gammaln") and len(e.args) == 2:
        return _logfact_atom(sub(e.args[1], ONE), expand_logs)
    return None


def _log_expand(x, expand_logs):
    """log of a product / quotient / power of positive factors -> sum of logs.
    Sound only for positive factors; callers use it for quantities that are
    positive by construction (bandwidths, factorials, 2, pi)."""
    if x.op == "mul":
        return _log_expand(x.args[0], expand_logs) + _log_expand(x.args[1], expand_logs)
    if x.op == "truediv":
        return _log_expand(x.args[0], expand_logs) + (-_log_expand(x.args[1], expand_logs))
    if x.op == "pow":
        return ratfunc(x.args[1], expand_logs) * _log_expand(x.args[0], expand_logs)
    if x.op == "call" and x.args[0] == "exp":
        return ratfunc(x.args[1], expand_logs)
    if x.op == "call" and x.args[0] == "sqrt":
        return RatFunc(Poly.const(Fraction(1, 2))) * _log_expand(x.args[1], expand_logs)
    if x.op == "call" and x.args[0] == "factorial" and len(x.args) == 2:
        return _logfact_atom(x.args[1], expand_logs)
    if is_num(x) and x.value > 0:
        v = x.value
        if v == 1:
            return RatFunc(Poly.const(0))
        # factor small rationals into primes so that log 4 == 2 log 2
        out = RatFunc(Poly.const(0))
        for part, sign in ((v.numerator, 1), (v.denominator, -1)):
            n = part
            p = 2
            while n > 1 and p * p <= n and p < 1000:
                k = 0
                while n % p == 0:
                    n //= p
                    k += 1
                if k:
                    out = out + RatFunc(Poly({(("log(%d)" % p, 1),): Fraction(sign * k)}))
                p += 1
            if n > 1:
                out = out + RatFunc(Poly({(("log(%d)" % n, 1),): Fraction(sign)}))
        return out
    return RatFunc(Poly.atom("log(%s)" % canon(x, expand_logs)))


# ----------------------------------------------------------- numeric evaluation
def _to_dec(v):
    if isinstance(v, D):
        return v
    if isinstance(v, bool):
        return D(int(v))
    if isinstance(v, Fraction):
        return _CTX.divide(D(v.numerator), D(v.denominator))
    raise Inconclusive("not numeric: %r" % (v,))


_PI = D("3.14159265358979323846264338327950288419716939937510582097494459")


def evaluate(e, env):
    """Exact (Fraction) evaluation where possible, 60-digit Decimal once a
    transcendental function is involved.  ``env`` maps symbol names to numbers."""
    op = e.op
    if op == "const":
        return e.value
    if op == "sym":
        if e.args[0] == "pi":
            return _PI
        if e.args[0] not in env:
            raise Inconclusive("no value for symbol %s" % e.args[0])
        return env[e.args[0]]
    if op == "unknown":
        raise Inconclusive("unknown value %s" % (e.args[0],))
    if op in ("add", "mul", "truediv", "floordiv", "mod", "pow"):
        a = evaluate(e.args[0], env)
        b = evaluate(e.args[1], env)
        if isinstance(a, bool):
            a = Fraction(int(a))
        if isinstance(b, bool):
            b = Fraction(int(b))
        if not isinstance(a, (Fraction, D)) or not isinstance(b, (Fraction, D)):
            raise Inconclusive("arithmetic on a non-numeric constant")
        if op in ("floordiv", "mod"):
            if not (isinstance(a, Fraction) and isinstance(b, Fraction)):
                raise Inconclusive("integer operation on inexact value")
            if b == 0:
                raise Inconclusive("division by zero")
            q = Fraction(math.floor(a / b))
            return q if op == "floordiv" else a - q * b
        if isinstance(a, Fraction) and isinstance(b, Fraction):
            if op == "add":
                return a + b
            if op == "mul":
                return a * b
            if op == "truediv":
                if b == 0:
                    raise Inconclusive("division by zero")
                return a / b
            if op == "pow":
                if b.denominator == 1 and abs(b) < 200 and not (a == 0 and b < 0):
                    return a ** int(b)
        a, b = _to_dec(a), _to_dec(b)
        if op == "add":
            return _CTX.add(a, b)
        if op == "mul":
            return _CTX.multiply(a, b)
        if op == "truediv":
            if b == 0:
                raise Inconclusive("division by zero")
            return _CTX.divide(a, b)
        if op == "pow":
            if a <= 0:
                if b == b.to_integral_value():
                    return _CTX.power(a, b)
                raise Inconclusive("non-integer power of non-positive value")
            return _CTX.power(a, b)
    if op == "neg":
        a = evaluate(e.args[0], env)
        if isinstance(a, bool):
            return Fraction(-int(a))
        if not isinstance(a, (Fraction, D)):
            raise Inconclusive("arithmetic on a non-numeric constant")
        return -a
    if op in ("max", "min"):
        vals = [evaluate(a, env) for a in e.args]
        vals = [Fraction(int(v)) if isinstance(v, bool) else v for v in vals]
        if all(isinstance(v, Fraction) for v in vals):
            return max(vals) if op == "max" else min(vals)
        vals = [_to_dec(v) for v in vals]
        return max(vals) if op == "max" else min(vals)
    if op == "cmp":
        o, a, b = e.args
        a, b = evaluate(a, env), evaluate(b, env)
        if o in ("is", "is not"):
            r = (a is None) == (b is None) and (a is None or a == b)
            return r if o == "is" else not r
        if o in ("in", "not in"):
            raise Inconclusive("membership")
        if isinstance(a, D) or isinstance(b, D):
            a, b = _to_dec(a), _to_dec(b)
        return _CMP[o](a, b)
    if op == "not":
        return not _truth(evaluate(e.args[0], env))
    if op == "bool":
        return _truth(evaluate(e.args[0], env))
    if op == "and":
        v = True
        for a in e.args:
            v = evaluate(a, env)
            if not _truth(v):
                return v
        return v
    if op == "or":
        v = False
        for a in e.args:
            v = evaluate(a, env)
            if _truth(v):
                return v
        return v
    if op == "cond":
        return evaluate(e.args[1] if _truth(evaluate(e.args[0], env)) else e.args[2], env)
    if op == "call":
        name = e.args[0]
        if name in (".sum", "np.sum", "sum") and len(e.args) == 2 and e.args[1].op == "call" and e.args[1].args[0] == "log":
            r = e.args[1].args[1]
            if r.op == "call" and r.args[0] in ("np.arange", "range") and len(r.args) == 3:
                lo, hi = evaluate(r.args[1], env), evaluate(r.args[2], env)
                if isinstance(lo, Fraction) and isinstance(hi, Fraction) and lo.denominator == 1 and hi.denominator == 1 and lo >= 1 and hi - lo < 500:
                    tot = D(0)
                    for k in range(int(lo), int(hi)):
                        tot += _CTX.ln(D(k))
                    return tot
            raise Inconclusive("sum of logs over a non-integer range")
        if isinstance(name, str) and name.split(".")[-1] in ("lgamma", "gammaln") and len(e.args) == 2:
            a = evaluate(e.args[1], env)
            if isinstance(a, Fraction) and a.denominator == 1 and 1 <= a <= 200:
                return _CTX.ln(D(math.factorial(int(a) - 1)))
            raise Inconclusive("lgamma of non-integer")
        args = [evaluate(a, env) for a in e.args[1:]]
        return _call_numeric(name, args)
    raise Inconclusive("cannot evaluate %s" % op)


def _truth(v):
    if isinstance(v, Fraction):
        return v != 0
    if isinstance(v, D):
        return v != 0
    return bool(v)


def _call_numeric(name, args):
    if name in ("int", "floor", "ceil", "round"):
        (a,) = args
        if isinstance(a, bool):
            a = Fraction(int(a))
        if isinstance(a, D):
            # only safe when far from an integer boundary
            f = a.to_integral_value(rounding=decimal.ROUND_FLOOR)
            frac = a - f
            if frac < D("1e-30") or frac > D(1) - D("1e-30"):
                raise Inconclusive("rounding too close to call")
            a = Fraction(int(f)) + Fraction(1, 2)
        if name == "floor":
            return Fraction(math.floor(a))
        if name == "ceil":
            return Fraction(math.ceil(a))
        if name == "int":
            return Fraction(math.trunc(a))
        return Fraction(round(a))
    if name == "abs":
        (a,) = args
        return abs(a)
    if name == "float":
        return args[0]
    if name == "factorial":
        (a,) = args
        if isinstance(a, Fraction) and a.denominator == 1 and 0 <= a <= 200:
            return Fraction(math.factorial(int(a)))
        raise Inconclusive("factorial of non-integer")
    if name in ("log", "log2", "log10", "exp", "sqrt", "exp2"):
        a = _to_dec(args[0])
        if name == "exp":
            return _CTX.exp(a)
        if name == "exp2":
            return _CTX.power(D(2), a)
        if name == "sqrt":
            if a < 0:
                raise Inconclusive("sqrt of negative")
            return _CTX.sqrt(a)
        if a <= 0:
            raise Inconclusive("log of non-positive")
        if name == "log":
            if len(args) == 2:
                return _CTX.divide(_CTX.ln(a), _CTX.ln(_to_dec(args[1])))
            return _CTX.ln(a)
        if name == "log2":
            return _CTX.divide(_CTX.ln(a), _CTX.ln(D(2)))
        return _CTX.log10(a)
    raise Inconclusive("cannot evaluate call %s" % name)


def values_differ(a, b):
    if isinstance(a, bool):
        a = Fraction(int(a))
    if isinstance(b, bool):
        b = Fraction(int(b))
    if isinstance(a, Fraction) and isinstance(b, Fraction):
        return a != b
    if isinstance(a, (Fraction, D)) and isinstance(b, (Fraction, D)):
        a, b = _to_dec(a), _to_dec(b)
        scale = max(abs(a), abs(b), D(1))
        return abs(a - b) > scale * D("1e-40")
    return a != b


def values_equal_approx(a, b):
    return not values_differ(a, b)


# ------------------------------------------------------- quasi-affine comparison
class _Interner:
    """Replaces sub-expressions outside the quasi-affine fragment by fresh integer
    symbols; two such sub-expressions get the same symbol iff they have the same
    operator and pairwise *semantically equal* operands (decided recursively by the
    same procedure) - sound for proving equality."""

    def __init__(self, depth=0):
        self.keys = {}
        self.exprs = {}
        self.items = []  # (op, args, name)
        self.depth = depth

    def _same(self, a, b):
        if a == b:
            return True
        if not (isinstance(a, E) and isinstance(b, E)):
            return a == b
        if self.depth > 3:
            return False
        try:
            if ratfunc(a).equals(ratfunc(b)):
                return True
        except Inconclusive:
            pass
        try:
            return qa_compare(a, b, depth=self.depth + 1)[0] == "equal"
        except Inconclusive:
            return False

    def atom(self, e):
        k = _atom_key(e, False)
        if k in self.keys:
            return sym(self.keys[k])
        for op, args, name in self.items:
            if op == e.op and len(args) == len(e.args):
                if all(self._same(x, y) for x, y in zip(args, e.args)):
                    self.keys[k] = name
                    return sym(name)
                if e.op in ("max", "min", "mul") and len(args) == 2 and self._same(args[0], e.args[1]) and self._same(args[1], e.args[0]):
                    self.keys[k] = name
                    return sym(name)
        name = "@%d" % len(self.exprs)
        self.keys[k] = name
        self.exprs[name] = e
        self.items.append((e.op, e.args, name))
        return sym(name)


def _qa(e, it, divs):
    """Rewrite e into the quasi-affine fragment over symbols and interned atoms."""
    op = e.op
    if op == "const":
        if isinstance(e.value, (Fraction, bool)):
            return e
        return it.atom(e)
    if op == "sym":
        return e
    if op in ("add",):
        return add(_qa(e.args[0], it, divs), _qa(e.args[1], it, divs))
    if op == "neg":
        return neg(_qa(e.args[0], it, divs))
    if op == "mul":
        a, b = _qa(e.args[0], it, divs), _qa(e.args[1], it, divs)
        if _numlike(a) or _numlike(b):
            return mul(a, b)
        return it.atom(E("mul", *sorted((e.args[0], e.args[1]), key=lambda x: _atom_key(x, False))))
    if op in ("floordiv", "mod"):
        b = e.args[1]
        if is_num(b) and b.value.denominator == 1 and b.value > 0:
            divs.append(int(b.value))
            a = _qa(e.args[0], it, divs)
            return E(op, a, b) if not _numlike(a) else rebuild(op, [a, b])
        return it.atom(e)
    if op == "truediv":
        b = e.args[1]
        if is_num(b) and b.value != 0:
            return mul(_qa(e.args[0], it, divs), lift(1 / b.value))
        return it.atom(e)
    if op == "cond":
        t = _qa_test(e.args[0], it, divs)
        if t is None:
            return it.atom(e)
        return E("cond", t, _qa(e.args[1], it, divs), _qa(e.args[2], it, divs))
    return it.atom(e)


def _qa_test(t, it, divs):
    """Tests allowed inside the fragment: truthiness / comparisons of *periodic*
    quantities (x % c), combined with not/and/or."""
    if t.op == "mod":
        b = t.args[1]
        if is_num(b) and b.value.denominator == 1 and b.value > 0:
            divs.append(int(b.value))
            return E("mod", _qa(t.args[0], it, divs), b)
        return None
    if t.op in ("not", "bool"):
        x = _qa_test(t.args[0], it, divs)
        return None if x is None else E(t.op, x)
    if t.op in ("and", "or"):
        xs = [_qa_test(a, it, divs) for a in t.args]
        return None if any(x is None for x in xs) else E(t.op, *xs)
    if t.op == "cmp" and t.args[0] in ("==", "!="):
        a, b = t.args[1], t.args[2]
        if a.op == "mod" and is_num(b):
            x = _qa_test(a, it, divs)
            return None if x is None else E("cmp", t.args[0], x, b)
        if b.op == "mod" and is_num(a):
            x = _qa_test(b, it, divs)
            return None if x is None else E("cmp", t.args[0], a, x)
    return None


def qa_compare(e1, e2, max_points=300000, depth=0):
    """Compare two integer-valued expressions as quasi-affine forms.

    Returns ('equal', info) or ('differ', witness, has_atoms, interner) where
    witness is a valuation over base symbols and interned atoms."""
    it = _Interner(depth)
    divs = []
    q1 = _qa(e1, it, divs)
    q2 = _qa(e2, it, divs)
    P = 1
    for d in divs:
        P = P * d // math.gcd(P, d)
    names = sorted(set(symbols(q1)) | set(symbols(q2)))
    names = [n for n in names if n != "pi"]
    rng = range(2 * P, 4 * P)  # strictly positive representatives of every residue class, two periods
    if len(rng) ** max(1, len(names)) > max_points:
        raise Inconclusive("quasi-affine box too large (%d symbols, period %d)" % (len(names), P))
    for point in itertools.product(rng, repeat=len(names)):
        env = {n: Fraction(v) for n, v in zip(names, point)}
        v1 = evaluate(q1, env)
        v2 = evaluate(q2, env)
        if values_differ(v1, v2):
            return ("differ", env, bool(it.keys), it, v1, v2)
    return ("equal", {"period": P, "symbols": names, "points": len(rng) ** len(names),
                      "atoms": {v: show(it.exprs[v]) for v in it.exprs}})


def evaluate_c(e, env):
    """Floating-point complex evaluation of a closed form (witness search for forms with imaginary units, cos / sin / exp);
    never used to *prove* equality, only to exhibit a point where two forms differ by far more than round-off."""
    import cmath
    op = e.op
    if op == "const":
        v = e.value
        if isinstance(v, bool):
            return complex(int(v))
        if isinstance(v, Fraction):
            return complex(float(v))
        if isinstance(v, str) and v.endswith("j"):
            return complex(v)
        raise Inconclusive("constant %r" % (v,))
    if op == "sym":
        if e.args[0] == "pi" or e == PI:
            return complex(math.pi)
        if e.args[0] not in env:
            raise Inconclusive("no value for %s" % e.args[0])
        return complex(env[e.args[0]])
    if op == "add":
        return evaluate_c(e.args[0], env) + evaluate_c(e.args[1], env)
    if op == "neg":
        return -evaluate_c(e.args[0], env)
    if op == "mul":
        return evaluate_c(e.args[0], env) * evaluate_c(e.args[1], env)
    if op == "truediv":
        return evaluate_c(e.args[0], env) / evaluate_c(e.args[1], env)
    if op == "pow":
        return evaluate_c(e.args[0], env) ** evaluate_c(e.args[1], env)
    if op in ("max", "min"):
        vals = [evaluate_c(a, env).real for a in e.args]
        return complex(max(vals) if op == "max" else min(vals))
    if op == "cmp":
        a, b = evaluate_c(e.args[1], env).real, evaluate_c(e.args[2], env).real
        if e.args[0] not in _CMP:
            raise Inconclusive("comparison %s" % e.args[0])
        return complex(1.0 if _CMP[e.args[0]](a, b) else 0.0)
    if op == "not":
        return complex(0.0 if evaluate_c(e.args[0], env) != 0 else 1.0)
    if op in ("and", "or"):
        vals = [evaluate_c(a, env) != 0 for a in e.args]
        return complex(1.0 if (all(vals) if op == "and" else any(vals)) else 0.0)
    if op == "cond":
        return evaluate_c(e.args[1] if evaluate_c(e.args[0], env) != 0 else e.args[2], env)
    if op == "call":
        name = e.args[0]
        short = name.split(".")[-1] if isinstance(name, str) else name
        if short in ("getitem",) or len(e.args) < 2:
            raise Inconclusive("call %s" % name)
        a = evaluate_c(e.args[1], env)
        fns = {"exp": cmath.exp, "log": cmath.log, "sqrt": cmath.sqrt, "cos": cmath.cos, "sin": cmath.sin, "abs": lambda z: complex(abs(z)),
               "conj": lambda z: z.conjugate(), "real": lambda z: complex(z.real), "imag": lambda z: complex(z.imag), "float": lambda z: z,
               "int": lambda z: complex(math.trunc(z.real)), "factorial": lambda z: complex(math.factorial(int(round(z.real))))}
        if short in fns and len(e.args) == 2:
            return fns[short](a)
        raise Inconclusive("call %s" % name)
    raise Inconclusive("cannot evaluate %s" % op)


def compare_c(e1, e2, domain, tol=1e-7):
    """normal-form identity, else a floating-point complex witness (relative difference above ``tol``)"""
    try:
        if ratfunc(e1, True).equals(ratfunc(e2, True)):
            return {"verdict": "equal", "how": "rational normal form"}
    except Inconclusive:
        pass
    names = sorted(domain)
    ok_pts = 0
    for point in itertools.product(*[domain[n] for n in names]):
        env = dict(zip(names, point))
        try:
            v1, v2 = evaluate_c(e1, env), evaluate_c(e2, env)
        except (Inconclusive, ZeroDivisionError, OverflowError, ValueError):
            continue
        ok_pts += 1
        if abs(v1 - v2) > tol * max(1.0, abs(v1), abs(v2)):
            return {"verdict": "differ", "witness": {k: _show_val(v) if isinstance(v, Fraction) else v for k, v in env.items()},
                    "values": ("%.6g%+.6gj" % (v1.real, v1.imag), "%.6g%+.6gj" % (v2.real, v2.imag))}
    if ok_pts:
        return {"verdict": "equal-on-grid", "points": ok_pts}
    return {"verdict": "unknown", "reason": "forms not identical and not evaluable"}


def compile_int(e):
    """Python source of an integer-valued closed form over integer symbols (None when the form leaves the fragment
    + - * // % max min comparisons and/or/not cond).  Floor division and modulo have Python's (= the IR's) semantics."""
    names = {}

    def var(n):
        if n not in names:
            names[n] = "v%d" % len(names)
        return names[n]

    def go(x):
        op = x.op
        if op == "const":
            v = x.value
            if isinstance(v, bool):
                return "True" if v else "False"
            if isinstance(v, Fraction) and v.denominator == 1:
                return "(%d)" % v.numerator
            if v is None:
                return "None"
            raise ValueError
        if op == "sym":
            return var(x.args[0])
        if op == "add":
            return "(%s + %s)" % (go(x.args[0]), go(x.args[1]))
        if op == "neg":
            return "(-%s)" % go(x.args[0])
        if op == "mul":
            return "(%s * %s)" % (go(x.args[0]), go(x.args[1]))
        if op == "floordiv":
            return "(%s // %s)" % (go(x.args[0]), go(x.args[1]))
        if op == "mod":
            return "(%s %% %s)" % (go(x.args[0]), go(x.args[1]))
        if op in ("max", "min"):
            return "%s(%s)" % (op, ", ".join(go(a) for a in x.args))
        if op == "cmp" and x.args[0] in ("<", "<=", ">", ">=", "==", "!="):
            return "(%s %s %s)" % (go(x.args[1]), x.args[0], go(x.args[2]))
        if op == "not":
            return "(not %s)" % go(x.args[0])
        if op == "bool":
            return "bool(%s)" % go(x.args[0])
        if op in ("and", "or"):
            return "(" + (" %s " % op).join(go(a) for a in x.args) + ")"
        if op == "cond":
            return "(%s if %s else %s)" % (go(x.args[1]), go(x.args[0]), go(x.args[2]))
        raise ValueError

    try:
        src = go(e)
    except (ValueError, RecursionError):
        return None
    order = sorted(names, key=lambda n: names[n])
    try:
        fn = eval("lambda %s: %s" % (", ".join(names[n] for n in order), src), {"max": max, "min": min, "bool": bool})
    except SyntaxError:
        return None
    return fn, order


def compare_on_grid(e1, e2, domain, constraint=None, limit=400000):
    """Exhaustive comparison of two closed forms on a finite grid (every point of the product of ``domain`` that satisfies
    ``constraint``).  Returns {'verdict': 'differ', witness...}, {'verdict': 'equal-on-grid', 'points': n} or
    {'verdict': 'unknown'} when a point cannot be evaluated."""
    names = sorted(domain)
    total = 1
    for n in names:
        total *= len(domain[n])
    if total > limit:
        return {"verdict": "unknown", "reason": "grid too large (%d points)" % total}
    pts = 0
    c1, c2 = compile_int(e1), compile_int(e2)
    integral = all(isinstance(v, Fraction) and v.denominator == 1 for n in names for v in domain[n])
    fast = c1 is not None and c2 is not None and integral and set(c1[1]) <= set(names) and set(c2[1]) <= set(names)
    for point in itertools.product(*[domain[n] for n in names]):
        env = dict(zip(names, point))
        if constraint is not None and not constraint(env):
            continue
        if fast:
            try:
                a = c1[0](*[int(env[n]) for n in c1[1]])
                b = c2[0](*[int(env[n]) for n in c2[1]])
            except ZeroDivisionError:
                continue
            pts += 1
            if a != b or (isinstance(a, bool) != isinstance(b, bool) and int(a) != int(b)):
                return {"verdict": "differ", "witness": {k: _show_val(v) for k, v in env.items()}, "values": (str(int(a)), str(int(b))),
                        "how": "exact integer evaluation on the grid"}
            continue
        try:
            v1 = evaluate(e1, env)
            v2 = evaluate(e2, env)
        except Inconclusive as e:
            return {"verdict": "unknown", "reason": "cannot evaluate at %s: %s" % ({k: _show_val(v) for k, v in env.items()}, e)}
        except ZeroDivisionError:
            continue
        pts += 1
        if values_differ(v1, v2):
            return {"verdict": "differ", "witness": {k: _show_val(v) for k, v in env.items()}, "values": (_show_val(v1), _show_val(v2)),
                    "how": "exact evaluation on the grid"}
    return {"verdict": "equal-on-grid", "points": pts}


def compare(e1, e2, domain=None, expand_logs=False, samples=None):
    """Decide e1 == e2.

    Returns a dict: {'verdict': 'equal', 'how': ...} or
    {'verdict': 'differ', 'witness': {...}, 'values': (v1, v2)} or
    {'verdict': 'unknown', 'reason': ...}.
    ``domain`` maps symbol names to iterables of candidate integer/rational values
    used by the witness search (defaults to a small non-negative range)."""
    if has_unknown(e1) or has_unknown(e2):
        return {"verdict": "unknown", "reason": "expression contains an untracked value: %s / %s" % (show(e1), show(e2))}
    try:
        r1, r2 = ratfunc(e1, expand_logs), ratfunc(e2, expand_logs)
        if r1.equals(r2):
            return {"verdict": "equal", "how": "rational normal form", "form": r1.show()}
    except Inconclusive:
        pass
    qa_info = None
    try:
        res = qa_compare(e1, e2)
        if res[0] == "equal":
            return {"verdict": "equal", "how": "quasi-affine residue table", "info": res[1]}
        qa_info = res
        if not res[2]:
            env = {k: v for k, v in res[1].items()}
            return {"verdict": "differ", "witness": {k: _fr(v) for k, v in env.items()},
                    "values": (_show_val(res[4]), _show_val(res[5])), "how": "quasi-affine residue table"}
    except Inconclusive:
        pass
    # witness search with concrete semantics
    names = sorted((set(symbols(e1)) | set(symbols(e2))) - {"pi"})
    domain = dict(domain or {})
    default = [Fraction(v) for v in (0, 1, 2, 3, 4, 5, 7, 8, 10, 16, 25, 160, 400)]
    cands = [list(domain.get(n, default)) for n in names]
    tried = 0
    evaluated = 0
    import random

    rnd = random.Random(12345)
    total = 1
    for c in cands:
        total *= max(1, len(c))
    points = itertools.product(*cands) if total <= 20000 else (
        tuple(rnd.choice(c) for c in cands) for _ in range(20000))
    for point in points:
        tried += 1
        env = dict(zip(names, point))
        try:
            v1 = evaluate(e1, env)
            v2 = evaluate(e2, env)
        except Inconclusive:
            continue
        except (ZeroDivisionError, decimal.InvalidOperation, OverflowError, ValueError):
            continue
        evaluated += 1
        if values_differ(v1, v2):
            return {"verdict": "differ", "witness": {k: _show_val(v) for k, v in env.items()},
                    "values": (_show_val(v1), _show_val(v2)), "how": "exact evaluation at a witness point"}
    return {"verdict": "unknown",
            "reason": "forms not identical in normal form and no witness found in %d points (%d evaluable): %s vs %s"
            % (tried, evaluated, show(e1), show(e2))}


def _show_val(v):
    if isinstance(v, Fraction):
        return _fr(v)
    if isinstance(v, D):
        return format(v, ".12g")
    return repr(v)


# -------------------------------------------------------------- sign reasoning
def nonneg(e, pos=(), nn=()):
    """Conservative proof that e >= 0 given symbols known positive / non-negative."""
    op = e.op
    if op == "const":
        return isinstance(e.value, (Fraction, bool)) and _numval(e) >= 0
    if op == "sym":
        return e.args[0] in pos or e.args[0] in nn or e.args[0] == "pi"
    if op in ("add", "mul"):
        return nonneg(e.args[0], pos, nn) and nonneg(e.args[1], pos, nn)
    if op in ("floordiv", "truediv"):
        return nonneg(e.args[0], pos, nn) and positive(e.args[1], pos, nn)
    if op == "mod":
        return positive(e.args[1], pos, nn)
    if op == "max":
        return any(nonneg(a, pos, nn) for a in e.args)
    if op == "min":
        return all(nonneg(a, pos, nn) for a in e.args)
    if op == "cond":
        return nonneg(e.args[1], pos, nn) and nonneg(e.args[2], pos, nn)
    if op == "pow":
        return nonneg(e.args[0], pos, nn) or (is_num(e.args[1]) and e.args[1].value.denominator == 1 and e.args[1].value % 2 == 0)
    if op == "call" and e.args[0] in ("len", "abs", "sqrt", "exp", "factorial"):
        return True
    if op == "call" and e.args[0] in ("int", "ceil", "floor", "float") and len(e.args) == 2:
        return nonneg(e.args[1], pos, nn)
    return False


def positive(e, pos=(), nn=()):
    op = e.op
    if op == "const":
        return isinstance(e.value, (Fraction, bool)) and _numval(e) > 0
    if op == "sym":
        return e.args[0] in pos or e.args[0] == "pi"
    if op == "add":
        a, b = e.args
        return (positive(a, pos, nn) and nonneg(b, pos, nn)) or (nonneg(a, pos, nn) and positive(b, pos, nn))
    if op == "mul":
        return positive(e.args[0], pos, nn) and positive(e.args[1], pos, nn)
    if op == "truediv":
        return positive(e.args[0], pos, nn) and positive(e.args[1], pos, nn)
    if op == "max":
        return any(positive(a, pos, nn) for a in e.args)
    if op == "min":
        return all(positive(a, pos, nn) for a in e.args)
    if op == "pow":
        return positive(e.args[0], pos, nn)
    if op == "call" and e.args[0] in ("exp", "factorial"):
        return True
    if op == "call" and e.args[0] == "sqrt":
        return positive(e.args[1], pos, nn)
    return False


def simplify_max0(e, pos=(), nn=()):
    """max(0, x) -> x when x is provably non-negative (bottom-up)."""
    if e.op in ("const", "sym", "unknown"):
        return e
    args = [simplify_max0(a, pos, nn) if isinstance(a, E) else a for a in e.args]
    e2 = rebuild(e.op, args)
    if e2.op == "max":
        zeros = [a for a in e2.args if _numlike(a) and _numval(a) == 0]
        rest = [a for a in e2.args if not (_numlike(a) and _numval(a) == 0)]
        if zeros and len(rest) == 1 and nonneg(rest[0], pos, nn):
            return rest[0]
    return e2


def divisible(e, f, expand_logs=False):
    """Sufficient syntactic proof that integer expression e is a multiple of f:
    e / f normalises to a polynomial with integer coefficients over atoms."""
    try:
        r = (ratfunc(e, expand_logs) * ratfunc(f, expand_logs).inv()).cancel_monomial()
    except Inconclusive:
        return False
    if not r.is_poly():
        return False
    return all(v.denominator == 1 for v in r.num.t.values())


def find_witness(pred_expr, domain, limit=20000):
    """First valuation (from the product of ``domain`` candidate lists) at which the
    boolean/numeric expression evaluates truthy.  Returns dict or None."""
    names = sorted(domain)
    cands = [list(domain[n]) for n in names]
    count = 0
    for point in itertools.product(*cands):
        count += 1
        if count > limit:
            break
        env = dict(zip(names, [Fraction(v) if isinstance(v, int) else v for v in point]))
        try:
            v = evaluate(pred_expr, env)
        except (Inconclusive, ZeroDivisionError, decimal.InvalidOperation):
            continue
        if _truth(v):
            return {k: _show_val(x) for k, x in env.items()}
    return None
