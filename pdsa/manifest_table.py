"""Single source for MANIFEST.json (tools/gen_manifest.py).  A property appears in
CHECKS only once its check exists and is silent on the unchanged tree; everything
else is listed in NOT_APPLICABLE with the reason."""

NOTE_COMMON = ("Trusted: CPython's ast parser, the engine's API-contract table for NumPy/torch/stdlib calls, "
               "the cited specification tables in pdsa/spec.py, exact rational arithmetic. Not used: the package's "
               "runtime behaviour, its tests, any import of pydrobert.speech / NumPy / torch. ")

CHECKS = {
    "C08": {
        "level": "proof",
        "text": ("Proof-level for the finite, in-source part: exhaustive over every class under AliasedFactory "
                 "(6 families, 20 concrete classes, 33 aliases) that each alias resolves from its family to its class, "
                 "unknown aliases raise ValueError, the search is stateless and LIFO (last registered wins), "
                 "alias_factory_subclass_from_arg returns instances unchanged, treats str as alias, pops 'alias' then "
                 "(only if absent) 'name' from a fresh copy and forwards the rest, and every annotated alias parameter "
                 "is normalised with its own family. Decides these structural clauses, NOT bit-identity of features "
                 "of alias-built and explicitly built computers. Also: the values of a configuration mapping reach the constructor unchanged (no filtering or transforming copy), and nothing in alias.py is memoised (every resolution builds a new object). Wave 10: a mapping of any type is accepted as keyword arguments (no isinstance test narrower than Mapping whose complement builds nothing)."),
        "design_ref": "DESIGN.md §3 C08, §10.10, §10.11, §10.15",
        "note": NOTE_COMMON + "Assumes module import order does not matter (true while no alias is shared inside a family; the check exits 2 otherwise).",
        "technique": "static analysis: exhaustive class-table/alias-registry check, CFG dominance and reaching-definition rules on the factory functions",
    },
}

CHECKS["C09"] = {
    "level": "other",
    "text": ("Decides the structural clauses of the two tools on every run: the stored value is "
             "cast(post(compute_full(pre(signal)))) with each stage built from its own option in list order (only a matrix "
             "without frames bypasses post-processing), options.<x> reads exist in the tool's parser, family-typed attribute "
             "chains exist, the only exclusions are the documented ones, one shared path-or-inline JSON/YAML parser, seed "
             "provenance (given --seed reaches the RNG first, no hash/id/time in the per-item seed), exhaustive NumPy->torch "
             "conversion. Does NOT decide numerical equality of stored and library features; that part of the property "
             "quantifies over signal values and is out of reach of static analysis. Also: the processor collections walked per utterance are real sequences (no one-shot iterators); the per-item seed depends on the base seed and the utterance's identity only (taint analysis shared with C10, live dict views followed); as a premise, the value rule of the pre-processors (in-place variants equal the plain call) is re-established. Wave 10: the wave rspecifier is opened exactly once (it may be a pipe); np.random.seed gets --seed whenever it is given (0 included), by forward substitution; the torch wrappers hand every input to the wrapped object (C14's wrapper rule re-established). Wave 11: serving an item stores nothing on the dataset object (C10's rule, shared)."),
    "design_ref": "DESIGN.md §3 C09, §10.10, §10.11, §10.15, §10.17",
    "note": NOTE_COMMON + "pydrobert.kaldi / torch I/O are trusted to store what they are given.",
    "technique": "static analysis: forward substitution of the write's def-use chain into a pipeline normal form, argparse-dest and family attribute tables, guard enumeration, seed provenance",
}
CHECKS["C10"] = {
    "level": "other",
    "text": ("Crash points are not enumerated (no static argument can); instead the durability/ordering discipline that makes "
             "the property hold is decided on the CFG: save dominates acknowledge, every acknowledge is flushed before the "
             "next iteration and exit, append+read mode, rewind and filter before the dataset is built, per-item seed free of "
             "manifest-filtered positions (flow-sensitive taint through tool function and dataset class), re-seed before any "
             "random draw, order-preserving DataLoader. Each is a necessary condition: breaking it breaks the property for "
             "some kill point / resume. Also: membership tests against the manifest are made on its lines, not inside its text; seed tables are aligned with the collection they are indexed by; as a premise, the reset rule of both frame computers (one computer per process is re-used across utterances) is re-established. Wave 10: serving an item stores nothing on the dataset object; no deserialising call reads a file of the output directory back (an unlisted file may be cut short)."),
    "design_ref": "DESIGN.md §3 C10, §10.9-§10.11, §10.15",
    "note": NOTE_COMMON + "Atomicity of torch.save and fsync-level durability are not decided (a half-written file is never listed, by save-before-ack).",
    "technique": "static analysis: CFG dominance / must-flush path rules and flow-sensitive taint (manifest-filtered membership -> position) of the per-item seed",
}

CHECKS["C12"] = {
    "level": "proof",
    "text": ("Proof-level (exhaustive over a finite in-source space) for the G.711 clause: all 2 x 256 table entries equal the "
             "ITU-T G.711 bit-field expansion. The decoder's remaining mechanism is decided structurally with exact closed "
             "forms: each read is a whole number of frames (divisibility proof, counter-witness otherwise), samples converted "
             "per read equal the frames counted, the np.empty buffer is returned only through a slice bounded by the fill "
             "counter on every path, byte order / shape / expansion / warning / header-error clauses. Nothing numerical "
             "remains beyond NumPy's frombuffer, so this is close to the whole property; it is still a statement about the "
             "code's shape, not an execution over files. Also: the NIST_1A magic is tested before any header text is converted (CFG dominance); byte order is never corrected on the output array; which G.711 table is applied is decided by value over coding x stored width x requested dtype scenarios. Wave 11: whether a header read happens depends on sizes only, never on the bytes already read; NumPy's dtype promotion is folded in the G.711 expansion scenarios."),
    "design_ref": "DESIGN.md §3 C12, §10.9, §10.10, §10.17",
    "note": NOTE_COMMON + "file_.read(n) is assumed to return n bytes unless the stream ends (buffered binary streams).",
    "technique": "static analysis: exhaustive literal-table comparison with ITU-T G.711, closed-form divisibility/byte-accounting with witnesses, reaching definitions on header parsing and the returned buffer",
}
CHECKS["C13"] = {
    "level": "other",
    "text": ("Decides the decoder's structure against the reference decoder it ports (shorten 2.0 / sph2pipe 2.5): NEP 50 "
             "signedness discipline of the bit reader, exhaustive command and sample-type dispatch with error fall-through, "
             "premature-end error not swallowed, DIFF0-3/QLPC stencils in normal form, running-mean read/update and C "
             "division for versions 1 and 2, wrap / bit-shift fix-up / interleave applied to every block command. Does NOT "
             "decide losslessness over all encoder outputs: that needs an encoder and execution. Also: initial running means per sample type by evaluation of the dispatch; vectorised QLPC: width, tap order and the flooring of the scaled prediction (evaluated on both sides of zero). Wave 10: the command number is only compared until the dispatch has recognised it (no indexing with an unbounded Rice code)."),
    "design_ref": "DESIGN.md §3 C13, §10.9, §10.10, §10.15",
    "note": NOTE_COMMON + "The reference arithmetic is transcribed in pdsa/rules/c13.py (REF) from shorten_x.c.",
    "technique": "static analysis: signedness typing, exhaustive dispatch tables, stencil / mean closed forms compared with the reference decoder, control-dependence of post-block steps",
}

CHECKS["C01"] = {
    "level": "other",
    "text": ("Necessary conditions: the chunk driver is an exact cover with one finalize; the default and SI compute_full are "
             "compositions of compute_chunk/finalize; for the one-chunk history (whole signal in one compute_chunk, then finalize) "
             "the frame counts of the two calls - closed forms in (N, L, S) extracted by forward substitution with an idempotent-"
             "loop summary - add up to compute_full's for all four frame_style/kaldi_shift configurations (none below L//2+1), and "
             "finalize never reflects further back than the samples it pads; both are decided by normal-form identity where "
             "possible and otherwise by exact evaluation of the extracted formulas on a declared grid (bounded: L in 1..12,16,25, "
             "S <= L, N <= 3L+2); streaming and one-shot framing geometry agree as closed forms; carried state is written on every "
             "exit and reset by finalize. Two-chunk law: in the steady state, feeding N1 then N2 samples emits the frames and leaves the carried scalars of feeding N1 + N2 at once (closed forms composed and evaluated exactly on a grid of L, S, carried states within the invariants and chunk pairs including empty and one-sample chunks); a frame style the constructor accepts is stored as one of the two literals the framing code compares with. Equality of frame VALUES and buffer CONTENTS across chunkings is NOT decided. Wave 10: no raise or assertion of the streaming interface depends on the memory layout of its input (.flags/.strides)."),
    "design_ref": "DESIGN.md §3 C01, §10.2, §10.10, §10.11, §10.15",
    "note": NOTE_COMMON + "The two streaming/one-shot discrepancies named in the property were found by these rules and repaired (fix: 4fe22b9, eb5740a).",
    "technique": "static analysis: exact-cover rule on the driver; closed-form summary of the one-chunk history (forward substitution, idempotent-loop summary) compared with compute_full's closed forms, bounded grid evaluation of the extracted integer formulas where normal forms differ; sibling agreement of framing geometry; CFG must-write rule; two-chunk composition of the closed-form state transition on a grid; evaluation of the constructor's validation for alternative spellings",
}
CHECKS["C02"] = {
    "level": "other",
    "text": ("Decides compute_full's framing geometry (3 configurations) and _compute_frame's spectrum walk against the "
             "documented definition as exact closed forms valid for all L, S, N, D (odd and even): thresholds, paddings, frame "
             "count/slices, mirrored-bin capacity / first bin / direction / conjugation, walk structure, real doubling, log floor, "
             "energy, default frame length and DFT size. Does NOT decide that floating-point sums equal the full-spectrum "
             "definition for all banks and signals, nor the values of get_truncated_response (C06). Also: config.LOG_FLOOR_VALUE is read at call time (no default argument, module constant or from-import captures it). Wave 10: the segment walk (which bin meets which tap, conjugated or not) is decided by evaluating the constructor's and the frame routine's loops with the checker's own interpreter (pdsa/walk.py) for every DFT size 2..10, start bin and run length; compute_full refuses no input for its memory layout."),
    "design_ref": "DESIGN.md §3 C02, §10.11, §10.15",
    "note": NOTE_COMMON + "len(np.fft.rfft(x, n=D)) = D//2+1 is taken from NumPy's documented contract.",
    "technique": "static analysis: forward substitution into quasi-affine / rational normal forms compared with the documented geometry (residue tables, witnesses); structural walk rules",
}
CHECKS["C14"] = {
    "level": "other",
    "text": ("Decides that the functional torch port has the documented framing geometry and mirrored-bin arithmetic (the same "
             "spec compute.py is checked against under C02) as exact closed forms, the same column count on every return, "
             "symmetric padding, parameter name-flow without crossed wires through factory -> constructor -> attribute -> forward, "
             "matching reductions / doubling / log floor / energy, and that the wrappers delegate and re-wrap. Does NOT decide "
             "numerical agreement to working precision, TorchScript semantics or the dither's distribution. Wave 10: the noise draw is PyTorchDither's only use of the process-wide generator over its call closure (torch.seed() re-seeds); a wrapper branch that returns without calling the wrapped object is reported; the (offset, filter) pairs from_stft_frame_computer hands over are evaluated together with what the NumPy constructor stores (checker's own interpreter, every DFT size 2..8, start bin, run length): they must be the bank's start bin and whole response. Wave 11: the torch segment walk is evaluated like its NumPy twin (DFT sizes 2..10, every start bin and run length, both power options)."),
    "design_ref": "DESIGN.md §3 C14, §10.15, §10.17",
    "note": NOTE_COMMON + "spect.size(1) of torch.fft.rfft(x, D, 1) = D//2+1 is taken from torch's documented contract.",
    "technique": "static analysis: closed-form twin comparison with the documented geometry, 4-hop name-flow, structural reduction/wrapper rules",
}

CHECKS["C04"] = {
    "level": "other",
    "text": ("Decides reset completeness (every attribute mutated while an utterance is processed is fully re-initialised on "
             "every normal path of finalize or by the not-started prefix of the next compute_chunk before being read; one reasoned "
             "exemption), the started typestate on all exits, guard-first refusal in compute_full / frame_by_frame_calculation, "
             "and by a flow-sensitive alias/effect analysis with callee summaries that no entry point writes through an alias of "
             "its input array. Histories are not enumerated; bit-identity of features across histories is NOT decided. The exemption of the STFT remainder buffer's contents covers in-place writes only (re-binding makes dtype and size part of the state)."),
    "design_ref": "DESIGN.md §3 C04, §10.10",
    "note": NOTE_COMMON + "Exemption: contents of STFT._buf (only read through slices bounded by the reset fill count).",
    "technique": "static analysis: must-reinitialise data flow through self.* calls, typestate on exits, alias/effect analysis with summaries",
}
CHECKS["C20"] = {
    "level": "other",
    "text": ("Decides the None-default discipline package-wide (check-then-use contradiction), the copy-flag effect rule and the "
             "phase-ramp closed form of circshift_fourier, the four window closed forms against NumPy's generators and their DC "
             "coefficients (fresh, un-memoised arrays), the gamma window's special cases / mode / normaliser, the ten Odeh-Evans "
             "coefficients, tail threshold, folding, sign and affinity, and the Hz<->rad inverse pair as rational functions. Does "
             "NOT decide non-negativity, sums up to O(1/width), the 1e-6 accuracy or DFT shift identities numerically. Also: the base of t ** (order - 1) in the gamma window is floating point (dtype inference: np.arange follows its arguments, annotated parameters). Wave 11: the Gamma window is evaluated sample by sample over exact symbolic values (widths 0..6, orders 1/2/4, three peaks) and compared with the documented density."),
    "design_ref": "DESIGN.md §3 C20, §10.10, §10.17",
    "note": NOTE_COMMON + "vis.py is outside the None-default rule (its guards are correlated across parameters; no property anchors it).",
    "technique": "static analysis: None-default data flow, effect analysis with the copy flag, closed-form and literal-table comparison, purity rule",
}

CHECKS["C19"] = {
    "level": "proof",
    "text": ("Proof over the reals, re-derived from the parsed source on every run: both directions of all four scaling functions "
             "are extracted as piecewise Moebius/log/exp closed forms with exact rational coefficients; the two compositions "
             "reduce to the identity piece by piece (pieces matched through exact break-point images, exp/log cancellation in "
             "rational normal form), every piece is strictly increasing (structural argument: determinant sign, pole outside, "
             "monotone outer maps, positive factors), neighbouring pieces agree exactly at the break-points, the mel and Bark "
             "maps match the published formulas, OctaveScaling validates low_hz. A refutation always carries an exact witness. "
             "This is the right level because the property is a statement about closed forms; what it does not cover is "
             "floating-point round-off of log/exp. Also: OctaveScaling's rejection of low_hz <= 0 is decided by evaluating the path conditions of the constructor's raises (constructor found through the MRO, new base classes and properties read through)."),
    "design_ref": "DESIGN.md §3 C19, §10.9",
    "note": NOTE_COMMON + "Assumptions: real arithmetic; LinearScaling.slope_hz > 0 (not validated by the constructor, not demanded by the property).",
    "technique": "static analysis: exact symbolic normal forms (Moebius chains, exp/log cancellation, rational break-points) of the extracted closed forms",
}

CHECKS["C15"] = {
    "level": "other",
    "text": ("Decides: no in-place write through the input unless in_place (flag-sensitive effect analysis), result dtype = input "
             "dtype with a float64 correlation (dtype lattice), the Kaldi filter recursion, pad/crop consistency as an exact "
             "quasi-affine identity for every odd filter length, target axis handed to NumPy unmodified (a negative axis normalised "
             "against the input's rank under concatenate=False is reported), Stack's axis normalisation, whole-sequence right "
             "padding, divisibility and drop rule, and - by layout analysis over ranks 2..4 and every (possibly negative) time / "
             "feature axis - that every element of Stack's result comes from the right input element on both its 2-D and N-D paths. "
             "Does NOT decide Kaldi value equivalence along arbitrary axes. Also: with in_place false the returned value never shares memory with the argument (path-sensitive result-aliasing analysis)."),
    "design_ref": "DESIGN.md §3 C15, §10.11",
    "note": NOTE_COMMON,
    "technique": "static analysis: effect analysis with the in_place flag, dtype lattice, exact closed forms of filter recursion / pad-crop / stack arithmetic, axis rules, layout analysis (abstract interpretation of axis bookkeeping with symbolic sizes); disjunctive (path-sensitive) alias analysis of the returned value",
}
CHECKS["C18"] = {
    "level": "other",
    "text": ("Decides: the forward-substituted value returned by Dither.apply / Preemphasize.apply, specialised to every scenario "
             "(in_place x input dtype float64/float32/int16 x axis none/last/other x rank), is the documented expression - float64 "
             "working copy unless in_place on float64, x[...,1:] -= coeff*x[...,:-1] along the chosen axis with sample 0 kept, "
             "numpy.random.normal(0, coeff, shape-only) added once, cast back to the input dtype; no chunked update; torch twins; "
             "in-place writes only with in_place (flag-sensitive effect analysis); global generator, no instance state. "
             "Does NOT decide distributional facts. Also: with in_place false the returned value never shares memory with the argument (path-sensitive result-aliasing analysis). Wave 10: the noise draw is Dither.apply's only use of numpy's process-wide generator over its call closure, at most once per path."),
    "design_ref": "DESIGN.md §3 C18, §10.6, §10.11, §10.15",
    "note": NOTE_COMMON,
    "technique": "static analysis: forward substitution + scenario evaluation of the returned value against the documented closed form, effect analysis with the in_place flag, provenance of the random draw's arguments, purity; disjunctive (path-sensitive) alias analysis of the returned value",
}

CHECKS["C16"] = {
    "level": "other",
    "text": ("Decides: the statistics matrix is only ever created as float64 zeros and incremented (+=) with increments that do not "
             "read it back; vector and tensor accumulators update the same three regions with float64 increments (dtype lattice); "
             "both appliers use count, mean = sums/count, var = squares/count - mean^2 and x*scale - mean*scale (closed forms), "
             "scale iff norm_var with zero-variance replacement first; any attribute derived from the statistics is invalidated by "
             "every writer of the statistics; dimension checks precede updates; float64 result; in-place writes only with in_place. "
             "Does NOT decide numerical values or the moments of locally standardised tensors. Also: with in_place false the returned value never shares memory with the argument (path-sensitive result-aliasing analysis). The squares are computed, not only reduced, in float64 (dtype inference)."),
    "design_ref": "DESIGN.md §3 C16, §10.7, §10.11",
    "note": NOTE_COMMON,
    "technique": "static analysis: forward substitution + scenario evaluation of the statistics matrix after accumulate and of the value / dtype / raise conditions of apply against the documented closed forms, additive-update rule, blocked-loop coverage, dtype lattice, derived-state invalidation (must-write), effect analysis with the in_place flag; disjunctive (path-sensitive) alias analysis of the returned value",
}
CHECKS["C17"] = {
    "level": "other",
    "text": ("Decides: NpzFile typestate in save (never mutated, expanded via dict), the raw loader's validity predicate constrains only "
             "floating-point invariants of the accumulators (integral non-negative count, non-negative squares), ValueError guard "
             "first, suffix dispatch writes the whole matrix with matching readers, overwrite flag controls loading of the existing "
             "archive, default key found by a membership search from arr_0. Does NOT decide equality of the reloaded transform nor "
             "the float32/float64 re-interpretation heuristic. Also: validity tests applied by the constructor to loaded statistics may only demand what the accumulators guarantee. Wave 11: state derived from the statistics (cached flags / transforms) is refreshed wherever the statistics are written, the loader included (C16's rule, shared)."),
    "design_ref": "DESIGN.md §3 C17, §10.10, §10.17",
    "note": NOTE_COMMON,
    "technique": "static analysis: typestate via reaching definitions, whitelist of accumulator invariants in normal form, structural save/load rules",
}

CHECKS["C03"] = {
    "level": "other",
    "text": ("Decides the input/output dtype discipline of the short-integration computer with a NEP 50 dtype lattice (every buffer "
             "reaching the forward transform is float64/complex128; results carry the first chunk's dtype; non-floating input is "
             "refused first), that forward/inverse transforms are matching pairs under one predicate with explicit lengths, uniform "
             "filter / energy-impulse preparation, window geometry, log floor, and the finalize frame-count closed form. Does NOT "
             "decide numerical equality with the convolution definition; the total frame count is a function of run-time counters. Also: the roll shift of the centred filters as a value in every bank-kind alternative; config.LOG_FLOOR_VALUE is read at call time. Wave 10: the frame handed back is the sum of the two half-window accumulators in every option setting, by value; compute_full refuses no input for its memory layout. Wave 11: a conversion with dtype=float64 on the way into compute_chunk is a promotion of the result dtype."),
    "design_ref": "DESIGN.md §3 C03, §10.9, §10.11, §10.15, §10.17",
    "note": NOTE_COMMON + "Bank impulse responses are float64/complex128 by their documented contract.",
    "technique": "static analysis: dtype lattice (NEP 50), sibling agreement of transform branches, structural preparation rules, closed-form frame count",
}
CHECKS["C11"] = {
    "level": "other",
    "text": ("Decides agreement of the four force_as tables with the documented names, error types on every path, stream guards "
             "before any reader, the final-cast form of each per-container reader (dtype never handed to a rescaling decoder), keyed "
             "defaults, wave reshape, and that wds_read_signal cannot raise. Does NOT decide bit-identity through third-party "
             "decoders (soundfile, h5py, torch, scipy). Also: the soundfile type is the text after the last dot for every name (extension-idiom table with the known deviations of pathlib / os.path.splitext); the package's own SPHERE decoder reads relative to the stream position; with a dtype requested the raw-binary reader interprets the bytes as that dtype. Wave 10: no reduction without an identity is applied to the data read (a zero-length signal is read back like any other). Wave 11: streams are used through the file protocol only (an unguarded attribute such as .name fails for io.BytesIO)."),
    "design_ref": "DESIGN.md §3 C11, §10.9, §10.10, §10.15, §10.17",
    "note": NOTE_COMMON,
    "technique": "static analysis: literal-table agreement, CFG guard dominance, sibling rule on reader return forms and decoder-dtype provenance",
}

CHECKS["C05"] = {
    "level": "other",
    "text": ("Decides: the range guard of each constructor is implied by the documented rejection condition on every ordering of the "
             "compared quantities (order-type enumeration, witness on failure) and cannot die with TypeError; vertex/edge spacing, "
             "centres, triangle values and the gammatone/Gabor bandwidth and normalisation constants equal the documented closed "
             "forms (rational / log-linear normal forms); response methods are memo-free. Does NOT decide monotonicity of centres, "
             "peak gain 1 or crossing points as numerical facts. Also: both scale maps read the current public parameters (no value derived at construction), and bank constructors leave the objects passed to them unmodified (effects analysis on every constructor parameter)."),
    "design_ref": "DESIGN.md §3 C05, §10.10, §10.11",
    "note": NOTE_COMMON + "The GTONE constants are derived from the class docstrings (derivation in DESIGN.md §2).",
    "technique": "static analysis: order-type enumeration of the validation guard, None-default data flow, closed-form / log-linear normal forms against derived constants, purity rule; effects analysis of constructor arguments",
}
CHECKS["C06"] = {
    "level": "other",
    "text": ("Decides: half-spectrum length width//2+1 (quasi-affine, odd and even), highest vertex <= Nyquist for every accepted "
             "range (order-type enumeration), start-bin forms, truncated and full responses share per-bin formula / helper and bin "
             "bounds, Hermitian store iff not half and not analytic with the same value, whole-period fallback, memo-free response "
             "methods. Does NOT decide the 2 x threshold bound for Gabor/gammatone truncation nor wrap-around at small widths. Wave 10: no reduction without an identity (max/min/argmax) is applied to a truncated response, which may be empty."),
    "design_ref": "DESIGN.md §3 C06, §10.15",
    "note": NOTE_COMMON,
    "technique": "static analysis: quasi-affine closed form, order-type enumeration, sibling agreement of formulas in normal form, structural store rules, purity rule",
}
CHECKS["C07"] = {
    "level": "other",
    "text": ("The property's core (IDFT agreement and leakage within tolerances) is numerical and NOT decided. Decided necessary "
             "conditions: impulse response complex iff not is_real per bank; Gabor impulse and frequency responses are the Fourier "
             "pair of one Gaussian with one constant (unit gain or unit L2 norm) and the advertised Gabor supports are where that "
             "Gaussian falls to the threshold (closed forms, exact); the gammatone support end is the threshold crossing in the "
             "response's own (shifted) time frame; signs of the advertised temporal supports; the threshold is read at call time; "
             "memo-free response methods. Wave 10: what each period adds to a gammatone response is H at the shifted grid, unaltered (forward substitution follows whole-array views such as x.view(np.float64))."),
    "design_ref": "DESIGN.md §3 C07, §10.2, §10.15",
    "note": NOTE_COMMON + "Nothing about tolerances is claimed. The max_centered gammatone support defect named in the property was found by R-C07-support-frame and repaired (fix: b7714e5).",
    "technique": "static analysis: closed forms of the Gabor normalisation / supports in log-linear normal form, time-frame rule on the gammatone threshold search, dtype/flag correlation, sign-domain rule, call-time configuration rule, purity rule",
}

_PENDING = "check not built yet in this session (static-analysis clauses planned in DESIGN.md §3)"
NOT_APPLICABLE = {("C%02d" % i): _PENDING for i in range(1, 21) if ("C%02d" % i) not in CHECKS}

NOTES = ("Technique family: static analysis only (DESIGN.md). Every check re-parses /repo/src/pydrobert/speech on each run, "
         "reports file:line + function + normalised statement, exits 2 (ANALYSIS-ERROR) when an anchor vanished or a construct "
         "left the decidable fragment, and never executes the package. Each property is claimed only for the clauses named in "
         "level_claimed.text; the numerical remainder is stated as not decided.")
