"""Single source for MANIFEST.json (tools/gen_manifest.py).  A property appears in
CHECKS only once its check exists and is silent on the unchanged tree; everything
else is listed in NOT_APPLICABLE with the reason."""

NOTE_COMMON = ("Trusted: CPython's ast parser, the engine's API-contract table for NumPy/torch/stdlib calls, "
               "the cited specification tables in pdsa/spec.py, exact rational arithmetic. Not used: the package's "
               "runtime behaviour, its tests, any import of pydrobert.speech / NumPy / torch. ")

CHECKS = {
    "C08": {
        "level": "proof",
        "text": ("Proof-level for the finite, in-source part: exhaustive over every class under AliasedFactory "
                 "(6 families, 20 concrete classes, 33 aliases) that each alias resolves from its family to its class, "
                 "unknown aliases raise ValueError, the search is stateless and LIFO (last registered wins), "
                 "alias_factory_subclass_from_arg returns instances unchanged, treats str as alias, pops 'alias' then "
                 "(only if absent) 'name' from a fresh copy and forwards the rest, and every annotated alias parameter "
                 "is normalised with its own family. Decides these structural clauses, NOT bit-identity of features "
                 "of alias-built and explicitly built computers."),
        "design_ref": "DESIGN.md §3 C08",
        "note": NOTE_COMMON + "Assumes module import order does not matter (true while no alias is shared inside a family; the check exits 2 otherwise).",
        "technique": "static analysis: exhaustive class-table/alias-registry check, CFG dominance and reaching-definition rules on the factory functions",
    },
}

_PENDING = "check not built yet in this session (static-analysis clauses planned in DESIGN.md §3)"
NOT_APPLICABLE = {("C%02d" % i): _PENDING for i in range(1, 21) if ("C%02d" % i) not in CHECKS}

NOTES = ("Technique family: static analysis only (DESIGN.md). Every check re-parses /repo/src/pydrobert/speech on each run, "
         "reports file:line + function + normalised statement, exits 2 (ANALYSIS-ERROR) when an anchor vanished or a construct "
         "left the decidable fragment, and never executes the package. Each property is claimed only for the clauses named in "
         "level_claimed.text; the numerical remainder is stated as not decided.")
