"""Check context: obligations, findings, known findings, evidence and exit status."""

import ast
import json
import os
import sys
import time

from . import VERIF
from .model import AnalysisError, norm_stmt
from .sym import Inconclusive as S_Inconclusive

EVIDENCE_DIR = os.path.join(VERIF, "evidence")
REPLAY_DIR = os.path.join(EVIDENCE_DIR, "replay")
KNOWN = os.path.join(VERIF, "known_findings.json")
FLOORS = os.path.join(VERIF, "pdsa", "floors.json")


class MISSING:
    """Fallback location used when the construct a clause wants to inspect was not found.
    A failing clause whose construct is missing is an *analysis error* (the idiom is outside
    the enumerated set), never a violation."""

    def __init__(self, node):
        self.node = node


def _clause_id(text):
    """stable identifier of an obligation: its text without numbers / quoted fragments, truncated"""
    import re
    t = re.sub(r"[0-9]+", "#", text or "")
    t = re.sub(r"`[^`]*`", "`..`", t)
    return t[:70]


_STRUCT = None


def _structural():
    global _STRUCT
    if _STRUCT is None:
        path = os.path.join(os.path.dirname(os.path.abspath(__file__)), "structural.json")
        try:
            with open(path) as fh:
                _STRUCT = {tuple(x) for x in json.load(fh)}
        except (OSError, ValueError):
            _STRUCT = set()
    return _STRUCT


class Finding:
    clause = ""

    def __init__(self, rule, func, stmt, message, loc, extra=None):
        self.rule = rule
        self.func = func
        self.stmt = stmt
        self.message = message
        self.loc = loc
        self.extra = extra or {}

    @property
    def key(self):
        return [self.rule, self.func, self.stmt]

    def as_dict(self):
        d = {"rule": self.rule, "function": self.func, "statement": self.stmt,
             "message": self.message, "location": self.loc}
        d.update(self.extra)
        return d


class Ctx:
    def __init__(self, prop, tier, prog, seed=0):
        self.prop = prop
        self.tier = tier
        self.prog = prog
        self.seed = seed
        self.t0 = time.time()
        self.obligations = []  # dicts
        self.findings = []
        self.errors = []
        self.info = {}
        self.assumptions = []
        self.rule_counts = {}
        self.unresolved = []
        self._floors = None

    # ------------------------------------------------------------- obligations
    def ok(self, rule, where, what, detail=None):
        self.rule_counts[rule] = self.rule_counts.get(rule, 0) + 1
        o = {"rule": rule, "where": where, "obligation": what, "status": "discharged"}
        if detail is not None:
            o["detail"] = detail
        self.obligations.append(o)

    def bad(self, rule, func, node, message, what=None, extra=None, module=None, structural=False, robust=False):
        if robust:
            # the evidence comes from a general analysis (effects, purity, name resolution, a counter-example length ...) and
            # names no construct of the reference source: it stands however far the module is from the reference (no gate)
            extra = dict(extra or {})
            extra["robust"] = True
        if isinstance(node, MISSING):
            raise AnalysisError("%s: construct not found (%s)" % (rule, message))
        if structural:
            # the clause describes the idiom the pinned source uses, not behaviour: not meeting it is "cannot decide"
            self.error(rule, "idiom not recognised: %s" % message[:240])
            return None
        """A refuted obligation.  ``func`` is a FunctionInfo/ClassInfo or a string,
        ``node`` the offending AST node (or a string describing the construct)."""
        self.rule_counts[rule] = self.rule_counts.get(rule, 0) + 1
        fname = func if isinstance(func, str) else func.short
        if isinstance(node, str) or node is None:
            stmt = node or ""
            if isinstance(func, str):
                loc = module.rel if module is not None else ""
            else:
                loc = func.loc()
        else:
            if isinstance(node, (ast.FunctionDef, ast.AsyncFunctionDef, ast.ClassDef)):
                stmt = "%s %s" % ("class" if isinstance(node, ast.ClassDef) else "def", node.name)
            elif isinstance(node, (ast.If, ast.While)):
                stmt = "%s %s:" % ("if" if isinstance(node, ast.If) else "while", norm_stmt(node.test))
            elif isinstance(node, (ast.For, ast.AsyncFor)):
                stmt = "for %s in %s:" % (norm_stmt(node.target), norm_stmt(node.iter))
            else:
                stmt = norm_stmt(node)
            if len(stmt) > 300:
                stmt = stmt[:300] + "..."
            loc = func.loc(node) if not isinstance(func, str) else (
                "%s:%d" % (module.rel, getattr(node, "orig_lineno", node.lineno)) if module is not None else "")
        f = Finding(rule, fname, stmt, message, loc, extra)
        f.clause = _clause_id(what or message)
        if not (os.environ.get("PDSA_NO_STRUCTURAL") or os.environ.get("PDSA_RAW")) and (rule, f.clause) in _structural():
            # a clause that has been observed to fail on behaviour-preserving refactorings (benign corpus): its failure says that
            # the idiom changed, not that the property is broken -> "cannot decide", never a violation
            self.error(rule, "idiom-dependent clause not met (cannot decide on this code): %s -- %s" % (f.clause, message[:200]))
            return f
        if any(g.key == f.key and g.message == f.message for g in self.findings):
            return f
        self.findings.append(f)
        self.obligations.append({"rule": rule, "where": loc, "obligation": what or message,
                                 "status": "refuted", "detail": message})
        return f

    def check(self, cond, rule, func, node, what, message=None, detail=None, structural=False, robust=False):
        if isinstance(node, MISSING):
            if not cond:
                raise AnalysisError("%s: construct not found for clause '%s' (%s)" % (rule, what, message or "idiom not recognised"))
            node = node.node
        if cond:
            where = func.loc(node) if (not isinstance(func, str) and node is not None and not isinstance(node, str)) else (
                func.loc() if not isinstance(func, str) else func)
            self.ok(rule, where, what, detail)
        else:
            self.bad(rule, func, node, message or ("not satisfied: " + what), what, structural=structural, robust=robust)
        return bool(cond)

    def error(self, rule, message):
        self.errors.append({"rule": rule, "message": message})

    def rule(self, fn, *args, **kwargs):
        """Run one rule group; an AnalysisError inside it is recorded (exit status 2
        unless a violation is found elsewhere) and the other rule groups still run."""
        try:
            return fn(self, *args, **kwargs)
        except AnalysisError as e:
            self.error(getattr(fn, "__name__", "rule"), str(e))
        except S_Inconclusive as e:
            self.error(getattr(fn, "__name__", "rule"), "inconclusive: %s" % e)
        except RecursionError as e:
            self.error(getattr(fn, "__name__", "rule"), "recursion limit in analysis")
        except (IndexError, KeyError, AttributeError, TypeError, ValueError) as e:
            # a rule that trips over an unexpected construct is an analysis error of that rule only
            import traceback
            self.error(getattr(fn, "__name__", "rule"), "internal error: %r at %s" % (e, traceback.format_exc().strip().splitlines()[-3].strip()))

    def need(self, cond, rule, message):
        if not cond:
            raise AnalysisError("%s: %s" % (rule, message))

    def assume(self, text):
        if text not in self.assumptions:
            self.assumptions.append(text)

    def floor(self, rule, count, minimum=None):
        """A rule matching fewer instances than confirmed by hand cannot pass."""
        if self._floors is None:
            try:
                with open(FLOORS) as f:
                    self._floors = json.load(f)
            except OSError:
                self._floors = {}
        if minimum is None:
            minimum = self._floors.get(rule)
        self.info.setdefault("instance_counts", {})[rule] = {"found": count, "floor": minimum}
        if minimum is not None and count < minimum:
            raise AnalysisError(
                "%s: only %d rule instance(s) found, floor is %d (an anchor vanished or the "
                "rule stopped matching)" % (rule, count, minimum))

    # ------------------------------------------------------------------ output
    def apply_anchor_table(self):
        """pdsa/anchors.json lists, per rule, the local variable names (per function) that the rule reads as anchors
        - found by renaming each local variable in turn (tools/rename_sweep.py).  A finding of a rule one of whose
        anchor names no longer occurs in its function is not a verdict on the code but a lost anchor: it becomes
        an analysis error (exit 2), never a violation."""
        path = os.path.join(os.path.dirname(os.path.abspath(__file__)), "anchors.json")
        if not os.path.exists(path) or not self.findings:
            return
        with open(path) as fh:
            table = json.load(fh)
        names_in = {}

        def idents(q):
            if q not in names_in:
                fi = self.prog.functions.get(q)
                if fi is None:
                    names_in[q] = None
                else:
                    import ast as _ast
                    ids = {x.id for x in _ast.walk(fi.node) if isinstance(x, _ast.Name)} | set(fi.all_param_names())
                    names_in[q] = ids
            return names_in[q]

        keep = []
        lost = {}
        for f in self.findings:
            miss = []
            for ent in table.get(f.rule, []):
                q, nm = ent[0], ent[1]
                cl = ent[2] if len(ent) > 2 else None
                if cl is not None and cl != getattr(f, "clause", ""):
                    continue  # the anchor belongs to another clause of the rule
                ids = idents(q)
                if ids is None or nm not in ids:
                    miss.append("%s:%s" % (q.split("pydrobert.speech.")[-1], nm))
            if miss:
                lost.setdefault(f.rule, set()).update(miss)
            else:
                keep.append(f)
        self.findings = keep
        for rule, miss in sorted(lost.items()):
            self.error(rule, "anchor variable(s) no longer present (%s): the rule cannot decide this clause on the changed code" % ", ".join(sorted(miss)[:6]))

    def apply_distance_gate(self):
        """Findings in a tree one of whose consulted modules has been re-written wholesale (see refdist.py) are "cannot
        decide": the clauses name constructs of the reference source and lose their meaning when those are gone."""
        from . import refdist
        dist = refdist.distances(self.prog)
        mods = set()
        for o in self.obligations:
            w = str(o.get("where", ""))
            if ".py" in w:
                mods.add(w.split(".py")[0] + ".py")
        for f in self.findings:
            if ".py" in str(f.loc):
                mods.add(str(f.loc).split(".py")[0] + ".py")
        far = sorted((m, dist[m]) for m in mods if dist.get(m) is not None and dist[m] > refdist.LIMIT)
        self.info["distance_from_reference"] = {m: dist.get(m) for m in sorted(mods)}
        self.info["distance_limit"] = refdist.LIMIT
        if not far or os.environ.get("PDSA_RAW") or os.environ.get("PDSA_NO_GATE"):
            return
        kept = [f for f in self.findings if f.extra.get("robust")]
        for f in self.findings:
            if f.extra.get("robust"):
                continue
            self.error(f.rule, "cannot decide: %s differ(s) from the reference tree by %s statements (limit %d), the clause '%s' names "
                       "constructs of the reference source -- %s" % (", ".join(m.split("/")[-1] for m, _ in far),
                                                                     "/".join(str(d) for _, d in far), refdist.LIMIT, f.clause[:70], f.message[:160]))
        self.findings = kept

    def postprocess(self):
        self.apply_anchor_table()
        self.apply_distance_gate()

    def finish(self, level, explanation, technique, trusted_base, extra_cov=None,
               checker_cmd=None):
        self.postprocess()
        known = _load_known()
        kf = [k for k in known.get("findings", []) if k.get("property") == self.prop]
        violations = []
        known_hits = []
        for f in self.findings:
            hit = None
            for k in kf:
                if k.get("rule") == f.rule and k.get("function") == f.func and k.get("statement") == f.stmt:
                    hit = k
                    break
            if hit is not None:
                known_hits.append((f, hit))
            else:
                violations.append(f)
        for f, k in known_hits:
            print("KNOWN-FINDING: property=%s %s [%s in %s at %s: %s]" % (
                self.prop, k.get("what", f.message), f.rule, f.func, f.loc, f.stmt))
        status = 0
        replay_paths = []
        if self.errors:
            status = 2
        if violations:
            status = 1
            os.makedirs(REPLAY_DIR, exist_ok=True)
            for i, f in enumerate(violations):
                path = os.path.join(REPLAY_DIR, "%s-%d.json" % (self.prop, i))
                with open(path, "w") as fh:
                    json.dump({"property": self.prop, "tier": self.tier, "finding": f.as_dict(),
                               "key": f.key,
                               "how_to_replay": "./check %s --replay %s" % (self.prop, path)},
                              fh, indent=1)
                replay_paths.append(path)
        n_ob = len(self.obligations)
        n_dis = sum(1 for o in self.obligations if o["status"] == "discharged")
        distinct = len({(o["rule"], o["where"], o["obligation"]) for o in self.obligations})
        samples = self.obligations[:8] + ([o for o in self.obligations if o["status"] != "discharged"][:8])
        cov = {
            "explanation": explanation,
            "technique": technique,
            "evaluations": max(1, n_ob),
            "distinct_nontrivial": max(2, distinct) if distinct >= 2 else distinct,
            "rule": "one evaluation = one static obligation of a rule instance (rule, construct, clause) "
                    "decided on the parsed source; distinct = distinct (rule, location, clause) triples; "
                    "an obligation is non-trivial by construction (it names a construct found in the current tree)",
            "samples": samples if samples else [{"note": "no obligations"}],
            "obligations": n_ob,
            "discharged": n_dis,
            "checker_cmd": checker_cmd or ("./check %s --tier %s" % (self.prop, self.tier)),
            "trusted_base": trusted_base,
            "exhaustive": False,
            "rules": self.rule_counts,
            "files_analysed": self.prog.digests(),
            "functions_in_model": len(self.prog.functions),
            "classes_in_model": len(self.prog.classes),
            "findings": [f.as_dict() for f in violations],
            "known_findings_hit": [f.as_dict() for f, _ in known_hits],
            "analysis_errors": self.errors,
        }
        cov.update(self.info)
        if extra_cov:
            cov.update(extra_cov)
        ev = {
            "property_id": self.prop,
            "tier": self.tier,
            "seed": self.seed,
            "level": level,
            "coverage": cov,
            "assumptions": self.assumptions,
            "wall_s": round(time.time() - self.t0, 3),
            "violations": len(violations),
        }
        os.makedirs(EVIDENCE_DIR, exist_ok=True)
        with open(os.path.join(EVIDENCE_DIR, "%s.json" % self.prop), "w") as fh:
            json.dump(ev, fh, indent=1, default=str)
        for e in self.errors:
            print("ANALYSIS-ERROR property=%s %s: %s" % (self.prop, e["rule"], e["message"]))
        for f, path in zip(violations, replay_paths):
            print("  %s: [%s] %s :: %s -- %s" % (f.loc, f.rule, f.func, f.stmt, f.message))
            print("VIOLATION property=%s replay=%s" % (self.prop, path))
        if status == 0:
            print("PASS property=%s tier=%s obligations=%d discharged=%d known_findings=%d wall=%.2fs" % (
                self.prop, self.tier, n_ob, n_dis, len(known_hits), time.time() - self.t0))
        return status


def _load_known():
    try:
        with open(KNOWN) as f:
            return json.load(f)
    except OSError:
        return {}


def write_error_evidence(prop, tier, seed, message, t0):
    os.makedirs(EVIDENCE_DIR, exist_ok=True)
    ev = {
        "property_id": prop, "tier": tier, "seed": seed, "level": "other",
        "coverage": {"explanation": "analysis could not complete: " + message,
                     "evaluations": 1, "distinct_nontrivial": 0, "samples": [message]},
        "wall_s": round(time.time() - t0, 3), "violations": 0,
    }
    with open(os.path.join(EVIDENCE_DIR, "%s.json" % prop), "w") as fh:
        json.dump(ev, fh, indent=1)
