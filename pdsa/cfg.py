"""Statement-level control-flow graph for the statement kinds the repository uses,
dominators / post-dominators, and a small forward data-flow solver.

Nodes are integers; ``cfg.stmt[n]`` is the AST statement (for compound statements
the node stands for the *header*: the ``if``/``while`` test, the ``for`` iterator,
the ``with`` items).  Edges carry a label: None, 'T', 'F' (branch outcome), 'exc'
(exceptional edge from a statement inside ``try`` to a handler), 'iter'/'done' for
``for`` headers.
"""

import ast


class CFG:
    ENTRY = 0
    EXIT = 1  # normal exit (return / fall off the end)
    RAISE = 2  # exceptional exit (uncaught raise)

    def __init__(self, func_node):
        self.func = func_node
        self.stmt = {0: None, 1: None, 2: None}
        self.kind = {0: "entry", 1: "exit", 2: "raise"}
        self.succ = {0: [], 1: [], 2: []}
        self.pred = {0: [], 1: [], 2: []}
        self._n = 3
        self.node_of = {}  # id(ast stmt) -> node
        self.returns = []  # nodes of return statements
        self.raises = []  # nodes of raise statements
        self.loops = {}  # header node -> set of body nodes
        self._build()

    # -------------------------------------------------------------- construction
    def _new(self, stmt, kind):
        n = self._n
        self._n += 1
        self.stmt[n] = stmt
        self.kind[n] = kind
        self.succ[n] = []
        self.pred[n] = []
        if stmt is not None and id(stmt) not in self.node_of:
            self.node_of[id(stmt)] = n
        return n

    def _edge(self, a, b, label=None):
        if (b, label) not in self.succ[a]:
            self.succ[a].append((b, label))
            self.pred[b].append((a, label))

    def _build(self):
        # frontier: list of (node, label) whose next statement is to be linked
        ctx = {"loop": [], "handlers": [], "finally": []}
        out = self._seq(self.func.body, [(self.ENTRY, None)], ctx)
        for n, l in out:
            self._edge(n, self.EXIT, l)

    def _link(self, frontier, node):
        for n, l in frontier:
            self._edge(n, node, l)

    def _exc_edges(self, node, ctx):
        if ctx["handlers"]:
            for h in ctx["handlers"][-1]:
                self._edge(node, h, "exc")

    def _seq(self, body, frontier, ctx):
        for st in body:
            if not frontier:
                # unreachable code: still build it so that nodes exist
                frontier = []
            frontier = self._stmt(st, frontier, ctx)
        return frontier

    def _stmt(self, st, frontier, ctx):
        if isinstance(st, ast.If):
            n = self._new(st, "if")
            self._link(frontier, n)
            self._exc_edges(n, ctx)
            t = self._seq(st.body, [(n, "T")], ctx)
            if st.orelse:
                f = self._seq(st.orelse, [(n, "F")], ctx)
            else:
                f = [(n, "F")]
            return t + f
        if isinstance(st, ast.While):
            n = self._new(st, "while")
            self._link(frontier, n)
            self._exc_edges(n, ctx)
            brk = []
            ctx["loop"].append((n, brk))
            first = self._n
            body_out = self._seq(st.body, [(n, "T")], ctx)
            ctx["loop"].pop()
            self._link(body_out, n)
            self.loops[n] = set(range(first, self._n))
            const_true = isinstance(st.test, ast.Constant) and bool(st.test.value)
            out = [] if const_true else [(n, "F")]
            if st.orelse:
                out = self._seq(st.orelse, out, ctx)
            return out + brk
        if isinstance(st, (ast.For, ast.AsyncFor)):
            n = self._new(st, "for")
            self._link(frontier, n)
            self._exc_edges(n, ctx)
            brk = []
            ctx["loop"].append((n, brk))
            first = self._n
            body_out = self._seq(st.body, [(n, "iter")], ctx)
            ctx["loop"].pop()
            self._link(body_out, n)
            self.loops[n] = set(range(first, self._n))
            out = [(n, "done")]
            if st.orelse:
                out = self._seq(st.orelse, out, ctx)
            return out + brk
        if isinstance(st, (ast.With, ast.AsyncWith)):
            n = self._new(st, "with")
            self._link(frontier, n)
            self._exc_edges(n, ctx)
            return self._seq(st.body, [(n, None)], ctx)
        if isinstance(st, ast.Try):
            handler_entries = []
            handler_nodes = []
            for h in st.handlers:
                hn = self._new(h, "except")
                handler_entries.append(hn)
                handler_nodes.append((h, hn))
            if st.finalbody:
                ctx["finally"].append(st)
            ctx["handlers"].append(handler_entries)
            body_out = self._seq(st.body, frontier, ctx)
            ctx["handlers"].pop()
            if st.orelse:
                body_out = self._seq(st.orelse, body_out, ctx)
            outs = list(body_out)
            for h, hn in handler_nodes:
                # exceptions inside a handler propagate to the outer handlers
                self._exc_edges(hn, ctx)
                outs += self._seq(h.body, [(hn, None)], ctx)
            if st.finalbody:
                ctx["finally"].pop()
                first = self._n
                outs = self._seq(st.finalbody, outs, ctx)
                # a return/raise routed through finally may leave the function
                if getattr(st, "_routes_exit", False):
                    for n, l in outs:
                        self._edge(n, self.EXIT, l)
                if getattr(st, "_routes_raise", False) or not st.handlers:
                    pass
            return outs
        if isinstance(st, ast.Return):
            n = self._new(st, "return")
            self._link(frontier, n)
            self._exc_edges(n, ctx)
            self.returns.append(n)
            if ctx["finally"]:
                # conservatively: control reaches the function exit (the finally body
                # holds no returns in this repository; its statements are clean-up)
                ctx["finally"][-1]._routes_exit = True
            self._edge(n, self.EXIT)
            return []
        if isinstance(st, ast.Raise):
            n = self._new(st, "raise")
            self._link(frontier, n)
            self.raises.append(n)
            if ctx["handlers"]:
                for h in ctx["handlers"][-1]:
                    self._edge(n, h, "exc")
                # may also escape if no handler matches
                self._edge(n, self.RAISE, "exc")
            else:
                self._edge(n, self.RAISE, "exc")
            return []
        if isinstance(st, ast.Break):
            n = self._new(st, "break")
            self._link(frontier, n)
            if ctx["loop"]:
                ctx["loop"][-1][1].append((n, None))
            return []
        if isinstance(st, ast.Continue):
            n = self._new(st, "continue")
            self._link(frontier, n)
            if ctx["loop"]:
                self._edge(n, ctx["loop"][-1][0])
            return []
        if isinstance(st, (ast.FunctionDef, ast.AsyncFunctionDef, ast.ClassDef)):
            n = self._new(st, "def")
            self._link(frontier, n)
            return [(n, None)]
        if isinstance(st, ast.Assert):
            n = self._new(st, "assert")
            self._link(frontier, n)
            self._exc_edges(n, ctx)
            return [(n, None)]
        # simple statement
        n = self._new(st, "stmt")
        self._link(frontier, n)
        self._exc_edges(n, ctx)
        return [(n, None)]

    # ------------------------------------------------------------------ queries
    def nodes(self):
        return list(self.stmt.keys())

    def node(self, stmt):
        return self.node_of.get(id(stmt))

    def reachable(self, start=None, skip_exc=False):
        start = self.ENTRY if start is None else start
        seen = {start}
        stack = [start]
        while stack:
            n = stack.pop()
            for s, l in self.succ[n]:
                if skip_exc and l == "exc":
                    continue
                if s not in seen:
                    seen.add(s)
                    stack.append(s)
        return seen

    def dominators(self, skip_exc=False):
        """dom[n] = set of nodes dominating n (including n), over reachable nodes."""
        reach = self.reachable(skip_exc=skip_exc)
        order = self._rpo(reach, skip_exc)
        dom = {n: set(reach) for n in reach}
        dom[self.ENTRY] = {self.ENTRY}
        changed = True
        while changed:
            changed = False
            for n in order:
                if n == self.ENTRY:
                    continue
                preds = [p for p, l in self.pred[n]
                         if p in reach and not (skip_exc and l == "exc")]
                if not preds:
                    continue
                new = set.intersection(*(dom[p] for p in preds)) | {n}
                if new != dom[n]:
                    dom[n] = new
                    changed = True
        return dom

    def _rpo(self, reach, skip_exc=False):
        seen = set()
        post = []

        def visit(n):
            stack = [(n, iter(self.succ[n]))]
            seen.add(n)
            while stack:
                node, it = stack[-1]
                for s, l in it:
                    if skip_exc and l == "exc":
                        continue
                    if s in reach and s not in seen:
                        seen.add(s)
                        stack.append((s, iter(self.succ[s])))
                        break
                else:
                    post.append(node)
                    stack.pop()

        visit(self.ENTRY)
        return list(reversed(post))

    def post_dominators(self, exit_node=None):
        """pdom[n] = nodes post-dominating n w.r.t. the normal EXIT (raise exits are
        ignored: paths that end in an uncaught raise do not count)."""
        exit_node = self.EXIT if exit_node is None else exit_node
        # nodes that can reach exit
        can = {exit_node}
        stack = [exit_node]
        while stack:
            n = stack.pop()
            for p, l in self.pred[n]:
                if p not in can:
                    can.add(p)
                    stack.append(p)
        pdom = {n: set(can) for n in can}
        pdom[exit_node] = {exit_node}
        changed = True
        while changed:
            changed = False
            for n in can:
                if n == exit_node:
                    continue
                succs = [s for s, l in self.succ[n] if s in can]
                if not succs:
                    continue
                new = set.intersection(*(pdom[s] for s in succs)) | {n}
                if new != pdom[n]:
                    pdom[n] = new
                    changed = True
        return pdom

    def control_deps(self):
        """cd[n] = set of branch nodes n is control dependent on (normal edges only,
        w.r.t. the normal EXIT)."""
        pdom = self.post_dominators()
        cd = {n: set() for n in self.stmt}
        for b in self.stmt:
            succs = [s for s, l in self.succ[b] if l != "exc"]
            if len(set(succs)) < 2:
                continue
            pb = pdom.get(b, set())
            for s in set(succs):
                for n in pdom.get(s, ()):
                    if n == b or n not in pb:
                        cd[n].add(b)
        return cd

    def paths_avoiding(self, src, dst, avoid, skip_exc=True):
        """Is there a path src ->* dst that passes through no node of ``avoid``
        (src and dst themselves excepted)?"""
        seen = {src}
        stack = [src]
        while stack:
            n = stack.pop()
            for s, l in self.succ[n]:
                if skip_exc and l == "exc":
                    continue
                if s == dst:
                    return True
                if s in avoid or s in seen:
                    continue
                seen.add(s)
                stack.append(s)
        return False

    # ---------------------------------------------------------------- data flow
    def forward(self, init, transfer, join, skip_exc=False, max_iter=10000):
        """Generic forward worklist solver.

        ``transfer(node, state)`` returns either a state (applies to all out-edges)
        or a dict label -> state.  States must support ``==``.  Returns
        (in_state, out_state) with out_state[node] as returned by transfer.
        """
        instate = {self.ENTRY: init}
        outstate = {}
        work = [self.ENTRY]
        it = 0
        while work:
            it += 1
            if it > max_iter:  # pragma: no cover
                raise RuntimeError("data-flow did not converge")
            n = work.pop(0)
            st = instate.get(n)
            if st is None:
                continue
            out = transfer(n, st)
            outstate[n] = out
            for s, l in self.succ[n]:
                if skip_exc and l == "exc":
                    continue
                if isinstance(out, dict) and "__edges__" in out:
                    o = out.get(l, out.get(None))
                else:
                    o = out
                if o is None:
                    continue
                old = instate.get(s)
                new = o if old is None else join(old, o)
                if old is None or new != old:
                    instate[s] = new
                    if s not in work:
                        work.append(s)
        return instate, outstate


def edges_state(**by_label):
    """Helper to build a per-edge transfer result: edges_state(T=s1, F=s2)."""
    d = {"__edges__": True}
    for k, v in by_label.items():
        d[None if k == "default" else k] = v
    return d


def header_exprs(st):
    """Expressions evaluated by the node that stands for statement ``st`` itself
    (compound statements: only the header)."""
    if isinstance(st, (ast.If, ast.While)):
        return [st.test]
    if isinstance(st, (ast.For, ast.AsyncFor)):
        return [st.iter]
    if isinstance(st, (ast.With, ast.AsyncWith)):
        return [it.context_expr for it in st.items]
    if isinstance(st, ast.ExceptHandler):
        return [st.type] if st.type is not None else []
    if isinstance(st, (ast.FunctionDef, ast.AsyncFunctionDef, ast.ClassDef)):
        return []
    if st is None:
        return []
    return [st]


def walk_no_defs(node):
    """ast.walk that does not descend into nested function/class/lambda bodies."""
    stack = [node]
    while stack:
        n = stack.pop()
        yield n
        for c in ast.iter_child_nodes(n):
            if isinstance(c, (ast.FunctionDef, ast.AsyncFunctionDef, ast.ClassDef,
                              ast.Lambda)):
                continue
            stack.append(c)


def header_walk(st):
    for e in header_exprs(st):
        yield from walk_no_defs(e)
