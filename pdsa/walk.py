"""A small evaluator for index-walking code: which elements meet which.

Some routines of the library are correct exactly when a loop of integer index arithmetic pairs the right elements of two
arrays: the STFT frame routine walks a filter's truncated response along the half spectrum, turning round at both ends and
conjugating on the way back.  What matters about such a loop is the multiset of (spectrum bin, conjugated?, filter tap)
pairs it multiplies - a finite object for given sizes - not how the loop is written.  This module reads the loop from the
syntax tree and evaluates it with the checker's own interpreter over integers, booleans, lists and *tagged arrays*
(arrays whose elements are labels, so that slicing, reversing, conjugating and multiplying can be followed exactly).  The
repository's code is never executed; the interpreter knows a small statement and expression vocabulary and raises
``Unsupported`` for anything else, which the caller reports as "cannot decide".

The sizes are swept exhaustively over a small grid (all DFT sizes up to a bound, all start bins and all filter lengths):
the arithmetic of the walk is piecewise linear in those sizes with breakpoints at the half-spectrum boundaries, so errors
show up at small sizes, and a report carries the concrete sizes as the counter-example."""

import ast


class Unsupported(Exception):
    pass


class Arr:
    """1-D array of labels (name, index, conjugated)"""

    def __init__(self, tags):
        self.tags = list(tags)

    def __len__(self):
        return len(self.tags)

    def conj(self):
        return Arr([(n, i, not c) for n, i, c in self.tags])


class Prod:
    """element-wise product of two label arrays"""

    def __init__(self, pairs):
        self.pairs = list(pairs)


class Terms:
    """a sum of products that went through the (element-wise, then summed) non-linearity"""

    def __init__(self, pairs=()):
        self.pairs = list(pairs)


class _Break(Exception):
    pass


class _Continue(Exception):
    pass


class _Return(Exception):
    def __init__(self, v):
        self.v = v


REDUCERS = ("_nonlin_op", "_power", "_mag", "sum", "abs", "absolute", "square", "real", "inner", "vdot", "dot", "norm")


class Interp:
    def __init__(self, env, hooks=None, fuel=200000):
        self.env = dict(env)
        self.hooks = hooks or {}
        self.fuel = fuel
        self.stores = []   # (container text, index value, value)

    # ------------------------------------------------------------ expressions
    def key(self, node):
        parts = []
        while isinstance(node, ast.Attribute):
            parts.append(node.attr)
            node = node.value
        if isinstance(node, ast.Name):
            parts.append(node.id)
            return ".".join(reversed(parts))
        return None

    def ev(self, e):
        self.fuel -= 1
        if self.fuel < 0:
            raise Unsupported("evaluation does not terminate within the step bound")
        m = getattr(self, "e_" + type(e).__name__, None)
        if m is None:
            raise Unsupported("expression %s" % type(e).__name__)
        return m(e)

    def e_Constant(self, e):
        return e.value

    def e_Name(self, e):
        if e.id in self.env:
            return self.env[e.id]
        if e.id in ("True", "False", "None"):
            return {"True": True, "False": False, "None": None}[e.id]
        raise Unsupported("unknown name %s" % e.id)

    def e_Attribute(self, e):
        k = self.key(e)
        if k is not None and k in self.env:
            return self.env[k]
        if e.attr == "size" or e.attr == "shape":
            v = self.ev(e.value)
            if isinstance(v, (Arr, list)):
                return len(v) if e.attr == "size" else (len(v),)
        raise Unsupported("unknown attribute %s" % (k or ast.unparse(e)))

    def e_Tuple(self, e):
        return tuple(self.ev(x) for x in e.elts)

    def e_List(self, e):
        return [self.ev(x) for x in e.elts]

    def e_UnaryOp(self, e):
        v = self.ev(e.operand)
        if isinstance(e.op, ast.Not):
            return not self.truth(v)
        if isinstance(e.op, ast.USub) and isinstance(v, int):
            return -v
        if isinstance(e.op, ast.UAdd) and isinstance(v, int):
            return v
        raise Unsupported("unary %s" % type(e.op).__name__)

    def truth(self, v):
        if isinstance(v, (bool, int)) or v is None:
            return bool(v)
        if isinstance(v, (list, tuple, Arr)):
            return len(v) > 0
        if isinstance(v, Terms):
            raise Unsupported("truth value of an accumulated sum")
        raise Unsupported("truth value of %r" % type(v).__name__)

    def e_BoolOp(self, e):
        last = None
        for x in e.values:
            last = self.ev(x)
            t = self.truth(last)
            if isinstance(e.op, ast.And) and not t:
                return last
            if isinstance(e.op, ast.Or) and t:
                return last
        return last

    def e_IfExp(self, e):
        return self.ev(e.body) if self.truth(self.ev(e.test)) else self.ev(e.orelse)

    def e_Compare(self, e):
        left = self.ev(e.left)
        for op, c in zip(e.ops, e.comparators):
            right = self.ev(c)
            if isinstance(op, (ast.Is, ast.IsNot)):
                r = (left is right) if isinstance(op, ast.Is) else (left is not right)
            else:
                if not all(isinstance(x, (int, bool)) for x in (left, right)):
                    raise Unsupported("comparison of non-integers")
                r = {ast.Lt: left < right, ast.LtE: left <= right, ast.Gt: left > right, ast.GtE: left >= right,
                     ast.Eq: left == right, ast.NotEq: left != right}.get(type(op))
                if r is None:
                    raise Unsupported("comparison %s" % type(op).__name__)
            if not r:
                return False
            left = right
        return True

    def e_BinOp(self, e):
        a, b = self.ev(e.left), self.ev(e.right)
        op = type(e.op)
        if isinstance(a, (int, bool)) and isinstance(b, (int, bool)):
            a, b = int(a), int(b)
            if op is ast.Add:
                return a + b
            if op is ast.Sub:
                return a - b
            if op is ast.Mult:
                return a * b
            if op is ast.FloorDiv and b != 0:
                return a // b
            if op is ast.Mod and b != 0:
                return a % b
            if op is ast.RShift and b >= 0:
                return a >> b
            if op is ast.LShift and 0 <= b < 64:
                return a << b
            if op is ast.BitAnd:
                return a & b
            if op is ast.BitOr:
                return a | b
            raise Unsupported("integer operator %s" % op.__name__)
        if op is ast.Mult and isinstance(a, Arr) and isinstance(b, Arr):
            if len(a) != len(b):
                if len(a) == 1 or len(b) == 1:
                    raise Unsupported("broadcast of a length-1 array")
                raise _ShapeError("operands of lengths %d and %d are multiplied element-wise" % (len(a), len(b)))
            return Prod(zip(a.tags, b.tags))
        if op is ast.Mult and ((isinstance(a, Terms) and isinstance(b, int)) or (isinstance(b, Terms) and isinstance(a, int))):
            return a if isinstance(a, Terms) else b    # a scale factor does not change which elements met
        if op is ast.Add:
            if isinstance(a, Terms) and isinstance(b, Terms):
                return Terms(a.pairs + b.pairs)
            if isinstance(a, Terms) and b == 0:
                return a
            if isinstance(b, Terms) and a == 0:
                return b
        raise Unsupported("operator %s on %s and %s" % (op.__name__, type(a).__name__, type(b).__name__))

    def e_ListComp(self, e):
        if len(e.generators) != 1 or e.generators[0].is_async:
            raise Unsupported("comprehension with several generators")
        g = e.generators[0]
        it = self.ev(g.iter)
        if not isinstance(it, (list, tuple)):
            raise Unsupported("comprehension over %s" % type(it).__name__)
        out = []
        saved = dict(self.env)
        for v in list(it):
            self.assign(g.target, v)
            if all(self.truth(self.ev(c)) for c in g.ifs):
                out.append(self.ev(e.elt))
        for k in [k for k in self.env if k not in saved]:
            del self.env[k]
        return out

    e_GeneratorExp = e_ListComp

    def e_Subscript(self, e):
        v = self.ev(e.value)
        if isinstance(e.slice, ast.Tuple) and len(e.slice.elts) == 2 and isinstance(e.slice.elts[0], ast.Constant) and e.slice.elts[0].value is Ellipsis \
                and isinstance(e.slice.elts[1], ast.Slice) and isinstance(v, Arr):
            # x[..., a:b]: the label array stands for the last axis
            return self.e_Subscript(ast.copy_location(ast.Subscript(value=e.value, slice=e.slice.elts[1], ctx=ast.Load()), e))
        if isinstance(e.slice, ast.Slice):
            lo = None if e.slice.lower is None else self.ev(e.slice.lower)
            hi = None if e.slice.upper is None else self.ev(e.slice.upper)
            st = None if e.slice.step is None else self.ev(e.slice.step)
            for x in (lo, hi, st):
                if x is not None and not isinstance(x, int):
                    raise Unsupported("non-integer slice bound")
            if st == 0:
                raise Unsupported("zero slice step")
            if isinstance(v, Arr):
                return Arr(v.tags[slice(lo, hi, st)])
            if isinstance(v, (list, tuple)):
                return v[slice(lo, hi, st)]
            raise Unsupported("slice of %s" % type(v).__name__)
        i = self.ev(e.slice)
        if isinstance(i, int) and isinstance(v, (list, tuple)):
            if not -len(v) <= i < len(v):
                raise _ShapeError("index %d is outside a sequence of length %d" % (i, len(v)))
            return v[i]
        if isinstance(i, int) and isinstance(v, Arr):
            if not -len(v) <= i < len(v):
                raise _ShapeError("index %d is outside an array of length %d" % (i, len(v)))
            return Arr([v.tags[i]])
        raise Unsupported("subscript")

    def e_Call(self, e):
        f = e.func
        name = f.attr if isinstance(f, ast.Attribute) else (f.id if isinstance(f, ast.Name) else None)
        if name in self.hooks:
            return self.hooks[name](self, e)
        args = [self.ev(a) for a in e.args]
        if isinstance(f, ast.Name) or (isinstance(f, ast.Attribute) and self.key(f.value) in ("np", "numpy", "math", "builtins")):
            if name in ("min", "max", "minimum", "maximum") and len(args) >= 2 and all(isinstance(a, int) for a in args):
                return (min if name.startswith("min") else max)(args)
            if name == "len" and len(args) == 1 and isinstance(args[0], (Arr, list, tuple)):
                return len(args[0])
            if name in ("int", "abs", "bool") and len(args) == 1 and isinstance(args[0], (int, bool)):
                return {"int": int, "abs": abs, "bool": bool}[name](args[0])
            if name == "range" and all(isinstance(a, int) for a in args) and 1 <= len(args) <= 3:
                return list(range(*args))
            if name in ("zip",):
                return list(zip(*args))
            if name in ("list", "tuple") and len(args) == 1 and isinstance(args[0], (list, tuple)):
                return list(args[0]) if name == "list" else tuple(args[0])
            if name == "enumerate" and len(args) == 1:
                return list(enumerate(args[0]))
            if name == "divmod" and len(args) == 2 and all(isinstance(a, int) for a in args) and args[1] != 0:
                return divmod(*args)
        if name == "conj" or name == "conjugate":
            base = self.ev(f.value) if isinstance(f, ast.Attribute) and not args else (args[0] if args else None)
            if isinstance(base, Arr):
                return base.conj()
        if name in REDUCERS or name in ("norm", "clone", "contiguous"):
            cands = list(args)
            if isinstance(f, ast.Attribute) and self.key(f.value) not in ("np", "numpy", "torch", "torch.linalg", "np.linalg", "numpy.linalg", "math"):
                try:
                    cands.insert(0, self.ev(f.value))
                except Unsupported:
                    pass
            for v in cands:
                if isinstance(v, Prod):
                    return Terms(v.pairs) if name not in ("abs", "absolute", "clone", "contiguous") else v
                if isinstance(v, Terms):
                    return v
            if len(cands) >= 2 and all(isinstance(v, Arr) for v in cands[:2]) and name in ("inner", "dot", "vdot"):
                raise Unsupported("a plain (un-moduled) inner product of spectrum and filter")
        if name == "flip" and isinstance(f, ast.Attribute):
            base = self.ev(f.value)
            if isinstance(base, Arr):
                return Arr(base.tags[::-1])
        if name == "append" and isinstance(f, ast.Attribute) and len(args) == 1:
            tgt = self.ev(f.value)
            if isinstance(tgt, list):
                tgt.append(args[0])
                return None
        raise Unsupported("call %s" % ast.unparse(e)[:60])

    # ------------------------------------------------------------ statements
    def run(self, stmts):
        for st in stmts:
            self.fuel -= 1
            if self.fuel < 0:
                raise Unsupported("evaluation does not terminate within the step bound")
            m = getattr(self, "s_" + type(st).__name__, None)
            if m is None:
                raise Unsupported("statement %s" % type(st).__name__)
            m(st)

    def assign(self, t, v):
        if isinstance(t, ast.Name):
            self.env[t.id] = v
        elif isinstance(t, ast.Attribute) and self.key(t) is not None:
            self.env[self.key(t)] = v
        elif isinstance(t, (ast.Tuple, ast.List)):
            if not isinstance(v, (tuple, list)) or len(v) != len(t.elts):
                raise Unsupported("unpacking")
            for x, y in zip(t.elts, v):
                self.assign(x, y)
        elif isinstance(t, ast.Subscript):
            base = self.key(t.value) or ast.unparse(t.value)
            idx = self.ev(t.slice) if not isinstance(t.slice, ast.Slice) else ast.unparse(t.slice)
            self.stores.append((base, idx, v))
            cont = self.env.get(base)
            if isinstance(cont, list) and isinstance(idx, int) and -len(cont) <= idx < len(cont):
                cont[idx] = v
        else:
            raise Unsupported("assignment target %s" % type(t).__name__)

    def s_Assign(self, st):
        v = self.ev(st.value)
        for t in st.targets:
            self.assign(t, v)

    def s_AnnAssign(self, st):
        if st.value is not None:
            self.assign(st.target, self.ev(st.value))

    def s_AugAssign(self, st):
        load = ast.copy_location(ast.BinOp(left=_as_load(st.target), op=st.op, right=st.value), st)
        self.assign(st.target, self.ev(load))

    def s_Expr(self, st):
        if isinstance(st.value, ast.Constant):
            return
        self.ev(st.value)

    def s_Pass(self, st):
        pass

    def s_Assert(self, st):
        if not self.truth(self.ev(st.test)):
            raise _ShapeError("assertion `%s` fails" % ast.unparse(st.test)[:60])

    def s_If(self, st):
        self.run(st.body if self.truth(self.ev(st.test)) else st.orelse)

    def s_While(self, st):
        n = 0
        while self.truth(self.ev(st.test)):
            n += 1
            if n > 200:
                raise _ShapeError("the loop `while %s` does not end" % ast.unparse(st.test)[:50])
            try:
                self.run(st.body)
            except _Break:
                return
            except _Continue:
                continue
        self.run(st.orelse)

    def s_For(self, st):
        it = self.ev(st.iter)
        if not isinstance(it, (list, tuple)):
            raise Unsupported("iteration over %s" % type(it).__name__)
        for v in list(it):
            self.assign(st.target, v)
            try:
                self.run(st.body)
            except _Break:
                return
            except _Continue:
                continue
        self.run(st.orelse)

    def s_Break(self, st):
        raise _Break()

    def s_Continue(self, st):
        raise _Continue()

    def s_Return(self, st):
        raise _Return(None if st.value is None else self.ev(st.value))


class _ShapeError(Exception):
    """the evaluated code itself fails (index out of range, mismatching lengths, endless loop): a definite defect for the sizes at hand"""


ShapeError = _ShapeError


def _as_load(t):
    import copy
    t2 = copy.deepcopy(t)
    for x in ast.walk(t2):
        if hasattr(x, "ctx"):
            x.ctx = ast.Load()
    return t2
