"""NONE - optional-default discipline (DESIGN §1.3).

For every parameter whose default is ``None``: a forward data-flow of its nullness
over the CFG (maybe-None / not-None / None), refined at ``is None`` / ``is not None``
/ truthiness / ``isinstance`` / membership tests and through ``and`` / ``or`` short
circuits.  A *dereference* (arithmetic, ordering comparison, subscript, attribute,
call, iteration, numeric format spec) while the parameter may still be ``None`` is
reported - Engler's check-then-use contradiction.
"""

import ast
import string

from .cfg import CFG, edges_state, header_exprs

MAYBE, NOTNONE, ISNONE = "maybe", "notnone", "none"


def none_params(f):
    out = []
    for p, d in f.defaults.items():
        if isinstance(d, ast.Constant) and d.value is None:
            out.append(p)
    return out


def refine(test, p, state):
    """(state if test true, state if test false); None = infeasible"""
    if isinstance(test, ast.Compare) and len(test.ops) == 1 and isinstance(test.left, ast.Name) and test.left.id == p:
        op, c = test.ops[0], test.comparators[0]
        is_none = isinstance(c, ast.Constant) and c.value is None
        if is_none and isinstance(op, (ast.Is, ast.Eq)):
            return (ISNONE if state != NOTNONE else None, NOTNONE if state != ISNONE else None)
        if is_none and isinstance(op, (ast.IsNot, ast.NotEq)):
            return (NOTNONE if state != ISNONE else None, ISNONE if state != NOTNONE else None)
        if isinstance(op, (ast.In, ast.NotIn)) and isinstance(c, (ast.Set, ast.Tuple, ast.List)):
            has_none = any(isinstance(e, ast.Constant) and e.value is None for e in c.elts)
            if has_none:
                if isinstance(op, ast.NotIn):
                    return (NOTNONE if state != ISNONE else None, state)
                return (state, NOTNONE if state != ISNONE else None)
            else:
                if isinstance(op, ast.In):
                    return (NOTNONE if state != ISNONE else None, state)
                return (state, NOTNONE if state != ISNONE else None)
    if isinstance(test, ast.Name) and test.id == p:
        return (NOTNONE if state != ISNONE else None, state)
    if isinstance(test, ast.UnaryOp) and isinstance(test.op, ast.Not):
        t, f_ = refine(test.operand, p, state)
        return (f_, t)
    if isinstance(test, ast.Call) and isinstance(test.func, ast.Name) and test.func.id == "isinstance" and test.args and \
            isinstance(test.args[0], ast.Name) and test.args[0].id == p:
        return (NOTNONE if state != ISNONE else None, state)
    if isinstance(test, ast.Call) and isinstance(test.func, ast.Name) and test.func.id == "hasattr" and test.args and \
            isinstance(test.args[0], ast.Name) and test.args[0].id == p:
        return (state, state)
    if isinstance(test, ast.BoolOp):
        if isinstance(test.op, ast.And):
            cur = state
            false_states = []
            for v in test.values:
                if cur is None:
                    break
                t, f_ = refine(v, p, cur)
                if f_ is not None:
                    false_states.append(f_)
                cur = t
            fs = _join_all(false_states)
            return (cur, fs)
        else:
            cur = state
            true_states = []
            for v in test.values:
                if cur is None:
                    break
                t, f_ = refine(v, p, cur)
                if t is not None:
                    true_states.append(t)
                cur = f_
            ts = _join_all(true_states)
            return (ts, cur)
    return (state, state)


def _join(a, b):
    if a is None:
        return b
    if b is None:
        return a
    return a if a == b else MAYBE


def _join_all(xs):
    cur = None
    for x in xs:
        cur = _join(cur, x)
    return cur


def _format_numeric_positions(call):
    """positional indices formatted with a numeric presentation type in  '...'.format(...)"""
    if not (isinstance(call.func, ast.Attribute) and call.func.attr == "format" and isinstance(call.func.value, ast.Constant)
            and isinstance(call.func.value.value, str)):
        return set()
    out = set()
    auto = 0
    try:
        for lit, field, spec, conv in string.Formatter().parse(call.func.value.value):
            if field is None:
                continue
            if field == "":
                idx = auto
                auto += 1
            elif field.isdigit():
                idx = int(field)
            else:
                continue
            if spec and spec[-1] in "bcdeEfFgGnoxX%":
                out.add(idx)
    except ValueError:
        return set()
    return out


def derefs(expr, p, state, out):
    """Walk ``expr`` in evaluation order with short-circuit refinement; append
    (node, how) for every dereference of p while it may be None.  Returns nothing."""
    if state is None:
        return

    def use(n):
        return isinstance(n, ast.Name) and n.id == p

    def walk(e, st):
        if st is None or e is None:
            return
        if isinstance(e, ast.BoolOp):
            cur = st
            for v in e.values:
                if cur is None:
                    break
                walk(v, cur)
                t, f_ = refine(v, p, cur)
                cur = t if isinstance(e.op, ast.And) else f_
            return
        if isinstance(e, ast.IfExp):
            walk(e.test, st)
            t, f_ = refine(e.test, p, st)
            walk(e.body, t)
            walk(e.orelse, f_)
            return
        bad = st in (MAYBE, ISNONE)
        if isinstance(e, ast.BinOp):
            if bad and (use(e.left) or use(e.right)):
                out.append((e, "arithmetic on it"))
        elif isinstance(e, ast.UnaryOp) and isinstance(e.op, (ast.USub, ast.UAdd, ast.Invert)):
            if bad and use(e.operand):
                out.append((e, "arithmetic on it"))
        elif isinstance(e, ast.Compare):
            items = [e.left] + list(e.comparators)
            for a, op, b in zip(items, e.ops, items[1:]):
                if isinstance(op, (ast.Lt, ast.LtE, ast.Gt, ast.GtE)) and bad and (use(a) or use(b)):
                    out.append((e, "an ordering comparison"))
        elif isinstance(e, ast.Subscript):
            if bad and use(e.value):
                out.append((e, "subscripting it"))
        elif isinstance(e, ast.Attribute):
            if bad and use(e.value):
                out.append((e, "attribute access .%s" % e.attr))
        elif isinstance(e, ast.Call):
            if bad and use(e.func):
                out.append((e, "calling it"))
            if bad and isinstance(e.func, ast.Name) and e.func.id in ("len", "iter", "int", "float", "abs", "round", "sum", "min", "max", "sorted", "tuple", "list", "set", "dict") \
                    and len(e.args) == 1 and use(e.args[0]) and e.func.id not in ("tuple", "list", "set", "dict"):
                out.append((e, "%s() of it" % e.func.id))
            if bad and isinstance(e.func, ast.Name) and e.func.id in ("min", "max") and len(e.args) > 1 and any(use(a) for a in e.args):
                out.append((e, "%s() with it" % e.func.id))
            pos = _format_numeric_positions(e)
            for i in pos:
                if bad and i < len(e.args) and use(e.args[i]):
                    out.append((e, "formatting it with a numeric format spec"))
        elif isinstance(e, (ast.ListComp, ast.GeneratorExp, ast.SetComp, ast.DictComp)):
            for g in e.generators:
                if bad and use(g.iter):
                    out.append((e, "iterating over it"))
        elif isinstance(e, ast.Starred):
            if bad and use(e.value):
                out.append((e, "unpacking it"))
        for c in ast.iter_child_nodes(e):
            if isinstance(c, (ast.FunctionDef, ast.AsyncFunctionDef, ast.ClassDef, ast.Lambda)):
                continue
            if isinstance(c, ast.expr) or isinstance(c, (ast.keyword, ast.comprehension, ast.Slice)):
                walk(c, st)

    walk(expr, state)


def analyse(f, p):
    """Findings [(stmt, node, how)] for parameter p of function f, plus whether p is
    ever tested / defaulted (i.e. the function treats it as optional)."""
    cfg = CFG(f.node)
    findings = []
    seen = set()

    def transfer(n, state):
        st = cfg.stmt[n]
        if st is None:
            return state
        out = []
        if isinstance(st, (ast.If, ast.While)):
            derefs(st.test, p, state, out)
        elif isinstance(st, (ast.For, ast.AsyncFor)):
            if isinstance(st.iter, ast.Name) and st.iter.id == p and state in (MAYBE, ISNONE):
                out.append((st.iter, "iterating over it"))
            derefs(st.iter, p, state, out)
        elif isinstance(st, (ast.With, ast.AsyncWith)):
            for it in st.items:
                derefs(it.context_expr, p, state, out)
        elif isinstance(st, ast.AugAssign):
            if isinstance(st.target, ast.Name) and st.target.id == p and state in (MAYBE, ISNONE):
                out.append((st, "augmented arithmetic on it"))
            if isinstance(st.value, ast.Name) and st.value.id == p and state in (MAYBE, ISNONE):
                out.append((st, "augmented arithmetic with it"))
            derefs(st.value, p, state, out)
            if isinstance(st.target, ast.Subscript):
                derefs(st.target, p, state, out)
        elif isinstance(st, (ast.FunctionDef, ast.AsyncFunctionDef, ast.ClassDef, ast.ExceptHandler)):
            pass
        else:
            for c in ast.iter_child_nodes(st):
                if isinstance(c, ast.expr):
                    derefs(c, p, state, out)
        for node, how in out:
            k = (n, id(node))
            if k not in seen:
                seen.add(k)
                findings.append((st, node, how))
        # assignment to p
        new = state
        if isinstance(st, ast.Assign):
            for t in st.targets:
                if isinstance(t, ast.Name) and t.id == p:
                    v = st.value
                    if isinstance(v, ast.Constant) and v.value is None:
                        new = ISNONE
                    elif isinstance(v, (ast.Constant, ast.Call, ast.BinOp, ast.List, ast.Tuple, ast.Dict, ast.Set, ast.Attribute, ast.Subscript,
                                        ast.JoinedStr, ast.ListComp, ast.UnaryOp, ast.Compare)):
                        new = NOTNONE
                    elif isinstance(v, ast.Name):
                        new = MAYBE if v.id in none_params(f) else NOTNONE
                    elif isinstance(v, ast.IfExp):
                        new = MAYBE if any(isinstance(x, ast.Constant) and x.value is None for x in (v.body, v.orelse)) else NOTNONE
                    else:
                        new = MAYBE
            for t in st.targets:
                if isinstance(t, (ast.Tuple, ast.List)) and any(isinstance(x, ast.Name) and x.id == p for x in ast.walk(t)):
                    new = NOTNONE
        elif isinstance(st, ast.AugAssign) and isinstance(st.target, ast.Name) and st.target.id == p:
            new = NOTNONE
        elif isinstance(st, (ast.For, ast.AsyncFor)):
            if any(isinstance(t, ast.Name) and t.id == p for t in ast.walk(st.target)):
                new = MAYBE
        if isinstance(st, (ast.If, ast.While)):
            t, f_ = refine(st.test, p, new)
            return edges_state(T=t, F=f_, default=new, exc=new)
        if isinstance(st, ast.Assert):
            t, f_ = refine(st.test, p, new)
            return t if t is not None else new
        return new

    def join(a, b):
        return _join(a, b)

    cfg.forward(MAYBE, transfer, join, skip_exc=False)
    tested = False
    for n in f.body_nodes():
        if isinstance(n, ast.Compare) and isinstance(n.left, ast.Name) and n.left.id == p and \
                any(isinstance(c, ast.Constant) and c.value is None for c in n.comparators):
            tested = True
        if isinstance(n, ast.Compare) and isinstance(n.left, ast.Name) and n.left.id == p and any(isinstance(o, (ast.In, ast.NotIn)) for o in n.ops):
            tested = True
        if isinstance(n, (ast.If, ast.IfExp, ast.While)) and isinstance(n.test, ast.Name) and n.test.id == p:
            tested = True
        if isinstance(n, ast.BoolOp) and any(isinstance(v, ast.Name) and v.id == p for v in n.values):
            tested = True
        if isinstance(n, ast.Call) and isinstance(n.func, ast.Name) and n.func.id == "isinstance" and n.args and isinstance(n.args[0], ast.Name) and n.args[0].id == p:
            tested = True
    return findings, tested
