"""./check <property> [--tier quick|thorough] [--replay <file>] [--repo <dir>]"""

import argparse
import importlib
import json
import os
import sys
import time
import traceback

from . import report
from .model import AnalysisError, Program

PROPS = ["C%02d" % i for i in range(1, 21)]

TRUSTED = [
    "CPython's ast parser",
    "the engine's API-contract table for NumPy/torch/stdlib calls (result dtype, length, fresh-vs-view, struct signedness)",
    "the specification tables in pdsa/spec.py (transcribed from the property statements, docstrings and cited publications)",
    "exact rational arithmetic of the fractions module (and 60-digit decimal for log/exp witnesses)",
]


def run_property(prop, tier, repo=None, seed=0, selftest=True):
    t0 = time.time()
    try:
        prog = Program(repo)
        ctx = report.Ctx(prop, tier, prog, seed)
        mod = importlib.import_module("pdsa.rules.%s" % prop.lower())
        try:
            mod.run(ctx)
        except AnalysisError as e:
            ctx.error("analysis", str(e))
        if tier == "thorough":
            if hasattr(mod, "widen"):
                mod.widen(ctx)
            if selftest and repo is None:
                from . import mutants

                mutants.selftest(ctx, prop)
        return ctx.finish(
            level=getattr(mod, "LEVEL", "other"),
            explanation=mod.EXPLANATION,
            technique=mod.TECHNIQUE,
            trusted_base=TRUSTED + list(getattr(mod, "TRUSTED", [])),
        ), ctx
    except AnalysisError as e:
        print("ANALYSIS-ERROR property=%s %s" % (prop, e))
        report.write_error_evidence(prop, tier, seed, str(e), t0)
        return 2, None
    except Exception as e:  # a crash of the checker is never a violation
        traceback.print_exc()
        print("ANALYSIS-ERROR property=%s internal error: %r" % (prop, e))
        report.write_error_evidence(prop, tier, seed, "internal error: %r" % (e,), t0)
        return 2, None


def main(argv=None):
    ap = argparse.ArgumentParser(prog="check")
    ap.add_argument("property")
    ap.add_argument("--tier", default=os.environ.get("VERIF_TIER") or "quick",
                    choices=["quick", "thorough"])
    ap.add_argument("--replay", default=None)
    ap.add_argument("--repo", default=None, help="analyse another tree (self-tests)")
    ap.add_argument("--json", action="store_true", help="print findings as JSON (self-tests)")
    args = ap.parse_args(argv)
    prop = args.property.upper()
    if prop not in PROPS:
        print("unknown property %s" % prop)
        return 2
    seed = int(os.environ.get("VERIF_SEED", "0") or 0)
    if args.repo:
        # analysis of a scratch tree: no evidence, no replay files, findings on stdout
        try:
            prog = Program(args.repo)
            ctx = report.Ctx(prop, args.tier, prog, seed)
            mod = importlib.import_module("pdsa.rules.%s" % prop.lower())
            ctx = report.Ctx(prop, args.tier, prog, seed)
            try:
                mod.run(ctx)
            except AnalysisError as e:
                ctx.error("analysis", str(e))
            if not os.environ.get("PDSA_NO_ANCHOR_TABLE"):
                ctx.apply_anchor_table()
            ctx.apply_distance_gate()
            out = {"findings": [f.as_dict() for f in ctx.findings], "errors": ctx.errors,
                   "obligations": len(ctx.obligations)}
        except AnalysisError as e:
            out = {"findings": [], "errors": [{"rule": "analysis", "message": str(e)}], "obligations": 0}
        except Exception as e:
            out = {"findings": [], "errors": [{"rule": "internal", "message": repr(e) + traceback.format_exc()}], "obligations": 0}
        print(json.dumps(out))
        return 0
    if args.replay:
        with open(args.replay) as f:
            rp = json.load(f)
        status, ctx = run_property(prop, "quick", selftest=False)
        if ctx is None:
            return 2
        still = [f for f in ctx.findings if f.key == rp.get("key")]
        if still:
            print("REPLAY: finding still present: %s" % json.dumps(still[0].as_dict()))
            return 1
        print("REPLAY: finding no longer present")
        return 0
    status, _ = run_property(prop, args.tier, seed=seed)
    return status


if __name__ == "__main__":
    sys.exit(main())
