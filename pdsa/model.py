"""Program model: modules, classes (with C3 MRO), functions, symbol resolution.

Built from /repo's working tree on every run.  Nothing is imported or executed.
"""

import ast
import hashlib
import os

from . import REPO, PKG_REL

PKG = "pydrobert.speech"


class AnalysisError(Exception):
    """The analysis itself cannot proceed (anchor vanished, unresolved construct,
    expression outside a decidable fragment).  Mapped to exit status 2."""


def unparse(node):
    if node is None:
        return "None"
    if isinstance(node, list):
        return "; ".join(unparse(n) for n in node)
    try:
        return ast.unparse(node)
    except Exception:  # pragma: no cover
        return ast.dump(node)


def norm_stmt(node):
    """Normalised one-line text of a statement/expression (used in finding keys)."""
    txt = unparse(node)
    return " ".join(txt.split())


class FunctionInfo:
    def __init__(self, node, module, cls=None, parent=None):
        self.node = node
        self.name = node.name
        self.module = module
        self.cls = cls
        self.parent = parent  # enclosing FunctionInfo for nested functions
        self.nested = {}
        if parent is not None:
            self.qualname = parent.qualname + ".<locals>." + node.name
        elif cls is not None:
            self.qualname = cls.qualname + "." + node.name
        else:
            self.qualname = module.name + "." + node.name
        a = node.args
        self.posonly = [x.arg for x in a.posonlyargs]
        self.params = [x.arg for x in a.posonlyargs + a.args]
        self.kwonly = [x.arg for x in a.kwonlyargs]
        self.vararg = a.vararg.arg if a.vararg else None
        self.kwarg = a.kwarg.arg if a.kwarg else None
        self.defaults = {}
        pos = a.posonlyargs + a.args
        for arg, d in zip(pos[len(pos) - len(a.defaults):], a.defaults):
            self.defaults[arg.arg] = d
        for arg, d in zip(a.kwonlyargs, a.kw_defaults):
            if d is not None:
                self.defaults[arg.arg] = d
        self.annotations = {
            x.arg: x.annotation
            for x in a.posonlyargs + a.args + a.kwonlyargs
            if x.annotation is not None
        }
        self.returns = node.returns
        self.decorators = [unparse(d) for d in node.decorator_list]

    @property
    def short(self):
        """Name relative to the package, e.g. compute.STFT.finalize"""
        q = self.qualname
        if q.startswith(PKG + "."):
            q = q[len(PKG) + 1:]
        return q

    @property
    def is_property(self):
        return any(
            d in ("property", "abc.abstractproperty") or d.endswith(".setter")
            for d in self.decorators
        )

    @property
    def is_abstract(self):
        return any(
            d in ("abc.abstractmethod", "abc.abstractproperty", "abstractmethod",
                  "abstractproperty")
            for d in self.decorators
        )

    @property
    def is_classmethod(self):
        return "classmethod" in self.decorators

    @property
    def is_staticmethod(self):
        return "staticmethod" in self.decorators

    def loc(self, node=None):
        node = node or self.node
        return "%s:%d" % (self.module.rel, getattr(node, "orig_lineno", getattr(node, "lineno", 0)))

    def all_param_names(self):
        names = list(self.params) + list(self.kwonly)
        if self.vararg:
            names.append(self.vararg)
        if self.kwarg:
            names.append(self.kwarg)
        return names

    def body_nodes(self):
        """All AST nodes of the body, not descending into nested defs/classes."""
        out = []
        stack = list(reversed(self.node.body))
        while stack:
            n = stack.pop()
            out.append(n)
            if isinstance(n, (ast.FunctionDef, ast.AsyncFunctionDef, ast.ClassDef, ast.Lambda)):
                continue  # a nested definition is a node of this body, its own body is not
            for c in reversed(list(ast.iter_child_nodes(n))):
                if isinstance(c, (ast.FunctionDef, ast.AsyncFunctionDef, ast.ClassDef,
                                  ast.Lambda)):
                    continue
                stack.append(c)
        return out

    def __repr__(self):
        return "<Function %s>" % self.qualname


class ClassInfo:
    def __init__(self, node, module, parent_func=None):
        self.node = node
        self.name = node.name
        self.module = module
        self.parent_func = parent_func
        if parent_func is not None:
            self.qualname = parent_func.qualname + ".<locals>." + node.name
        else:
            self.qualname = module.name + "." + node.name
        self.methods = {}
        self.attrs = {}  # class-level simple assignments: name -> value node
        self.ann = {}  # class-level annotations: name -> annotation node
        self.base_exprs = list(node.bases)
        self.bases = []  # resolved ClassInfo or dotted external names (str)

    @property
    def short(self):
        q = self.qualname
        if q.startswith(PKG + "."):
            q = q[len(PKG) + 1:]
        return q

    def loc(self, node=None):
        node = node or self.node
        return "%s:%d" % (self.module.rel, getattr(node, "orig_lineno", getattr(node, "lineno", 0)))

    def __repr__(self):
        return "<Class %s>" % self.qualname


class Module:
    def __init__(self, name, path, rel):
        self.name = name
        self.path = path
        self.rel = rel
        with open(path, "rb") as f:
            raw = f.read()
        self.sha256 = hashlib.sha256(raw).hexdigest()
        self.source = raw.decode("utf-8")
        self.lines = self.source.splitlines()
        try:
            self.tree = ast.parse(self.source, filename=path)
        except SyntaxError as e:  # pragma: no cover
            raise AnalysisError("cannot parse %s: %s" % (rel, e))
        # locals that were merely renamed get their reference names back (alpha-equivalent program, see alpha.py)
        from . import alpha
        self.alpha_stripped_logging = alpha.strip_new_pure_logging(self.tree, rel)
        self.alpha_moved_constants = alpha.inline_new_module_constants(self.tree, name, os.path.dirname(path))
        self.tree = alpha.normalise_shape(self.tree)
        self.alpha_renames = alpha.normalise(self.tree, name)
        self.alpha_new_params = alpha.new_params_as_defaults(self.tree, name)
        self.alpha_index_loops = alpha.restore_index_loops(self.tree, name)
        from . import refdist
        self.stmts_before_unextraction = refdist.statements(self.tree)
        self.alpha_unextracted = alpha.inline_new_helpers(self.tree, name)
        self.alpha_tables = alpha.inline_new_tables(self.tree, name)
        self.alpha_inlined = alpha.inline_new_temps(self.tree, name)
        alpha.slice_calls_as_slices(self.tree)
        ast.fix_missing_locations(self.tree)
        self.alpha_reordered = alpha.restore_operand_order(self.tree, name)
        self.alpha_call_shapes = alpha.restore_call_shapes(self.tree, name)
        self.alpha_attr_renames = alpha.normalise_attrs(self.tree, name)
        self.bindings = {}  # name -> ('import', dotted) | ('func', F) | ('class', C) | ('assign', node)
        self.functions = {}
        self.classes = {}
        self.assigns = {}  # name -> list of value nodes (module level, any nesting)
        self.is_package = os.path.basename(path) == "__init__.py"

    def segment(self, node):
        return ast.get_source_segment(self.source, node)

    def __repr__(self):
        return "<Module %s>" % self.name


def _module_level_statements(body):
    """Yield statements at module level, descending into try/if/with bodies."""
    for st in body:
        yield st
        if isinstance(st, ast.Try):
            yield from _module_level_statements(st.body)
            for h in st.handlers:
                yield from _module_level_statements(h.body)
            yield from _module_level_statements(st.orelse)
            yield from _module_level_statements(st.finalbody)
        elif isinstance(st, ast.If):
            yield from _module_level_statements(st.body)
            yield from _module_level_statements(st.orelse)
        elif isinstance(st, ast.With):
            yield from _module_level_statements(st.body)


class Program:
    def __init__(self, repo=None):
        self.repo = repo or REPO
        self.pkg_dir = os.path.join(self.repo, PKG_REL)
        if not os.path.isdir(self.pkg_dir):
            raise AnalysisError("package directory %s not found" % self.pkg_dir)
        self.modules = {}
        self.classes = {}  # qualname -> ClassInfo
        self.functions = {}  # qualname -> FunctionInfo
        for fn in sorted(os.listdir(self.pkg_dir)):
            if not fn.endswith(".py"):
                continue
            path = os.path.join(self.pkg_dir, fn)
            base = fn[:-3]
            name = PKG if base == "__init__" else PKG + "." + base
            rel = os.path.join(PKG_REL, fn)
            self.modules[name] = Module(name, path, rel)
        for m in self.modules.values():
            self._index_module(m)
        for c in list(self.classes.values()):
            self._resolve_bases(c)
        self._mro_cache = {}

    # ------------------------------------------------------------------ indexing
    def _abs_import(self, module, level, target):
        if level == 0:
            return target or ""
        parts = module.name.split(".")
        if not module.is_package:
            parts = parts[:-1]
        if level > 1:
            parts = parts[: len(parts) - (level - 1)]
        base = ".".join(parts)
        if target:
            return base + "." + target if base else target
        return base

    def _index_function(self, node, module, cls=None, parent=None):
        f = FunctionInfo(node, module, cls, parent)
        self.functions[f.qualname] = f
        for sub in f.body_nodes():
            pass
        # nested defs (direct children in any nested statement, not inside other defs)
        stack = list(node.body)
        while stack:
            n = stack.pop()
            if isinstance(n, (ast.FunctionDef, ast.AsyncFunctionDef)):
                nf = self._index_function(n, module, None, f)
                f.nested[n.name] = nf
                continue
            if isinstance(n, ast.ClassDef):
                c = self._index_class(n, module, f)
                f.nested[n.name] = c
                continue
            if isinstance(n, ast.Lambda):
                continue
            stack.extend(ast.iter_child_nodes(n))
        return f

    def _index_class(self, node, module, parent_func=None):
        c = ClassInfo(node, module, parent_func)
        self.classes[c.qualname] = c
        for st in node.body:
            if isinstance(st, (ast.FunctionDef, ast.AsyncFunctionDef)):
                f = self._index_function(st, module, c)
                # keep the getter for properties (setter shares the name)
                if st.name in c.methods and any(
                    unparse(d).endswith(".setter") for d in st.decorator_list
                ):
                    continue
                c.methods[st.name] = f
            elif isinstance(st, ast.Assign):
                for t in st.targets:
                    if isinstance(t, ast.Name):
                        c.attrs[t.id] = st.value
            elif isinstance(st, ast.AnnAssign) and isinstance(st.target, ast.Name):
                c.ann[st.target.id] = st.annotation
                if st.value is not None:
                    c.attrs[st.target.id] = st.value
        return c

    def _index_module(self, m):
        for st in _module_level_statements(m.tree.body):
            if isinstance(st, ast.Import):
                for a in st.names:
                    if a.asname:
                        m.bindings[a.asname] = ("import", a.name)
                    else:
                        top = a.name.split(".")[0]
                        m.bindings[top] = ("import", top)
            elif isinstance(st, ast.ImportFrom):
                base = self._abs_import(m, st.level, st.module)
                for a in st.names:
                    m.bindings.setdefault(
                        a.asname or a.name, ("import", (base + "." + a.name) if base else a.name)
                    )
            elif isinstance(st, (ast.FunctionDef, ast.AsyncFunctionDef)):
                f = self._index_function(st, m)
                m.functions.setdefault(st.name, f)
                m.bindings.setdefault(st.name, ("func", f))
            elif isinstance(st, ast.ClassDef):
                c = self._index_class(st, m)
                m.classes[st.name] = c
                m.bindings[st.name] = ("class", c)
            elif isinstance(st, ast.Assign):
                for t in st.targets:
                    for name in _target_names(t):
                        m.assigns.setdefault(name, []).append(st.value)
                        m.bindings.setdefault(name, ("assign", st.value))
            elif isinstance(st, ast.AnnAssign) and isinstance(st.target, ast.Name):
                if st.value is not None:
                    m.assigns.setdefault(st.target.id, []).append(st.value)
                    m.bindings.setdefault(st.target.id, ("assign", st.value))

    def _resolve_bases(self, c):
        c.bases = []
        for b in c.base_exprs:
            r = self.resolve(c.module, b, func=c.parent_func)
            c.bases.append(r if r is not None else unparse(b))

    # ---------------------------------------------------------------- resolution
    def dotted(self, node):
        """Dotted source name of a Name/Attribute chain, or None."""
        parts = []
        while isinstance(node, ast.Attribute):
            parts.append(node.attr)
            node = node.value
        if isinstance(node, ast.Name):
            parts.append(node.id)
            return ".".join(reversed(parts))
        return None

    def qualify(self, module, node, func=None):
        """Absolute dotted name of a Name/Attribute chain resolved through the
        module's imports and aliases, e.g. ``np.fft.rfft`` -> ``numpy.fft.rfft``,
        ``config.LOG_FLOOR_VALUE`` -> ``pydrobert.speech.config.LOG_FLOOR_VALUE``.
        Returns None when the head is a local/unknown name."""
        d = self.dotted(node) if not isinstance(node, str) else node
        if d is None:
            return None
        head, _, rest = d.partition(".")
        # locals of enclosing functions shadow module names
        f = func
        while f is not None:
            if head in f.nested:
                n = f.nested[head]
                return n.qualname + ("." + rest if rest else "")
            li = self._local_imports(f)
            if head in li:
                full = li[head] + ("." + rest if rest else "")
                return self._canon(full)
            if head in f.all_param_names() or head in _assigned_names(f):
                return None
            f = f.parent
        seen = set()
        cur = module
        while True:
            b = cur.bindings.get(head)
            if b is None:
                return None
            kind, val = b
            if kind == "import":
                q = val
            elif kind in ("func", "class"):
                q = val.qualname
            else:  # module-level alias: follow Name/Attribute values only
                if isinstance(val, (ast.Name, ast.Attribute)) and (cur.name, head) not in seen:
                    seen.add((cur.name, head))
                    q2 = self.qualify(cur, val)
                    if q2 is not None:
                        q = q2
                    else:
                        q = cur.name + "." + head
                else:
                    q = cur.name + "." + head
            break
        full = q + ("." + rest if rest else "")
        return self._canon(full)

    def _local_imports(self, f):
        cache = getattr(f, "_limports", None)
        if cache is not None:
            return cache
        out = {}
        for n in f.body_nodes():
            if isinstance(n, ast.Import):
                for a in n.names:
                    if a.asname:
                        out[a.asname] = a.name
                    else:
                        top = a.name.split(".")[0]
                        out[top] = top
            elif isinstance(n, ast.ImportFrom):
                base = self._abs_import(f.module, n.level, n.module)
                for a in n.names:
                    out[a.asname or a.name] = (base + "." + a.name) if base else a.name
        f._limports = out
        return out

    def _canon(self, full):
        """Follow re-exports inside the package: a.b.C where a.b is a package module
        binding C by import/alias."""
        for _ in range(8):
            parts = full.split(".")
            changed = False
            for i in range(len(parts) - 1, 0, -1):
                modname = ".".join(parts[:i])
                m = self.modules.get(modname)
                if m is None:
                    continue
                name = parts[i]
                rest = parts[i + 1:]
                b = m.bindings.get(name)
                if b is None:
                    break
                kind, val = b
                if kind == "import":
                    nf = ".".join([val] + rest)
                    if nf != full:
                        full = nf
                        changed = True
                elif kind == "assign" and isinstance(val, (ast.Name, ast.Attribute)):
                    q2 = self.qualify(m, val)
                    if q2 is not None:
                        nf = ".".join([q2] + rest)
                        if nf != full:
                            full = nf
                            changed = True
                break
            if not changed:
                break
        if full.startswith("np."):
            full = "numpy." + full[3:]
        return full

    def resolve(self, module, node, func=None):
        """Resolve a Name/Attribute chain to ClassInfo / FunctionInfo / Module if it
        denotes one inside the package, else None."""
        q = self.qualify(module, node, func)
        if q is None:
            return None
        return self.lookup(q)

    def lookup(self, q):
        if q in self.classes:
            return self.classes[q]
        if q in self.functions:
            return self.functions[q]
        if q in self.modules:
            return self.modules[q]
        # method of a class: pkg.mod.Class.meth
        head, _, last = q.rpartition(".")
        if head in self.classes:
            return self.find_method(self.classes[head], last)
        return None

    # ------------------------------------------------------------ class hierarchy
    def mro(self, c):
        if c.qualname in self._mro_cache:
            return self._mro_cache[c.qualname]
        seqs = []
        for b in c.bases:
            if isinstance(b, ClassInfo):
                seqs.append(list(self.mro(b)))
        seqs.append([b for b in c.bases if isinstance(b, ClassInfo)])
        res = [c]
        seqs = [s for s in seqs if s]
        while seqs:
            for s in seqs:
                cand = s[0]
                if not any(cand in t[1:] for t in seqs):
                    break
            else:  # pragma: no cover
                raise AnalysisError("inconsistent MRO for %s" % c.qualname)
            res.append(cand)
            seqs = [[x for x in s if x is not cand] for s in seqs]
            seqs = [s for s in seqs if s]
        self._mro_cache[c.qualname] = res
        return res

    def external_bases(self, c):
        out = []
        for k in self.mro(c):
            out.extend(b for b in k.bases if isinstance(b, str))
        return out

    def is_subclass(self, c, base):
        return base in self.mro(c)

    def subclasses(self, base, strict=False):
        out = []
        for c in self.classes.values():
            if base in self.mro(c) and not (strict and c is base):
                out.append(c)
        out.sort(key=lambda c: (c.module.name, c.node.lineno))
        return out

    def direct_subclasses(self, base):
        """Direct subclasses in definition order per module (module order unknown
        across modules: sorted by module name, callers must not depend on it)."""
        out = [c for c in self.classes.values() if base in c.bases]
        out.sort(key=lambda c: (c.module.name, c.node.lineno))
        return out

    def find_method(self, c, name):
        for k in self.mro(c):
            if name in k.methods:
                return k.methods[name]
        return None

    def find_class_attr(self, c, name):
        for k in self.mro(c):
            if name in k.attrs:
                return k, k.attrs[name]
        return None, None

    def abstract_methods(self, c):
        """Names still abstract in class c (through the MRO)."""
        names = {}
        for k in reversed(self.mro(c)):
            for n, f in k.methods.items():
                names[n] = f.is_abstract
        return sorted(n for n, a in names.items() if a)

    def is_concrete(self, c):
        return not self.abstract_methods(c)

    def has_attr_in_family(self, c, attr):
        """True iff some class in c's hierarchy (its MRO or any subclass's MRO)
        defines attr as method/property/class attr/annotation or assigns self.attr."""
        fam = set(self.mro(c))
        for s in self.subclasses(c):
            fam.update(self.mro(s))
        for k in fam:
            if attr in k.methods or attr in k.attrs or attr in k.ann:
                return True
            if attr in self.instance_attrs(k):
                return True
        return False

    def instance_attrs(self, c):
        """Names assigned as self.<name> anywhere in the class's own methods."""
        cache = getattr(c, "_inst_attrs", None)
        if cache is not None:
            return cache
        out = {}
        for f in c.methods.values():
            if not f.params:
                continue
            selfname = f.params[0]
            for n in f.body_nodes():
                targets = []
                if isinstance(n, ast.Assign):
                    targets = n.targets
                elif isinstance(n, (ast.AugAssign, ast.AnnAssign)):
                    targets = [n.target]
                for t in targets:
                    for a in _attr_targets(t):
                        if isinstance(a.value, ast.Name) and a.value.id == selfname:
                            out.setdefault(a.attr, []).append((f, n))
        c._inst_attrs = out
        return out

    # ------------------------------------------------------------------- lookups
    def module(self, short):
        name = PKG if short in ("", "__init__") else PKG + "." + short
        m = self.modules.get(name)
        if m is None:
            raise AnalysisError("module %s not found" % name)
        return m

    def cls(self, short):
        """'compute.ShortTimeFourierTransformFrameComputer' or alias names."""
        modshort, _, name = short.rpartition(".")
        m = self.module(modshort)
        r = self.resolve(m, ast.parse(name, mode="eval").body)
        if not isinstance(r, ClassInfo):
            raise AnalysisError("class %s not found" % short)
        return r

    def func(self, short):
        """'compute.frame_by_frame_calculation', 'compute.STFTFrameComputer.finalize',
        'util.read_signal'."""
        parts = short.split(".")
        m = self.module(parts[0])
        if len(parts) == 2:
            b = m.bindings.get(parts[1])
            if b and b[0] == "func":
                return b[1]
            r = self.resolve(m, ast.parse(parts[1], mode="eval").body)
            if isinstance(r, FunctionInfo):
                return r
            raise AnalysisError("function %s not found" % short)
        if len(parts) == 3:
            c = self.cls(parts[0] + "." + parts[1])
            f = self.find_method(c, parts[2])
            if f is None:
                raise AnalysisError("method %s not found" % short)
            return f
        raise AnalysisError("bad function reference %s" % short)

    def own_method(self, c, name):
        f = c.methods.get(name)
        if f is None:
            raise AnalysisError("%s does not define %s" % (c.short, name))
        return f

    def nested(self, f, name):
        n = f.nested.get(name)
        if n is None:
            raise AnalysisError("%s has no nested %s" % (f.short, name))
        return n

    def digests(self):
        return {m.rel: m.sha256 for m in self.modules.values()}


def _target_names(t):
    if isinstance(t, ast.Name):
        yield t.id
    elif isinstance(t, (ast.Tuple, ast.List)):
        for e in t.elts:
            yield from _target_names(e)
    elif isinstance(t, ast.Starred):
        yield from _target_names(t.value)


def _attr_targets(t):
    if isinstance(t, ast.Attribute):
        yield t
    elif isinstance(t, (ast.Tuple, ast.List)):
        for e in t.elts:
            yield from _attr_targets(e)
    elif isinstance(t, ast.Subscript):
        # self.x[...] = ... is a write *into* self.x, not an assignment of it
        return


def _assigned_names(f):
    cache = getattr(f, "_assigned", None)
    if cache is not None:
        return cache
    out = set()
    for n in f.body_nodes():
        if isinstance(n, ast.Assign):
            for t in n.targets:
                out.update(_target_names(t))
        elif isinstance(n, (ast.AugAssign, ast.AnnAssign)):
            out.update(_target_names(n.target))
        elif isinstance(n, (ast.For, ast.AsyncFor)):
            out.update(_target_names(n.target))
        elif isinstance(n, ast.With):
            for it in n.items:
                if it.optional_vars is not None:
                    out.update(_target_names(it.optional_vars))
        elif isinstance(n, ast.ExceptHandler) and n.name:
            out.add(n.name)
        elif isinstance(n, (ast.Import, ast.ImportFrom)):
            for a in n.names:
                out.add((a.asname or a.name).split(".")[0])
        elif isinstance(n, ast.comprehension):
            out.update(_target_names(n.target))
        elif isinstance(n, ast.NamedExpr):
            out.update(_target_names(n.target))
    f._assigned = out
    return out


target_names = _target_names
assigned_names = _assigned_names
