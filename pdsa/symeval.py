"""Forward substitution over a function body (DESIGN §1.3, CF extraction).

Straight-line code is substituted exactly.  ``if`` statements whose test folds to a
constant under the *seeded configuration* (boolean / string flags such as
``frame_style``, ``kaldi_shift``, ``conjugate``) select one branch - a finite
specialisation; every other ``if`` is merged into conditional expressions, except
that a branch ending in return/raise becomes a *guarded exit* and its negated test
is remembered on the path.  Loop bodies are evaluated once over loop-state symbols.
No path over data is ever enumerated and nothing is executed.
"""

import ast
from fractions import Fraction

from . import sym as S
from .model import AnalysisError, FunctionInfo, ClassInfo, unparse, target_names

_MATH = {
    "numpy.ceil": "ceil", "math.ceil": "ceil", "numpy.floor": "floor", "math.floor": "floor",
    "numpy.log": "log", "math.log": "log", "numpy.log2": "log2", "math.log2": "log2",
    "numpy.log10": "log10", "math.log10": "log10", "numpy.exp": "exp", "math.exp": "exp",
    "numpy.sqrt": "sqrt", "math.sqrt": "sqrt", "math.factorial": "factorial",
    "numpy.abs": "abs", "numpy.absolute": "abs", "numpy.round": "round",
    "numpy.square": "square", "numpy.cos": "cos", "numpy.sin": "sin",
}
_PI = {"numpy.pi", "math.pi"}


class Exit(Exception):
    pass


class SymEval:
    def __init__(self, prog, func, seed=None, rename=None, inline=(), args=None,
                 depth=0, loop_first=False, self_class=None, inline_props=True,
                 inline_self=False, no_inline=(), loop_summary=False):
        self.prog = prog
        self.loop_summary = loop_summary
        self.func = func
        self.seed = dict(seed or {})
        self.rename = dict(rename or {})
        self.inline = set(inline)
        self.depth = depth
        self.loop_first = loop_first
        self.inline_props = inline_props
        self.inline_self = inline_self
        self.no_inline = set(no_inline)
        self.cls = self_class or func.cls
        self.env = {}
        self.path = []  # facts known on the current path (from guarded exits / branches)
        self.returns = []  # (guard E, value E, node)
        self.return_envs = []  # attribute state at each return (parallel to self.returns)
        self.falls_through = True
        self.raises = []  # (guard E, node)
        self.snap = {}  # id(stmt) -> (env copy, path copy)
        self.calls = []  # (node, guard E)
        self.notes = []
        self.selfname = None
        if func.cls is not None and not func.is_staticmethod and func.params:
            self.selfname = func.params[0]
        args = args or {}
        for p in func.all_param_names():
            if p in args:
                self.env[p] = args[p]
            elif p == self.selfname:
                self.env[p] = S.sym(p)
            else:
                self.env[p] = self._sym(p)
        for p, d in func.defaults.items():
            if p not in args and ("default:" + p) in self.seed:
                self.env[p] = self.expr(d)

    # ------------------------------------------------------------------ symbols
    def _sym(self, name):
        name = self.rename.get(name, name)
        if name in self.seed:
            v = self.seed[name]
            return v if isinstance(v, S.E) else S.lift(v)
        return S.sym(name)

    # -------------------------------------------------------------- expressions
    def expr(self, n):
        m = getattr(self, "e_" + type(n).__name__, None)
        if m is None:
            return S.unknown("expr:%s" % type(n).__name__)
        return m(n)

    def e_Constant(self, n):
        v = n.value
        if isinstance(v, bool) or v is None or isinstance(v, str):
            return S.lift(v)
        if isinstance(v, int):
            return S.lift(Fraction(v))
        if isinstance(v, float):
            return S.lift(Fraction(repr(v)))
        return S.E("const", repr(v))

    def e_Name(self, n):
        if n.id in self.env:
            return self.env[n.id]
        q = self.prog.qualify(self.func.module, n, self.func)
        if q in _PI:
            return S.PI
        if q is not None:
            # module-level constant?
            mod, _, name = q.rpartition(".")
            m = self.prog.modules.get(mod)
            if m is not None and name in m.assigns and len(m.assigns[name]) == 1:
                val = m.assigns[name][0]
                from . import alpha
                if isinstance(val, ast.Constant) and alpha.is_new_module_name(mod, name) and q not in self.seed and m is self.func.module:
                    return self.expr(val)  # a named literal introduced by a refactoring
                if isinstance(val, ast.Constant):
                    key = q
                    if key in self.seed:
                        return S.lift(self.seed[key])
                    return S.sym(self.rename.get(q, q))
                from . import alpha
                if alpha.is_new_module_name(mod, name) and self.depth < 4 and m is self.func.module:
                    # a module-level constant introduced by a refactoring: read through to its definition
                    return self.expr(val)
            return S.sym(self.rename.get(q, q))
        return self._sym(n.id)

    def _dotted_path(self, n):
        parts = []
        cur = n
        while isinstance(cur, ast.Attribute):
            parts.append(cur.attr)
            cur = cur.value
        if isinstance(cur, ast.Name):
            return cur.id, list(reversed(parts))
        return None, None

    def e_Attribute(self, n):
        head, parts = self._dotted_path(n)
        if head is not None:
            path = ".".join([head] + parts)
            if path in self.env:
                return self.env[path]
            q = self.prog.qualify(self.func.module, n, self.func) if head not in self.env else None
            if q in _PI:
                return S.PI
            if q is not None:
                if q in self.seed:
                    return S.lift(self.seed[q])
                return S.sym(self.rename.get(q, q))
            if head == self.selfname and len(parts) == 1 and self.cls is not None:
                cv = self._class_constant(parts[0])
                if cv is not None:
                    return cv
            if head == self.selfname and len(parts) == 1 and self.cls is not None and self.inline_props:
                m = self.prog.find_method(self.cls, parts[0])
                if m is not None and m.is_property and not m.is_abstract and self.depth < 4:
                    r = self._inline(m, [self.env.get(head, S.sym(head))], {}, n)
                    if r is not None:
                        return r
            base = self.env.get(head)
            if base is not None and base.op == "sym":
                path = ".".join([base.args[0]] + parts)
            elif base is not None:
                inner = self.expr(n.value)
                return S.call("." + n.attr, inner)
            return self._sym(path)
        inner = self.expr(n.value)
        return S.call("." + n.attr, inner)

    def e_UnaryOp(self, n):
        v = self.expr(n.operand)
        if isinstance(n.op, ast.USub):
            return S.neg(v)
        if isinstance(n.op, ast.UAdd):
            return v
        if isinstance(n.op, ast.Not):
            return S.enot(v)
        if isinstance(n.op, ast.Invert):
            return S.call("invert", v)
        return S.unknown("unary")

    def e_BinOp(self, n):
        a, b = self.expr(n.left), self.expr(n.right)
        return self.binop(n.op, a, b)

    def binop(self, op, a, b):
        if isinstance(op, ast.Add):
            return S.add(a, b)
        if isinstance(op, ast.Sub):
            return S.sub(a, b)
        if isinstance(op, ast.Mult):
            return S.mul(a, b)
        if isinstance(op, ast.Div):
            return S.truediv(a, b)
        if isinstance(op, ast.FloorDiv):
            return S.floordiv(a, b)
        if isinstance(op, ast.Mod):
            if a.is_const and isinstance(a.value, str):
                return S.call("strformat", a, b)
            return S.mod(a, b)
        if isinstance(op, ast.Pow):
            return S.power(a, b)
        if isinstance(op, ast.BitAnd):
            if S.is_bool(a) or S.is_bool(b) or a.op in ("cmp", "and", "or", "not") or b.op in ("cmp", "and", "or", "not"):
                return S.eand(a, b)
            return S.call("bitand", a, b)
        if isinstance(op, ast.BitOr):
            if S.is_bool(a) or S.is_bool(b) or a.op in ("cmp", "and", "or", "not") or b.op in ("cmp", "and", "or", "not"):
                return S.eor(a, b)
            return S.call("bitor", a, b)
        def _lit(x):
            return x.is_const and isinstance(x.value, Fraction) and x.value.denominator == 1 and 0 < x.value <= 62
        if isinstance(op, ast.LShift):
            if _lit(b):
                return S.mul(a, S.lift(2 ** int(b.value)))  # x << k  is  x * 2**k
            return S.call("lshift", a, b)
        if isinstance(op, ast.RShift):
            if _lit(b):
                return S.floordiv(a, S.lift(2 ** int(b.value)))  # x >> k  is  x // 2**k (arithmetic shift: floor)
            return S.call("rshift", a, b)
        if isinstance(op, ast.MatMult):
            return S.call("matmul", a, b)
        return S.unknown("binop")

    def e_BoolOp(self, n):
        # `x or <non-boolean literal>` selects a value: it is `x if x else <literal>`
        if isinstance(n.op, ast.Or) and len(n.values) == 2 and isinstance(n.values[1], ast.Constant) and not isinstance(n.values[1].value, bool) \
                and n.values[1].value is not None and isinstance(n.values[0], (ast.Name, ast.Attribute)):
            return self.expr(ast.copy_location(ast.IfExp(test=n.values[0], body=n.values[0], orelse=n.values[1]), n))
        vals = [self.expr(v) for v in n.values]
        if isinstance(n.op, ast.And):
            return S.eand(*vals)
        return S.eor(*vals)

    def e_Compare(self, n):
        left = self.expr(n.left)
        parts = []
        for op, c in zip(n.ops, n.comparators):
            right = self.expr(c)
            o = {ast.Eq: "==", ast.NotEq: "!=", ast.Lt: "<", ast.LtE: "<=", ast.Gt: ">",
                 ast.GtE: ">=", ast.Is: "is", ast.IsNot: "is not", ast.In: "in",
                 ast.NotIn: "not in"}[type(op)]
            if o in ("in", "not in"):
                r = self._membership(o, left, right)
            else:
                r = S.cmp(o, left, right)
            parts.append(r)
            left = right
        return S.eand(*parts) if len(parts) > 1 else parts[0]

    def _membership(self, o, left, right):
        if right.op == "call" and right.args[0] in ("set", "tuple", "list") and left.is_const:
            elts = right.args[1:]
            if all(e.is_const for e in elts):
                r = any(e == left for e in elts)
                return S.lift(r if o == "in" else not r)
        return S.E("cmp", o, left, right)

    def e_IfExp(self, n):
        t = self.expr(n.test)
        if t.is_const:
            return self.expr(n.body) if S.truthy(t) else self.expr(n.orelse)
        return S.cond(t, self.expr(n.body), self.expr(n.orelse))

    def e_Tuple(self, n):
        return S.call("tuple", *[self.expr(e) for e in n.elts])

    def e_List(self, n):
        return S.call("list", *[self.expr(e) for e in n.elts])

    def e_Set(self, n):
        return S.call("set", *[self.expr(e) for e in n.elts])

    def e_Dict(self, n):
        return S.unknown("dict")

    def e_JoinedStr(self, n):
        return S.unknown("fstring")

    def e_Starred(self, n):
        return S.call("star", self.expr(n.value))

    def e_Slice(self, n):
        lo = self.expr(n.lower) if n.lower is not None else S.NONE
        hi = self.expr(n.upper) if n.upper is not None else S.NONE
        st = self.expr(n.step) if n.step is not None else S.NONE
        return S.call("slice", lo, hi, st)

    def _elem_key(self, n):
        """env key for an element store/load  name[idx]  (scalar index only)"""
        scalar = not isinstance(n.slice, ast.Slice) and not (
            isinstance(n.slice, ast.Tuple) and any(isinstance(e, (ast.Slice, ast.Starred)) for e in n.slice.elts))
        if isinstance(n.value, ast.Name) and scalar:
            idx = self.expr(n.slice)
            if not S.has_unknown(idx):
                return "%s[%s]" % (n.value.id, S.canon(idx))
        return None

    def _class_constant(self, attr):
        """value of a class-level literal (`NAME = <tuple / number literal>` in the class body, searched along the MRO),
        unless some method of the family assigns the attribute on the instance / class"""
        try:
            mro = self.prog.mro(self.cls)
        except Exception:
            return None
        for c in mro:
            node = getattr(c, "node", None)
            if node is None:
                continue
            for st in node.body:
                if isinstance(st, ast.Assign):
                    names = []
                    for t in st.targets:
                        names.extend(x.id for x in (t.elts if isinstance(t, ast.Tuple) else [t]) if isinstance(x, ast.Name))
                    if attr in names:
                        if not _is_literal(st.value):
                            return None
                        if self.prog.has_attr_store(self.cls, attr) if hasattr(self.prog, "has_attr_store") else _assigned_on_instance(self.prog, self.cls, attr):
                            return None
                        v = self.expr(st.value)
                        if len(st.targets) == 1 and isinstance(st.targets[0], ast.Tuple):
                            idx = [x.id for x in st.targets[0].elts if isinstance(x, ast.Name)].index(attr)
                            return _getitem(v, S.lift(idx))
                        return v
        return None

    def e_Subscript(self, n):
        k = self._elem_key(n)
        if k is not None and k in self.env:
            return self.env[k]
        base = self.expr(n.value)
        if base.op == "call" and base.args[0] == "stored":
            base = base.args[1]
        idx = self.expr(n.slice)
        return _getitem(base, idx)

    def e_Lambda(self, n):
        return S.unknown("lambda")

    def e_ListComp(self, n):
        if isinstance(n, ast.DictComp) or len(n.generators) != 1:
            return S.unknown("comprehension")
        g = n.generators[0]
        it = self.expr(g.iter)
        saved = dict(self.env)
        for nm in target_names(g.target):
            self.env[nm] = S.sym("@" + nm)
        try:
            elt = self.expr(n.elt)
            conds = [self.expr(c) for c in g.ifs]
        finally:
            self.env = saved
        return S.call("comp", elt, it, *conds)

    e_GeneratorExp = e_SetComp = e_DictComp = e_ListComp

    def e_Call(self, n):
        f = n.func
        # method call on a value
        q = self.prog.qualify(self.func.module, f, self.func)
        args = [self.expr(a) for a in n.args]
        kwargs = {k.arg: self.expr(k.value) for k in n.keywords if k.arg is not None}
        # f(..., **d) with d a dict built in this function from keywords (d = dict(dtype=t, **kwargs)): its items are keyword arguments
        for k in n.keywords:
            if k.arg is None and isinstance(k.value, ast.Name):
                dv = self.env.get(k.value.id)
                if isinstance(dv, S.E) and dv.op == "cond" and len(dv.args) == 3 and not getattr(self, "_in_kw_split", False):
                    # the dict is built on one branch only: the call is evaluated per branch
                    saved_ = self.env[k.value.id]
                    self._in_kw_split = True
                    try:
                        self.env[k.value.id] = dv.args[1]
                        v1_ = self.e_Call(n)
                        self.env[k.value.id] = dv.args[2]
                        v2_ = self.e_Call(n)
                    finally:
                        self.env[k.value.id] = saved_
                        self._in_kw_split = False
                    return S.cond(dv.args[0], v1_, v2_)
                if isinstance(dv, S.E) and dv.op == "call" and dv.args[0] == "dict":
                    for a_ in dv.args[1:]:
                        if isinstance(a_, S.E) and a_.op == "call" and str(a_.args[0]).startswith("kw:") and a_.args[0][3:] not in kwargs:
                            kwargs[a_.args[0][3:]] = a_.args[1]
        if isinstance(f, ast.Name) and f.id not in self.env:
            name = f.id
            if q is None:
                if name == "len" and len(args) == 1:
                    return S.call("len", args[0])
                if name == "sorted" and len(args) == 1 and not kwargs and args[0].op == "call" and args[0].args[0] in ("tuple", "list") and len(args[0].args) == 3:
                    a_, b_ = args[0].args[1], args[0].args[2]
                    return S.call("list", S.emin(a_, b_), S.emax(a_, b_))
                if name == "divmod" and len(args) == 2 and not kwargs:
                    return S.call("tuple", S.floordiv(args[0], args[1]), S.mod(args[0], args[1]) if hasattr(S, "mod") else S.sub(args[0], S.mul(S.floordiv(args[0], args[1]), args[1])))
                if name == "max":
                    return S.emax(*args) if len(args) > 1 else S.call("max", *args)
                if name == "min":
                    return S.emin(*args) if len(args) > 1 else S.call("min", *args)
                if name in ("int", "float", "abs", "bool", "round") and len(args) == 1:
                    a = args[0]
                    if name in ("int",) and S.is_num(a):
                        import math
                        return S.lift(Fraction(math.trunc(a.value)))
                    if name == "int" and S.is_bool(a):
                        return S.lift(Fraction(int(a.value)))
                    if name == "float" and S.is_num(a):
                        return a
                    if name == "bool":
                        if a.is_const:
                            return S.lift(S.truthy(a))
                        return a if a.op in ("cmp", "and", "or", "not", "bool") else S.E("bool", a)
                    return S.call(name, a)
                if name in ("range", "tuple", "list", "set", "zip", "enumerate", "sum",
                            "isinstance", "dict", "sorted", "reversed", "print", "super",
                            "hasattr", "getattr", "slice", "str", "type", "iter", "next"):
                    if name == "dict" and kwargs:
                        return S.call(name, *(list(args) + [S.call("kw:" + k_, v_) for k_, v_ in sorted(kwargs.items())]))
                    return S.call(name, *args)
        if q is not None:
            if q in ("numpy.maximum", "numpy.minimum") and len(args) == 2 and not kwargs:
                # the element-wise maximum of two values is their maximum
                return S.emax(*args) if q.endswith("maximum") else S.emin(*args)
            if q in _MATH:
                nm = _MATH[q]
                if nm == "square" and len(args) >= 1:
                    return S.power(args[0], S.lift(2))
                if nm == "log" and len(args) == 2:
                    return S.call("log", args[0], args[1])
                return S.call(nm, *args[:1])
            target = self.prog.lookup(q)
            if isinstance(target, FunctionInfo) and (target.qualname in self.inline or target.short in self.inline or _new_helper(target)):
                r = self._inline(target, args, kwargs, n)
                if r is not None:
                    return r
            short = q
            if q.startswith("numpy."):
                short = "np." + q[len("numpy."):]
            elif q.startswith("pydrobert.speech."):
                short = q[len("pydrobert.speech."):]
            allargs = list(args) + [S.call("kw:" + k, v) for k, v in sorted(kwargs.items())]
            return S.call(short, *allargs)
        # self.method(...)
        if isinstance(f, ast.Attribute):
            head, parts = self._dotted_path(f)
            if head == self.selfname and head is not None and len(parts) == 1 and self.cls is not None:
                m = self.prog.find_method(self.cls, parts[0])
                if m is not None and m.name not in self.no_inline and not m.is_abstract and (
                        m.qualname in self.inline or m.short in self.inline or (m.name in self.inline)
                        or (self.inline_self and not m.is_property) or _new_helper(m)):
                    r = self._inline(m, ([] if m.is_staticmethod else [self.env[head]]) + args, kwargs, n)
                    if r is not None:
                        return r
            recv = self.expr(f.value)
            allargs = list(args) + [S.call("kw:" + k, v) for k, v in sorted(kwargs.items())]
            return S.call("." + f.attr, recv, *allargs)
        fv = self.expr(f)
        if fv.op == "sym" and "." in fv.args[0] and not kwargs:
            # a bound method held in a variable / parameter: the same call as  receiver.method(...)
            recv, _, meth = fv.args[0].rpartition(".")
            return S.call("." + meth, S.sym(recv), *args)
        return S.call("apply", fv, *args)

    def _calls_new_helper(self, call):
        f = call.func
        try:
            if isinstance(f, ast.Name):
                q = self.prog.qualify(self.func.module, f, self.func)
                t = self.prog.lookup(q) if q else None
                return isinstance(t, FunctionInfo) and _new_helper(t)
            if isinstance(f, ast.Attribute) and isinstance(f.value, ast.Name) and f.value.id == self.selfname and self.cls is not None:
                m = self.prog.find_method(self.cls, f.attr)
                return m is not None and _new_helper(m)
        except Exception:
            return False
        return False

    def _inline(self, target, args, kwargs, node):
        if self.depth >= 5:
            return None
        bind = {}
        params = target.params
        for p, a in zip(params, args):
            bind[p] = a
        for k, v in kwargs.items():
            if k in params or k in target.kwonly:
                bind[k] = v
        sub = SymEval(self.prog, target, seed=self.seed, rename=self.rename, inline=self.inline,
                      args=bind, depth=self.depth + 1, inline_self=self.inline_self, no_inline=self.no_inline,
                      self_class=self.cls if (target.cls is not None and self.cls is not None and
                                              target.cls in self.prog.mro(self.cls)) else None)
        for p, d in target.defaults.items():
            if p not in bind:
                sub.env[p] = sub.expr(d)
        # a helper method called on the same object sees, and may update, the attributes written so far
        callee_self = target.params[0] if (target.cls is not None and not target.is_staticmethod and target.params) else None
        same_obj = (callee_self is not None and self.selfname is not None and bool(args) and args[0] == S.sym(self.selfname)
                    and callee_self in bind)
        if same_obj:
            for k, v in self.env.items():
                if k.startswith(self.selfname + "."):
                    sub.env[callee_self + k[len(self.selfname):]] = v
        try:
            sub.run()
        except AnalysisError:
            return None
        if same_obj:
            keys = set(sub.env) | {k for e in sub.return_envs for k in e}
            for k in sorted(keys):
                if k.startswith(callee_self + ".") and "[" not in k:
                    v = sub.exit_value(k) if len(sub.returns) > 1 or (sub.returns and sub.falls_through) else sub.env.get(k)
                    if v is None:
                        continue
                    ck = self.selfname + k[len(callee_self):]
                    if self.env.get(ck) != v:
                        self.env[ck] = v
        for g, r in sub.raises:
            # a raise inside an inlined helper is a raise of the caller under the caller's path condition
            self.raises.append((S.eand(self.guard(), g), r))
        if not sub.returns:
            return S.NONE
        # fold guarded returns into a conditional expression
        val = None
        for guard, v, _ in reversed(sub.returns):
            if val is None:
                val = v
            else:
                val = S.cond(guard, v, val) if not (guard.is_const and S.truthy(guard)) else v
        return val

    # --------------------------------------------------------------- statements
    def run(self):
        try:
            self.falls_through = not self.block(self.func.node.body)
        except Exit:
            pass
        return self

    def exit_value(self, key):
        """value of an attribute when the function is left, over every way of leaving it normally (the returns under
        their path conditions, then the fall-through); None when no exit assigns it"""
        if not any(key in e for e in self.return_envs) and not (self.falls_through and key in self.env):
            return self.env.get(key)
        val = self.env.get(key, S.sym(key)) if self.falls_through else None
        for (guard, _, _), env in reversed(list(zip(self.returns, self.return_envs))):
            v = env.get(key, S.sym(key))
            if val is None or (guard.is_const and S.truthy(guard)):
                val = v
            elif v != val:
                val = S.cond(guard, v, val)
        return val

    def guard(self):
        return S.eand(*self.path) if self.path else S.TRUE

    def block(self, body):
        """Execute statements; returns True when the block always leaves (return /
        raise / break / continue)."""
        for st in body:
            self.snap[id(st)] = (dict(self.env), list(self.path))
            if self.stmt(st):
                return True
        return False

    def stmt(self, st):
        m = getattr(self, "s_" + type(st).__name__, None)
        if m is None:
            return False
        return bool(m(st))

    def assign_target(self, t, v):
        if isinstance(t, ast.Name):
            self.env[t.id] = v
        elif isinstance(t, ast.Attribute):
            head, parts = self._dotted_path(t)
            if head is not None:
                base = self.env.get(head)
                if base is not None and base.op == "sym":
                    self.env[".".join([head] + parts)] = v
        elif isinstance(t, (ast.Tuple, ast.List)):
            if v.op == "call" and v.args[0] in ("tuple", "list") and len(v.args) - 1 == len(t.elts):
                for e, x in zip(t.elts, v.args[1:]):
                    self.assign_target(e, x)
            else:
                for i, e in enumerate(t.elts):
                    self.assign_target(e, _getitem(v, S.lift(i)))
        elif isinstance(t, ast.Subscript):
            # in-place element store: remember the element, mark the container as written
            if isinstance(t.value, ast.Name) and ((isinstance(t.slice, ast.Slice) and t.slice.lower is None and t.slice.upper is None and t.slice.step is None)
                                                  or (isinstance(t.slice, ast.Constant) and t.slice.value is Ellipsis)):
                # x[:] = v / x[...] = v: every element is replaced, the name now stands for v's values
                cur = self.env.get(t.value.id)
                if v.is_const and cur is not None and not cur.is_const:
                    # a scalar fill keeps the array (shape, dtype): filled(array, scalar)
                    self.env[t.value.id] = S.call("filled", cur, v)
                else:
                    self.env[t.value.id] = v
                return
            k = self._elem_key(t)
            if k is not None:
                # other remembered elements of the same container may alias only if equal index;
                # distinct canonical indices are kept (sound for the straight-line stencil bodies)
                self.env[k] = v
            head, parts = self._dotted_path(t.value)
            if head is not None:
                key = ".".join([head] + parts)
                old = self.env.get(key)
                try:
                    idx_e = self.expr(t.slice)
                except Exception:
                    idx_e = S.unknown("index")
                if old is not None and old.op == "call" and old.args[0] == "stored":
                    # stored(base, i1, v1, i2, v2, ...): the element stores seen so far, in order
                    self.env[key] = S.call("stored", *(list(old.args[1:]) + [idx_e, v]))
                    return
                if key in self.env or head in self.env:
                    self.env[key] = S.call("stored", self.env.get(key, S.sym(key)), idx_e, v)
        elif isinstance(t, ast.Starred):
            self.assign_target(t.value, S.unknown("starred"))

    @staticmethod
    def _basic_index(sl):
        """slices, Ellipsis and None only: indexing an array this way gives a view"""
        items = sl.elts if isinstance(sl, ast.Tuple) else [sl]
        return bool(items) and all(isinstance(i, ast.Slice) or (isinstance(i, ast.Constant) and (i.value is Ellipsis or i.value is None)) for i in items) \
            and (isinstance(sl, ast.Tuple) or isinstance(sl, ast.Slice))

    _WHOLE_VIEW_METHODS = ("view", "reshape", "ravel", "squeeze", "transpose", "swapaxes")
    _WHOLE_VIEW_ATTRS = ("T", "real", "imag", "flat")

    def _whole_view_of(self, value):
        """(base name, kind) when the expression is another name for (all of) a named array: the name itself, or a
        re-interpretation that shares its memory (x.view(t), x.reshape(s), x.ravel(), x.T, x.real ...)"""
        wv = self.__dict__.get("_wviews", {})
        base, kind = None, None
        if isinstance(value, ast.Name):
            base, kind = value.id, "name"
        elif isinstance(value, ast.Call) and isinstance(value.func, ast.Attribute) and isinstance(value.func.value, ast.Name) \
                and value.func.attr in self._WHOLE_VIEW_METHODS:
            base, kind = value.func.value.id, "." + value.func.attr
        elif isinstance(value, ast.Attribute) and isinstance(value.value, ast.Name) and value.attr in self._WHOLE_VIEW_ATTRS:
            base, kind = value.value.id, "." + value.attr
        if base is None:
            return None
        if base in wv:
            b2, k2 = wv[base]
            base, kind = b2, (kind if kind != "name" else k2)
        return base, kind

    def s_Assign(self, st):
        v = self.expr(st.value)
        views = self.__dict__.setdefault("_views", {})
        wviews = self.__dict__.setdefault("_wviews", {})
        whole = self._whole_view_of(st.value) if len(st.targets) == 1 and isinstance(st.targets[0], ast.Name) else None
        for t in st.targets:
            for nm in [x.id for x in ast.walk(t) if isinstance(x, ast.Name) and isinstance(x.ctx, ast.Store)]:
                # a re-bound name is no longer a view, and views of it are views of the old object
                views.pop(nm, None)
                for k_ in [k_ for k_, (b_, _) in views.items() if b_ == nm]:
                    views.pop(k_, None)
                wviews.pop(nm, None)
                for k_ in [k_ for k_, (b_, _) in wviews.items() if b_ == nm]:
                    wviews.pop(k_, None)
            self.assign_target(t, v)
        if whole is not None and whole[0] != st.targets[0].id:
            wviews[st.targets[0].id] = whole
        if (len(st.targets) == 1 and isinstance(st.targets[0], ast.Name) and isinstance(st.value, ast.Subscript) and isinstance(st.value.value, ast.Name)
                and self._basic_index(st.value.slice) and st.targets[0].id != st.value.value.id):
            views[st.targets[0].id] = (st.value.value.id, st.value.slice)

    def s_AnnAssign(self, st):
        if st.value is not None:
            self.assign_target(st.target, self.expr(st.value))

    def s_AugAssign(self, st):
        if isinstance(st.target, ast.Subscript):
            k = self._elem_key(st.target)
            if k is not None:
                cur = self.expr(_load(st.target))
                self.assign_target(st.target, self.binop(st.op, cur, self.expr(st.value)))
            else:
                # x[a:b] op= v: the right-hand side is materialised before the in-place update (NumPy semantics)
                try:
                    cur = self.expr(_load(st.target))
                    val = self.binop(st.op, cur, self.expr(st.value))
                except Exception:
                    val = S.unknown("aug")
                self.assign_target(st.target, val)
            return
        views = self.__dict__.get("_views", {})
        if isinstance(st.target, ast.Name) and st.target.id in views and (isinstance(views[st.target.id][1], ast.Tuple) or not isinstance(st.op, ast.Add)):
            # t = x[..., 1:] ; t -= v   updates x through the view (arrays; a tuple index or a non-additive operator rules out lists)
            base, sl = views[st.target.id]
            sub = ast.Subscript(value=ast.Name(id=base, ctx=ast.Load()), slice=sl, ctx=ast.Store())
            aug = ast.copy_location(ast.AugAssign(target=ast.copy_location(sub, st), op=st.op, value=st.value), st)
            ast.fix_missing_locations(aug)
            keep = dict(views)
            self.s_AugAssign(aug)
            self.__dict__["_views"] = keep
            self.env[st.target.id] = self.expr(ast.Subscript(value=ast.Name(id=base, ctx=ast.Load()), slice=sl, ctx=ast.Load()))
            return
        cur = self.expr(_load(st.target))
        v = self.binop(st.op, cur, self.expr(st.value))
        wviews = self.__dict__.get("_wviews", {})
        if isinstance(st.target, ast.Name) and st.target.id in wviews and wviews[st.target.id][1] != "name":
            # t = x.view(np.float64) ; t *= t   rewrites x's memory through the re-interpretation
            base, kind = wviews[st.target.id]
            keep = dict(wviews)
            self.env[base] = S.call("updated_through", self.env.get(base, S.sym(base)), S.lift(kind), v)
            self.assign_target(st.target, v)
            self.__dict__["_wviews"] = keep
            return
        self.assign_target(st.target, v)

    def s_Expr(self, st):
        if isinstance(st.value, ast.Call):
            self.calls.append((st.value, self.guard(), dict(self.env)))
            outs = [k for k in st.value.keywords if k.arg == "out" and isinstance(k.value, ast.Name)]
            if outs:
                # ufunc(x, out=y): y now holds the result
                import copy
                c2 = copy.copy(st.value)
                c2.keywords = [k for k in st.value.keywords if k.arg != "out"]
                self.env[outs[0].value.id] = self.expr(c2)
            if self.inline and isinstance(st.value.func, ast.Name):
                # a bare call statement to a helper that was asked to be inlined (validation factored out)
                self.expr(st.value)
            elif self.inline_self and isinstance(st.value.func, ast.Attribute) and isinstance(st.value.func.value, ast.Name) \
                    and st.value.func.value.id == self.selfname and self.cls is not None and self.prog.find_method(self.cls, st.value.func.attr) is not None:
                # a bare call of a method of the same object, with inlining of self-calls requested: its attribute updates are the caller's
                self.expr(st.value)
            elif self._calls_new_helper(st.value):
                # a bare call to a helper the reference tree does not have: its raises and attribute updates are the caller's
                self.expr(st.value)
            # torch's in-place methods (trailing underscore) on a name: x.square_() is x = x.square(); chains x.clamp_min_(e).log_() apply in order
            chain, cur_ = [], st.value
            while isinstance(cur_, ast.Call) and isinstance(cur_.func, ast.Attribute) and cur_.func.attr.endswith("_") and not cur_.func.attr.startswith("_") \
                    and len(cur_.func.attr) > 2 and not cur_.keywords:
                chain.append(cur_)
                cur_ = cur_.func.value
            if chain and isinstance(cur_, ast.Name) and cur_.id in self.env:
                try:
                    val_ = self.env[cur_.id]
                    for c_ in reversed(chain):
                        args_ = [self.expr(a) for a in c_.args]
                        op_ = c_.func.attr[:-1]
                        if op_ in ("mul", "multiply") and len(args_) == 1:
                            val_ = S.mul(val_, args_[0])
                        elif op_ == "add" and len(args_) == 1:
                            val_ = S.add(val_, args_[0])
                        elif op_ in ("sub", "subtract") and len(args_) == 1:
                            val_ = S.sub(val_, args_[0])
                        elif op_ in ("div", "true_divide", "divide") and len(args_) == 1:
                            val_ = S.truediv(val_, args_[0])
                        else:
                            val_ = S.call("." + op_, val_, *args_)
                    self.env[cur_.id] = val_
                except Exception:
                    pass
            # mutating method calls on tracked containers
            f = st.value.func
            if isinstance(f, ast.Attribute) and f.attr in ("append", "extend", "fill", "pop", "update", "sort", "insert"):
                head, parts = self._dotted_path(f.value)
                if head is not None:
                    key = ".".join([head] + parts)
                    if key in self.env:
                        cur = self.env[key]
                        if f.attr == "append" and len(st.value.args) == 1 and cur.op == "call" and cur.args[0] == "list":
                            # a list built element by element stays a literal list (elements appended in a loop: see _loop)
                            self.env[key] = S.call("list", *(list(cur.args[1:]) + [self.expr(st.value.args[0])]))
                        else:
                            self.env[key] = S.call("mutated", cur, self.expr(st.value))

    def s_Return(self, st):
        v = self.expr(st.value) if st.value is not None else S.NONE
        self.returns.append((self.guard(), v, st))
        self.return_envs.append({k: e for k, e in self.env.items() if "." in k})
        return True

    def s_Raise(self, st):
        self.raises.append((self.guard(), st))
        return True

    def s_Assert(self, st):
        return False

    def s_Pass(self, st):
        return False

    def s_Delete(self, st):
        for t in st.targets:
            if isinstance(t, ast.Name):
                self.env.pop(t.id, None)

    def s_Import(self, st):
        return False

    s_ImportFrom = s_Import
    s_Global = s_Import
    s_Nonlocal = s_Import

    def s_FunctionDef(self, st):
        self.env[st.name] = S.sym(self.func.qualname + ".<locals>." + st.name)

    s_ClassDef = s_FunctionDef

    def s_Break(self, st):
        return True

    def s_Continue(self, st):
        return True

    def s_If(self, st):
        t = self.expr(st.test)
        if t.is_const:
            return self.block(st.body if S.truthy(t) else st.orelse)
        env0, path0 = dict(self.env), list(self.path)
        self.path = path0 + [t]
        left_t = self.block(st.body)
        env_t = self.env
        path_t = list(self.path)
        self.env, self.path = dict(env0), path0 + [S.enot(t)]
        left_f = self.block(st.orelse) if st.orelse else False
        env_f = self.env
        path_f = list(self.path)
        if left_t and left_f:
            self.env, self.path = env0, path0
            return True
        if left_t:
            self.env, self.path = env_f, path0 + [S.enot(t)]
            return False
        if left_f:
            self.env, self.path = env_t, path0 + [t]
            return False
        merged = {}
        for k in set(env_t) | set(env_f):
            a, b = env_t.get(k), env_f.get(k)
            if a is None or b is None:
                merged[k] = a if b is None else b
                if a is None or b is None:
                    # an attribute assigned on one branch only keeps its entry value on the other (a local would be unbound)
                    other = self._loopsym(k) if ("." in k and "[" not in k) else S.unknown("unbound:" + k)
                    merged[k] = S.cond(t, a if a is not None else other, b if b is not None else other)
            elif a == b:
                merged[k] = a
            else:
                merged[k] = S.cond(t, a, b)
        self.env, self.path = merged, path0
        # facts learnt inside the branches (guarded exits) survive the merge as a disjunction
        extra_t, extra_f = path_t[len(path0) + 1:], path_f[len(path0) + 1:]
        if (extra_t or extra_f) and path_t[:len(path0)] == path0 and path_f[:len(path0)] == path0:
            fact = S.eor(S.eand(t, *extra_t), S.eand(S.enot(t), *extra_f))
            if not fact.is_const:
                self.path = path0 + [fact]
        return False

    def _assigned_in(self, body):
        out = set()
        for st in body:
            for n in ast.walk(st):
                if isinstance(n, ast.Assign):
                    for t in n.targets:
                        out.update(_store_keys(t))
                elif isinstance(n, (ast.AugAssign, ast.AnnAssign)):
                    out.update(_store_keys(n.target))
                elif isinstance(n, (ast.For, ast.AsyncFor)):
                    out.update(target_names(n.target))
        return out

    def _loop_idempotent(self, st, count):
        """Summary of ``for v in range(count)`` whose body is idempotent on the scalars it assigns: run the body for
        the first iteration (v = 0) from the entry state and once more (v symbolic) from the resulting state; every
        assigned name whose value is unchanged by the second run (and free of v) has, after the loop,
        ``first-iteration value if count >= 1 else entry value``.  Everything else is unknown."""
        assigned = self._assigned_in(st.body)
        env0, path0 = dict(self.env), list(self.path)
        v = st.target.id
        once = S.cmp(">=", count, S.ONE)
        self.env[v] = S.ZERO
        self.path = path0 + [once]
        self.block(st.body)
        env1 = dict(self.env)
        snap1 = dict(self.snap)
        self.env = dict(env1)
        self.env[v] = S.sym(v)
        self.block(st.body)
        env2 = self.env
        self.snap = snap1  # statements keep their first-iteration snapshots
        after = dict(env0)
        for k in set(assigned) | (set(env1) - set(env0)):
            if k == v:
                after[k] = S.unknown("after-loop:" + k)
                continue
            a1, a2 = env1.get(k), env2.get(k)
            if a1 is None and a2 is None and k not in env0:
                continue  # assigned only in code that is dead under the path condition: the entry value stays
            if a1 is not None and a2 is not None and a1 == a2 and k in env0 and a1 == env0[k]:
                continue  # not changed by the body
            if a1 is not None and a2 is not None and a1 == a2 and v not in S.symbols(a1) and not S.has_unknown(a1):
                a0 = env0.get(k)
                if a0 is None and "." in k:
                    a0 = self._loopsym(k)  # an attribute not written before the loop: its seeded / symbolic entry value
                after[k] = S.cond(once, a1, a0 if a0 is not None else S.unknown("unbound:" + k))
            else:
                after[k] = S.unknown("after-loop:" + k)
        self.env, self.path = after, path0
        return False

    def _loop(self, st, bind):
        if (self.loop_summary and isinstance(st, ast.For) and isinstance(st.target, ast.Name) and not st.orelse
                and not any(isinstance(x, (ast.Break, ast.Continue, ast.Return)) for b in st.body for x in ast.walk(b))):
            it = self.expr(st.iter)
            if it.op == "call" and it.args[0] == "range" and len(it.args) == 2:
                return self._loop_idempotent(st, it.args[1])
        assigned = self._assigned_in(st.body)
        env0, path0 = dict(self.env), list(self.path)
        if not self.loop_first:
            for k in assigned:
                if k in self.env or "." not in k:
                    self.env[k] = self._loopsym(k)
        bind()
        if isinstance(st, ast.While):
            t = self.expr(st.test)
            if not t.is_const:
                self.path = self.path + [t]
        self.block(st.body)
        grown = {}
        for k, v0 in env0.items():
            v1 = self.env.get(k)
            if v1 is not None and v0.op == "call" and v0.args[0] == "list" and v1.op == "call" and v1.args[0] == "list" \
                    and len(v1.args) > len(v0.args) and list(v1.args[:len(v0.args)]) == list(v0.args):
                grown[k] = S.call("list", *(list(v0.args[1:]) + [S.call("repeat", x) for x in v1.args[len(v0.args):]]))
        # after the loop: everything assigned in the body is unknown
        env_after = dict(env0)
        env_after.update(grown)
        for k in assigned:
            env_after[k] = S.unknown("after-loop:" + k)
        for k in self.env:
            if k not in env_after:
                env_after[k] = S.unknown("after-loop:" + k)
        self.env, self.path = env_after, path0
        if st.orelse:
            self.block(st.orelse)
        return False

    def _loopsym(self, k):
        name = self.rename.get(k, k)
        if name in self.seed:
            return S.lift(self.seed[name]) if not isinstance(self.seed[name], S.E) else self.seed[name]
        return S.sym(name)

    def s_For(self, st):
        it = self.expr(st.iter)
        # comprehension written as a loop:  L = [] ; for t in IT: [if c:] L.append(e)   ->   L := comp(e, IT, c)
        if len(st.body) == 1 and not st.orelse:
            inner, conds = st.body[0], []
            if isinstance(inner, ast.If) and not inner.orelse and len(inner.body) == 1:
                conds, inner = [inner.test], inner.body[0]
            if (isinstance(inner, ast.Expr) and isinstance(inner.value, ast.Call) and isinstance(inner.value.func, ast.Attribute)
                    and inner.value.func.attr == "append" and isinstance(inner.value.func.value, ast.Name)
                    and len(inner.value.args) == 1 and not inner.value.keywords):
                L = inner.value.func.value.id
                cur = self.env.get(L)
                tn = list(target_names(st.target))
                if cur is not None and cur.op == "call" and cur.args[0] == "list" and len(cur.args) == 1 and L not in tn:
                    saved = dict(self.env)
                    for nm in tn:
                        self.env[nm] = S.sym("@" + nm)
                    try:
                        elt = self.expr(inner.value.args[0])
                        cs = [self.expr(c) for c in conds]
                    finally:
                        self.env = saved
                    if "@" + L not in S.symbols(elt) and L not in S.symbols(elt):
                        self.env[L] = S.call("comp", elt, it, *cs)
                        for nm in tn:
                            self.env[nm] = S.unknown("after-loop:" + nm)
                        return False
        # pipeline idiom:  for v in LIST: x = f(v, x)   ->   x := fold(LIST, template, x)
        if (len(st.body) == 1 and not st.orelse and isinstance(st.body[0], ast.Assign)
                and len(st.body[0].targets) == 1 and isinstance(st.body[0].targets[0], ast.Name)
                and isinstance(st.target, ast.Name) and isinstance(st.body[0].value, ast.Call)):
            x = st.body[0].targets[0].id
            v = st.target.id
            if x in self.env and x != v:
                saved = dict(self.env)
                self.env[v] = S.sym("@elem")
                self.env[x] = S.sym("@acc")
                tmpl = self.expr(st.body[0].value)
                self.env = saved
                names = set(S.symbols(tmpl))
                if "@elem" in names and "@acc" in names:
                    self.snap[id(st.body[0])] = (dict(self.env), list(self.path))
                    self.env[x] = S.call("fold", it, tmpl, self.env[x])
                    self.env[v] = S.unknown("after-loop:" + v)
                    return False

        if it.op == "call" and it.args[0] in ("tuple", "list") and 1 <= len(it.args) - 1 <= 16 and not st.orelse \
                and not any(isinstance(x, (ast.Break, ast.Continue)) for b in st.body for x in ast.walk(b)):
            # a loop over a literal sequence: unrolled, element by element; an element `repeat(e)` stands for any number of
            # elements of the form e (appended by an earlier loop): the body runs once on e and what it appends is repeated
            assigned = self._assigned_in(st.body)
            for elem in it.args[1:]:
                if elem.op == "call" and elem.args[0] == "repeat":
                    before = {k: v for k, v in self.env.items() if v.op == "call" and v.args[0] == "list"}
                    saved = {k: self.env.get(k) for k in assigned}
                    self.assign_target(st.target, elem.args[1])
                    self.block(st.body)
                    for k, v0 in before.items():
                        v1 = self.env.get(k)
                        if v1 is not None and v1.op == "call" and v1.args[0] == "list" and len(v1.args) > len(v0.args):
                            self.env[k] = S.call("list", *(list(v0.args[1:]) + [S.call("repeat", x) for x in v1.args[len(v0.args):]]))
                    for k in assigned:
                        if not (self.env.get(k) is not None and self.env[k].op == "call" and self.env[k].args[0] == "list"):
                            self.env[k] = S.unknown("after-loop:" + k)
                    continue
                self.assign_target(st.target, elem)
                if self.block(st.body):
                    return True
            return False

        def bind():
            names = list(target_names(st.target))
            if isinstance(st.target, ast.Name) and it.op == "call" and it.args[0] == "range":
                self.env[st.target.id] = self._sym(st.target.id)
            else:
                for nme in names:
                    self.env[nme] = self._sym(nme)
            self.env["@iter:" + ",".join(names)] = it

        return self._loop(st, bind)

    def s_While(self, st):
        return self._loop(st, lambda: None)

    def s_With(self, st):
        for it in st.items:
            v = self.expr(it.context_expr)
            if it.optional_vars is not None:
                self.assign_target(it.optional_vars, S.call("enter", v))
        return self.block(st.body)

    def s_Try(self, st):
        env0 = dict(self.env)
        left = self.block(st.body)
        if st.orelse and not left:
            left = self.block(st.orelse)
        body_env = self.env
        # handlers: variables they assign become conditional/unknown
        hassigned = set()
        for h in st.handlers:
            hassigned |= self._assigned_in(h.body)
        for k in hassigned:
            a = body_env.get(k)
            body_env[k] = S.call("try-or-handler", a) if a is not None else S.unknown("handler:" + k)
        self.env = body_env
        if st.finalbody:
            self.block(st.finalbody)
        # a try body that always leaves may still fall to a handler that does not
        if left and st.handlers:
            return False
        return left

    # ------------------------------------------------------------------ queries
    def at(self, stmt):
        """(env, path) snapshot just before ``stmt`` was evaluated."""
        s = self.snap.get(id(stmt))
        if s is None:
            raise AnalysisError("statement not reached by forward substitution: %s" % unparse(stmt))
        return s

    def eval_at(self, stmt, expr_node):
        env, path = self.at(stmt)
        saved = (self.env, self.path)
        self.env, self.path = dict(env), list(path)
        try:
            return self.expr(expr_node)
        finally:
            self.env, self.path = saved

    def reached(self, stmt):
        return id(stmt) in self.snap

    def guard_of(self, stmt):
        """path condition (conjunction of the branch tests taken) under which ``stmt`` is reached"""
        env, path = self.at(stmt)
        return S.eand(*path) if path else S.TRUE


def _new_helper(fi):
    """a private function / method that the reference tree does not have: a helper extracted by a refactoring is read through"""
    from . import alpha
    return fi.name.startswith("_") and not (fi.name.startswith("__") and fi.name.endswith("__")) and alpha.is_new_function(fi.qualname)


def _is_literal(n):
    if isinstance(n, ast.Constant):
        return True
    if isinstance(n, (ast.Tuple, ast.List)):
        return all(_is_literal(e) for e in n.elts)
    if isinstance(n, ast.UnaryOp) and isinstance(n.op, (ast.USub, ast.UAdd)):
        return _is_literal(n.operand)
    if isinstance(n, ast.Attribute) and isinstance(n.value, ast.Name) and n.value.id in ("np", "numpy", "math") and n.attr in ("inf", "pi", "e"):
        return True
    return False


def _assigned_on_instance(prog, cls, attr):
    for fi in prog.functions.values():
        if fi.cls is not None and fi.params and (fi.cls is cls or cls in prog.mro(fi.cls) or fi.cls in prog.mro(cls)):
            s0 = fi.params[0]
            for n in ast.walk(fi.node):
                if isinstance(n, ast.Attribute) and isinstance(n.ctx, ast.Store) and n.attr == attr and isinstance(n.value, ast.Name) and n.value.id == s0:
                    return True
    return False


def _getitem(base, idx):
    """element selection folded through literal tuples and conditional expressions"""
    if base.op == "call" and base.args[0] in ("tuple", "list") and S.is_num(idx) and idx.value.denominator == 1:
        i = int(idx.value)
        elts = base.args[1:]
        if -len(elts) <= i < len(elts):
            return elts[i]
    if base.op == "cond" and S.is_num(idx):
        return S.cond(base.args[0], _getitem(base.args[1], idx), _getitem(base.args[2], idx))
    return S.call("getitem", base, idx)


def _load(t):
    import copy

    t2 = copy.copy(t)
    t2.ctx = ast.Load()
    return t2


def _store_keys(t):
    if isinstance(t, ast.Name):
        yield t.id
    elif isinstance(t, ast.Attribute):
        parts = []
        cur = t
        while isinstance(cur, ast.Attribute):
            parts.append(cur.attr)
            cur = cur.value
        if isinstance(cur, ast.Name):
            yield ".".join([cur.id] + list(reversed(parts)))
    elif isinstance(t, (ast.Tuple, ast.List)):
        for e in t.elts:
            yield from _store_keys(e)
    elif isinstance(t, ast.Starred):
        yield from _store_keys(t.value)


def find_stmts(func, pred):
    """Statements of func (any nesting, not nested defs) satisfying pred."""
    return [n for n in func.body_nodes() if isinstance(n, ast.stmt) and pred(n)]


def find_calls(func, pred):
    return [n for n in func.body_nodes() if isinstance(n, ast.Call) and pred(n)]


def enclosing_stmt(func, node):
    """The innermost statement of func containing node."""
    best = None
    for st in func.body_nodes():
        if isinstance(st, ast.stmt):
            for n in ast.walk(st) if not isinstance(st, (ast.If, ast.For, ast.While, ast.With, ast.Try)) else _header_nodes(st):
                if n is node:
                    best = st
    return best


def _header_nodes(st):
    from .cfg import header_walk

    return header_walk(st)
