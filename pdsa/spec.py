"""Specification tables (DESIGN §2).  Each entry is a normal form transcribed from
the cited source; code is compared against them semantically, never textually."""

from fractions import Fraction

from . import sym as S


# ------------------------------------------------------------------- G.711
def g711_ulaw_expand(code):
    """ITU-T G.711 mu-law expansion to 16-bit linear PCM (bit-field definition)."""
    u = ~code & 0xFF
    sign = u & 0x80
    exponent = (u >> 4) & 0x07
    mantissa = u & 0x0F
    sample = (((mantissa << 3) + 0x84) << exponent) - 0x84
    return -sample if sign else sample


def g711_alaw_expand(code):
    """ITU-T G.711 A-law expansion to 16-bit linear PCM (bit-field definition,
    13-bit value left-aligned in 16 bits as in the reference tables)."""
    a = code ^ 0x55
    sign = a & 0x80
    exponent = (a >> 4) & 0x07
    mantissa = a & 0x0F
    if exponent == 0:
        sample = (mantissa << 4) + 8
    else:
        sample = ((mantissa << 4) + 0x108) << (exponent - 1)
    return sample if sign else -sample


G711 = {
    "ULAW2PCM": [g711_ulaw_expand(c) for c in range(256)],
    "ALAW2PCM": [g711_alaw_expand(c) for c in range(256)],
}

# ------------------------------------------------------------ Odeh & Evans 1974
# Rational approximation of the normal quantile, coefficients p0..p4, q0..q4 as
# published (Odeh & Evans 1974, Algorithm AS 70; through Brophy 1985).
ODEH_EVANS_P = ["0.322232431088", "1", "0.342242088547", "0.0204231210245", "0.0000453642210148"]
ODEH_EVANS_Q = ["0.099348462606", "0.588581570495", "0.531103462366", "0.10353775285", "0.0038560700634"]
ODEH_EVANS_TAIL = "1e-20"  # below this tail probability the result saturates (property C20: accurate for min(p,1-p) >= 1e-20)

# ----------------------------------------------------------------- windows
# class name -> (numpy generator, DC coefficient a0 of the window)
WINDOWS = {
    "BartlettWindow": ("numpy.bartlett", Fraction(1, 2)),
    "BlackmanWindow": ("numpy.blackman", Fraction(42, 100)),
    "HammingWindow": ("numpy.hamming", Fraction(54, 100)),
    "HannWindow": ("numpy.hanning", Fraction(1, 2)),
}

# ---------------------------------------------------------------- STFT geometry
L, Sh, N, Dft = S.sym("L"), S.sym("S"), S.sym("N"), S.sym("D")


def geom_pad_left(style, kaldi_shift):
    """Left reflection padding (frame_style / kaldi_shift docstrings, C02 statement)."""
    if style == "causal":
        return S.ZERO
    if kaldi_shift:
        return L // 2 - Sh // 2
    return (L + 1) // 2 - 1


GEOM = {
    "num_frames": (N + Sh // 2) // Sh,
    "empty_below": L // 2 + 1,  # compute_full returns no frame iff N < L//2 + 1
    "half_len": Dft // 2 + 1,
    "mirror_capacity": Dft - (Dft // 2 + 1),  # number of negative-frequency bins
    "mirror_first": -(2 - Dft % 2),  # python index (from the end of the half spectrum) of the first mirrored bin
}

FORCE_AS = {"table", "wav", "hdf5", "npy", "npz", "pt", "sph", "kaldi", "file", "soundfile"}
