"""pdsa - pydrobert-speech static analysis.

Every check parses /repo's *current* working tree with the standard library ``ast``
module and decides repository-specific rules on the resulting program model.  Nothing
in this package imports or executes pydrobert.speech, NumPy or torch.
"""

import os

REPO = os.environ.get("PDSA_REPO", "/repo")
PKG_REL = "src/pydrobert/speech"
VERIF = os.path.dirname(os.path.dirname(os.path.abspath(__file__)))
