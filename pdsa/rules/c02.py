"""C02 - STFT coefficients equal their documented definition (NumPy computer)."""

import ast

from .. import astq, spec
from .. import sym as S
from ..report import MISSING
from ..model import AnalysisError
from ..symeval import SymEval
from . import cli_common as cc
from . import stft_common as sc

LEVEL = "other"
TECHNIQUE = ("closed-form comparison (quasi-affine residue tables, rational normal forms, witnesses) of compute_full's "
             "framing geometry and of the per-frame mirrored-bin arithmetic with the documented definition; structural "
             "rules on the segment walk, real doubling, log floor, energy and default frame length")
EXPLANATION = (
    "Decides on compute.STFTFrameComputer: for the three framing configurations the emptiness threshold, the column "
    "count on every return, symmetric left/right padding, frame count, frame slice and loop count equal the documented "
    "geometry as exact closed forms; in _compute_frame the half spectrum is rfft(frame*window, n=D), the direct and "
    "mirrored (negative-frequency) segment lengths, slice bounds, direction, conjugation and start decrements equal the "
    "DFT's Hermitian layout for every D (odd and even), the walk consumes the truncated filter exactly once with "
    "alternating segments, real banks are doubled once before the log, every log is floored at config.LOG_FLOOR_VALUE "
    "under use_log, the energy coefficient is <frame,frame>/L of the unwindowed frame (square-rooted iff not "
    "use_power) at index 0 iff include_energy, and the default frame length is max(longest support, "
    "ceil(2*rate/narrowest band)). Does NOT decide that the floating-point sums equal the full-spectrum definition "
    "for all banks and signals, nor the values returned by get_truncated_response.")


def run(ctx):
    ctx.rule(geom)
    ctx.rule(mirror)
    ctx.rule(frame_routine)
    ctx.rule(default_length)
    ctx.rule(default_window)
    ctx.rule(logfloor)
    ctx.rule(filters_stored_whole)
    ctx.rule(log_floor_live)
    ctx.rule(any_layout)


def geom(ctx, R="R-C02-geom"):
    prog = ctx.prog
    RC = "R-C02-columns" if R.startswith("R-C02") else R
    n = 0
    for style, kaldi in sc.CONFIGS:
        g = sc.np_full_geometry(ctx, R, style, kaldi)
        f = g["func"]
        name = sc.cfg_name(style, kaldi)
        n += 1
        guard, rows, cols, node = g["empty"]
        fg, frows, fcols, fnode = g["full"]
        nf = spec.GEOM["num_frames"]
        short = S.cmp("<", sc.N, spec.GEOM["empty_below"])
        rows_want = S.cond(short, S.ZERO, nf)
        T = sc.lt_threshold(guard)
        if T is not None:
            sc.same(ctx, R, f, node, "[%s] emptiness threshold" % name, T, spec.GEOM["empty_below"])
        # whichever way the cases are split: rows(N) = 0 below the threshold, (N + S//2)//S from it on
        sc.same(ctx, R, f, fnode, "[%s] rows of the result, as a function of N over both returns" % name, S.cond(guard, S.ZERO, frows), rows_want)
        res = S.compare(cols, fcols, domain={})
        ctx.check(res["verdict"] == "equal", RC, f, node, "[%s] empty and full results have the same number of columns" % name,
                  "the empty result has %s columns but the full one %s" % (S.show(cols), S.show(fcols)))
        want_cols = S.add(S.sym("self._bank.num_filts"), S.call("int", S.sym("self._include_energy")))
        res = S.compare(fcols, want_cols, domain={})
        ctx.check(res["verdict"] == "equal", RC, f, fnode, "[%s] the result has num_filts + int(include_energy) columns" % name,
                  "the result has %s columns" % S.show(fcols))
        sc.same(ctx, R, f, g["loop_node"], "[%s] number of frames computed" % name, S.cond(guard, S.ZERO, g["loop_count"]), rows_want)
        k = g["loop_var"]
        sc.same(ctx, R, f, g["frame_node"], "[%s] frame k starts at k*S of the padded signal" % name, g["frame_lo"], S.mul(k, sc.Sh),
                domain=dict(sc.DOM, **{k.args[0]: sc.DOM["N"]}))
        sc.same(ctx, R, f, g["frame_node"], "[%s] frame length" % name, S.sub(g["frame_hi"], g["frame_lo"]), sc.L,
                domain=dict(sc.DOM, **{k.args[0]: sc.DOM["N"]}))
        pl_want = spec.geom_pad_left(style, kaldi)
        pr_want = S.emax(S.ZERO, S.sub(S.add(S.sub(S.mul(S.sub(nf, S.ONE), sc.Sh), pl_want), sc.L), sc.N))
        if g["pad"] is None:
            raise AnalysisError("%s: np.pad not found on the frame's def-use chain" % R)
        ctx.check(g["pad"]["mode"] == S.lift("symmetric"), R, f, g["frame_node"], "[%s] padding mode is 'symmetric' (reflection including the edge sample)" % name,
                  "padding mode is %s" % S.show(g["pad"]["mode"]))
        ctx.check(g["pad"]["src"] == S.sym(f.params[1]), R, f, g["frame_node"], "[%s] the signal itself is padded" % name,
                  "np.pad is applied to %s" % S.show(g["pad"]["src"])[:80])
        # paddings matter on the path that computes at least one frame
        act = S.eand(S.enot(guard), S.cmp(">", g["loop_count"], S.ZERO))
        act_want = S.eand(S.enot(short), S.cmp(">", nf, S.ZERO))
        sc.same(ctx, R, f, g["frame_node"], "[%s] left padding (when a frame is computed)" % name, S.cond(act, g["pad"]["left"], S.ZERO), S.cond(act_want, pl_want, S.ZERO))
        sc.same(ctx, R, f, g["frame_node"], "[%s] right padding (when a frame is computed)" % name, S.cond(act, g["pad"]["right"], S.ZERO), S.cond(act_want, pr_want, S.ZERO))
    ctx.floor(R, n, 3)


def constructor_state(prog, D, s, T):
    """The fields the STFT constructor's loop over the bank stores for one filter whose truncated response starts at bin s and has
    T values, evaluated by the checker's interpreter: ({'self.<field>': value}, H).  Raises walk.Unsupported / walk.ShapeError."""
    from .. import walk as W
    c = prog.cls("compute.ShortTimeFourierTransformFrameComputer")
    init = prog.own_method(c, "__init__")
    loops = [n for n in init.body_nodes() if isinstance(n, ast.For) and any(astq.attr_call(x, "get_truncated_response") for x in ast.walk(n))]
    if len(loops) != 1:
        raise W.Unsupported("the constructor's loop over the bank's truncated responses was not found")
    lists = [astq.text(t) for n in init.body_nodes() if isinstance(n, ast.Assign) and isinstance(n.value, ast.List) and not n.value.elts for t in n.targets]
    bankname = "bank"
    for x in ast.walk(loops[0]):
        if astq.attr_call(x, "get_truncated_response"):
            bankname = astq.text(x.func.value)
    H = W.Arr([("H", j, False) for j in range(T)])
    env = {"self._dft_size": D, "dft_size": D, bankname + ".num_filts": 1, "self._bank.num_filts": 1, "bank.num_filts": 1, "self.num_filts": 1}
    for l_ in lists:
        env[l_] = []
    it = W.Interp(env, hooks={"get_truncated_response": lambda interp, call: (s, H)})
    it.run([loops[0]])
    return {k: v for k, v in it.env.items() if k.startswith("self.")}, H


def walk_by_evaluation(ctx, R="R-C02-walk"):
    """Coefficient i is the sum over ALL bins of the DFT of |H_i[k] X[k]|^p, with H_i given as a start bin s and a run of T
    values that may wrap round the end of the spectrum, and X available as the half spectrum only (bins above D/2 are the
    conjugates of bins D-k).  Whether the constructor's stored start bins and the frame routine's walk realise that sum is a
    question about which (bin, conjugated?, tap) triples get multiplied - decided here by evaluating both loops with the checker's
    own interpreter (pdsa/walk.py) for every DFT size up to 10, every start bin and every run length, and comparing the triples
    with the definition.  Returns True when the walk was decided (either way); False when it is written with constructs outside
    the interpreter's vocabulary, in which case the closed-form clauses below take over."""
    from .. import walk as W
    prog = ctx.prog
    c = prog.cls("compute.ShortTimeFourierTransformFrameComputer")
    init, fr = prog.own_method(c, "__init__"), prog.own_method(c, "_compute_frame")
    what = "the stored start bins and the segment walk multiply tap j of a filter with bin (s + j) mod D, read from the half spectrum (conjugated above D/2)"
    init_loops = [n for n in init.body_nodes() if isinstance(n, ast.For) and any(astq.attr_call(x, "get_truncated_response") for x in ast.walk(n))]
    fr_loops = [n for n in fr.body_nodes() if isinstance(n, ast.For) and any(
        isinstance(x, ast.Subscript) and isinstance(x.ctx, ast.Store) and astq.is_name(x.value, fr.params[2]) for x in ast.walk(n))]
    spect = sorted({t.id for n in fr.body_nodes() if isinstance(n, ast.Assign) and any(astq.attr_call(x, "rfft") for x in ast.walk(n.value))
                    for t in n.targets if isinstance(t, ast.Name)})
    if len(init_loops) != 1 or len(fr_loops) != 1 or len(spect) != 1:
        return False
    pm_i, pm_f = astq.parents(init), astq.parents(fr)
    if any(isinstance(a, (ast.For, ast.While)) for a in astq.ancestors(pm_i, init_loops[0])) or any(isinstance(a, (ast.For, ast.While)) for a in astq.ancestors(pm_f, fr_loops[0])):
        return False
    lists = [astq.text(t) for n in init.body_nodes() if isinstance(n, ast.Assign) and isinstance(n.value, ast.List) and not n.value.elts for t in n.targets]
    bankname = None
    for x in ast.walk(init_loops[0]):
        if astq.attr_call(x, "get_truncated_response"):
            bankname = astq.text(x.func.value)
    pre = []
    for st in fr.node.body:
        if st is fr_loops[0] or any(y is fr_loops[0] for y in ast.walk(st)):
            break
        pre.append(st)
    container = fr_loops[0]
    for st in fr.node.body:
        if st is not fr_loops[0] and any(y is fr_loops[0] for y in ast.walk(st)):
            return False      # the per-filter loop sits under a condition: not modelled

    def scenario(D, s, T, L, real=False):
        H = W.Arr([("H", j, False) for j in range(T)])

        def gtr(interp, call):
            return (s, H)
        env = {"self._dft_size": D, "dft_size": D, bankname + ".num_filts": 1, "self._bank.num_filts": 1, "bank.num_filts": 1, "self.num_filts": 1}
        for l_ in lists:
            env[l_] = []
        it = W.Interp(env, hooks={"get_truncated_response": gtr})
        it.run([init_loops[0]])
        half_len = D // 2 + 1
        env2 = {k: v for k, v in it.env.items() if k.startswith("self.")}
        env2.update({"self._real": real, "self.is_real": real, "self._log": False, "self._power": False, "self._include_energy": False, "self.includes_energy": False,
                     "self._frame_length": L, "self.frame_length": L, "self.num_coeffs": 1, "config.USE_FFTPACK": False, fr.params[2]: [None],
                     spect[0]: W.Arr([("X", k, False) for k in range(half_len)])})
        it2 = W.Interp(env2)
        # integer bookkeeping that precedes the loop (half_len = len(half_spect) ...): evaluated where it can be
        def quiet(stmts):
            for st in stmts:
                if isinstance(st, ast.If):
                    try:
                        t = it2.truth(it2.ev(st.test))
                    except (W.Unsupported, W.ShapeError):
                        continue
                    quiet(st.body if t else st.orelse)
                elif isinstance(st, (ast.Assign, ast.AugAssign)):
                    tg = st.targets if isinstance(st, ast.Assign) else [st.target]
                    if any(isinstance(x, ast.Name) and x.id in (spect[0], fr.params[2]) for t_ in tg for x in ast.walk(t_)):
                        continue
                    try:
                        it2.run([st])
                    except (W.Unsupported, W.ShapeError):
                        continue
        quiet(pre)
        it2.stores = []
        it2.run([fr_loops[0]])
        outs = [v for b, i, v in it2.stores if b == fr.params[2] and i == 0]
        if len(outs) != 1:
            raise W.Unsupported("coefficient store not found")
        v = outs[0]
        if isinstance(v, int) and v == 0:
            got = []
        elif isinstance(v, W.Terms):
            got = list(v.pairs)
        else:
            raise W.Unsupported("coefficient is %s" % type(v).__name__)

        def norm(x):
            (n1, i1, c1), (n2, i2, c2) = x
            if n1 == "H":
                (n1, i1, c1), (n2, i2, c2) = (n2, i2, c2), (n1, i1, c1)
            if n1 != "X" or n2 != "H":
                raise W.Unsupported("product of %s and %s" % (n1, n2))
            if i1 == 0 or (D % 2 == 0 and i1 == D // 2):
                c1 = False
            return (i1, c1 != c2, i2)
        got = sorted(norm(x) for x in got)
        want = []
        for j in range(T):
            k = (s + j) % D
            want.append((k, False, j) if k <= D // 2 else (D - k, True, j))
        want = sorted((i, (False if (i == 0 or (D % 2 == 0 and i == D // 2)) else cj), j) for i, cj, j in want)
        return got, want

    n = 0
    try:
        for D in range(2, 11):
            for s_ in range(D):
                for T, L in [(T_, L_) for T_ in range(0, D + 1) for L_ in ((D, D - 1) if D > 2 else (D,))]:
                    n += 1
                    try:
                        got, want = scenario(D, s_, T, L)
                    except W.ShapeError as e:
                        ctx.bad(R, fr, fr_loops[0], "for a DFT of %d bins (frame length %d) and a filter that starts at bin %d with %d value(s), evaluating the constructor's loop and the "
                                "segment walk fails: %s" % (D, L, s_, T, e), what, robust=True)
                        return True
                    if got == want and s_ + T <= D // 2 + 1 and L == D:
                        # a real bank: its filters stay inside the half spectrum; the doubled sum pairs the same elements
                        try:
                            got, want = scenario(D, s_, T, L, real=True)
                        except W.ShapeError as e:
                            ctx.bad(R, fr, fr_loops[0], "for a real bank, a DFT of %d bins and a filter that starts at bin %d with %d value(s), evaluating the "
                                    "segment walk fails: %s" % (D, s_, T, e), what, robust=True)
                            return True
                    if got != want:
                        def show(tr):
                            return ", ".join("%sX[%d]*H[%d]" % ("conj " if cj else "", i, j) for i, cj, j in tr[:8]) + (" ..." if len(tr) > 8 else "") or "nothing"
                        missing = [t for t in want if t not in got]
                        extra = [t for t in got if t not in want]
                        ctx.bad(R, fr, fr_loops[0], "for a DFT of %d bins (frame length %d) and a filter that starts at bin %d with %d value(s) the walk multiplies %s ; the sum over all "
                                "bins needs %s (missing: %s; not part of the sum: %s)" % (D, L, s_, T, show(got), show(want), show(missing), show(extra)), what, robust=True)
                        return True
    except W.Unsupported as e:
        if n > 1:
            ctx.error(R, "cannot decide the segment walk by evaluation (%s after %d size combinations)" % (e, n))
            return True
        return False
    ctx.ok(R, fr.loc(fr_loops[0]), what, "%d combinations of DFT size (2..10), start bin and run length evaluated" % n)
    return True


def mirror(ctx, R="R-C02-mirror"):
    if walk_by_evaluation(ctx):
        ctx._walk_decided = True
        return
    m = sc.np_mirror(ctx, R)
    sc.check_mirror(ctx, R, m, S.sym("start_idx"), S.call("len", S.call("getitem", S.sym("self._truncated_filts"), S.sym("filt_idx"))), flipped_slices=False)
    f = m["func"]
    w = m["while"]
    R2 = "R-C02-walk"
    ctx.check(astq.in_texts(w.test, ("consumed<trunc_len", "trunc_len>consumed", "consumed<len(truncated_filt)",)), R2, f, w,
              "the walk continues until the truncated filter is consumed", "walk condition is %s" % astq.text(w.test), structural=True)
    alt = [s for s in w.body if isinstance(s, ast.Assign) and astq.is_name(s.targets[0], "conjugate")]
    ctx.check(len(alt) == 1 and astq.text(alt[0].value) == "not conjugate", R2, f, alt[0] if alt else MISSING(w),
              "direct and mirrored segments alternate", "alternation is %s" % (astq.text(alt[0].value) if alt else None), structural=True)
    clamp = [s for s in w.body if isinstance(s, ast.Assign) and astq.is_name(s.targets[0], "start_idx")]
    ctx.check(len(clamp) == 1 and astq.in_texts(clamp[0].value, ("max(0,start_idx)", "max(start_idx,0)",)), R2, f,
              clamp[0] if clamp else MISSING(w), "the next start bin is clamped at 0", "start-bin clamp is %s" % (astq.text(clamp[0].value) if clamp else None), structural=True)
    # initial state of the walk, per filter
    pm = astq.parents(f)
    loop = [a for a in astq.ancestors(pm, w) if isinstance(a, ast.For)]
    ctx.need(len(loop) == 1, R2, "per-filter loop not found")
    inits = {astq.text(s.targets[0]): astq.text(s.value) for s in loop[0].body if isinstance(s, ast.Assign) and len(s.targets) == 1}
    ok = inits.get("consumed") == "0" and inits.get("conjugate") == "False" and inits.get("val") == "0" and \
        inits.get("start_idx") == "self._filt_start_idxs[filt_idx]" and inits.get("truncated_filt") == "self._truncated_filts[filt_idx]"
    ctx.check(ok, R2, f, loop[0], "each filter starts a fresh walk at its own start bin with its own truncated response",
              "per-filter initialisation is %s" % inits)
    ctx.check(astq.in_texts(loop[0].iter, ("range(len(self._filt_start_idxs))", "range(len(self._truncated_filts))", "range(self._bank.num_filts)",)),
              R2, f, loop[0], "every filter of the bank is visited in order", "filter loop iterates %s" % astq.text(loop[0].iter), structural=True)
    st = [s for s in loop[0].body if isinstance(s, ast.Assign) and astq.text(s.targets[0]) == "coeffs[filt_idx]"]
    ctx.check(len(st) == 1 and astq.text(st[0].value) == "val", R2, f, st[0] if st else MISSING(loop[0]), "coefficient i is stored at index i",
              "coefficient store is %s" % (astq.text(st[0]) if st else None), structural=True)


def frame_routine(ctx):
    prog = ctx.prog
    f = prog.func("compute.ShortTimeFourierTransformFrameComputer._compute_frame")
    # half spectrum: rfft(frame * window, n=D)
    R = "R-C02-spectrum"
    ev = SymEval(prog, f, seed={"pydrobert.speech.config.USE_FFTPACK": False, "self._include_energy": False}, rename=sc.NP_RENAME).run()
    hs = [n for n in f.body_nodes() if isinstance(n, ast.Assign) and astq.is_name(n.targets[0], "half_spect") and ev.reached(n)]
    ctx.need(len(hs) == 1, R, "half_spect assignment (numpy branch) not found")
    v = ev.eval_at(hs[0], hs[0].value)
    want = S.call("np.fft.rfft", S.mul(S.sym("frame"), S.sym("self._window")), S.call("kw:n", sc.D))
    ctx.check(S.compare(v, want, domain={})["verdict"] == "equal", R, f, hs[0], "half spectrum is rfft(frame * window, n=D)",
              "half spectrum is %s" % S.show(v)[:120])
    # real doubling, once, before the log
    R2 = "R-C02-real2x"
    for real in (True, False):
        for log in (True, False):
            ev = SymEval(prog, f, seed={"self._real": real, "self._log": log, "pydrobert.speech.config.USE_FFTPACK": False,
                                        "self._include_energy": False}, rename=sc.NP_RENAME).run()
            st = [s for s in f.body_nodes() if isinstance(s, ast.Assign) and astq.text(s.targets[0]) == "coeffs[filt_idx]" and ev.reached(s)]
            ctx.need(len(st) == 1, R2, "coefficient store not found")
            pm = astq.parents(f)
            loop = [a for a in astq.ancestors(pm, st[0]) if isinstance(a, ast.For)][0]
            w = [n for n in loop.body if isinstance(n, ast.While)][0]
            evb = cc.body_eval(prog, f, loop.body[loop.body.index(w) + 1:], seed={"self._real": real, "self._log": log})
            val = evb.env.get("coeffs[filt_idx]")
            v0 = S.sym("val")
            inner = S.mul(v0, S.lift(2)) if real else v0
            want = S.call("log", S.emax(inner, S.sym("pydrobert.speech.config.LOG_FLOOR_VALUE"))) if log else inner
            ok = val is not None and S.compare(val, want, domain={})["verdict"] == "equal"
            ctx.check(ok, R2 if not log else "R-C02-logfloor", f, st[0],
                      "real=%s, use_log=%s: coefficient = %s" % (real, log, S.show(want)),
                      "with a %s bank and use_log=%s the coefficient is %s, expected %s"
                      % ("real" if real else "complex", log, S.show(val) if val is not None else None, S.show(want)))
    # provenance of the flags
    init = prog.func("compute.ShortTimeFourierTransformFrameComputer.__init__")
    prov = {}
    for n in init.body_nodes():
        if isinstance(n, ast.Assign) and len(n.targets) == 1 and astq.is_self_attr(n.targets[0], "self"):
            prov[n.targets[0].attr] = astq.text(n.value)
    for attr, want in (("_real", "bank.is_real"), ("_log", "use_log"), ("_power", "use_power"), ("_kaldi_shift", "kaldi_shift")):
        ctx.check(prov.get(attr) in (want, "bool(%s)" % want), R2, init, init.node, "self.%s is %s" % (attr, want), "self.%s is assigned %s" % (attr, prov.get(attr)))
    ops = [n for n in init.body_nodes() if isinstance(n, ast.If) and astq.text(n.test) in ("self._power", "use_power")]
    ok = len(ops) == 1 and astq.text(ops[0].body[0]) == "self._nonlin_op = _power" and astq.text(ops[0].orelse[0]) == "self._nonlin_op = _mag"
    ctx.check(ok, R2, init, ops[0] if ops else MISSING(init.node), "use_power selects the squared-modulus sum, otherwise the modulus sum",
              "non-linearity selection is not `_power if use_power else _mag`")
    pw, mg = prog.func("compute._power"), prog.func("compute._mag")
    ctx.check(astq.in_texts(astq.returns_of(pw)[0].value, ("np.linalg.norm(x,ord=2)**2", "np.sum(np.abs(x)**2)",)), R2, pw, pw.node,
              "_power is the sum of squared moduli", "_power is %s" % astq.text(astq.returns_of(pw)[0].value), structural=True)
    ctx.check(astq.in_texts(astq.returns_of(mg)[0].value, ("np.sum(np.abs(x))", "np.abs(x).sum()",)), R2, mg, mg.node,
              "_mag is the sum of moduli", "_mag is %s" % astq.text(astq.returns_of(mg)[0].value), structural=True)
    # energy
    R3 = "R-C02-energy"
    for power in (True, False):
        for log in (True, False):
            ev = SymEval(prog, f, seed={"self._include_energy": True, "self._power": power, "self._log": log,
                                        "pydrobert.speech.config.USE_FFTPACK": False}, rename=sc.NP_RENAME, inline_props=True).run()
            en = [n for n in f.body_nodes() if isinstance(n, ast.If) and "includes_energy" in astq.text(n.test) or
                  (isinstance(n, ast.If) and "_include_energy" in astq.text(n.test))]
            ctx.need(len(en) == 1, R3, "energy branch not found")
            evb = cc.body_eval(prog, f, en[0].body, seed={"self._power": power, "self._log": log}, rename=sc.NP_RENAME)
            e0 = evb.env.get("coeffs[0]")
            base = S.truediv(S.call("np.inner", S.sym("frame"), S.sym("frame")), sc.L)
            if not power:
                base = S.power(base, S.lift(S.Fraction(1, 2)))
            want = S.call("log", S.emax(base, S.sym("pydrobert.speech.config.LOG_FLOOR_VALUE"))) if log else base
            ok = e0 is not None and S.compare(e0, want, domain={})["verdict"] == "equal"
            ctx.check(ok, R3, f, en[0], "use_power=%s, use_log=%s: energy = %s" % (power, log, S.show(want)),
                      "energy coefficient with use_power=%s, use_log=%s is %s, expected %s" % (power, log, S.show(e0) if e0 is not None else None, S.show(want)))
            rest = evb.env.get("coeffs")
            okr = rest is not None and "slice(1, None, None)" in S.show(rest)
            ctx.check(okr, R3, f, en[0], "the filter coefficients follow the energy at index 1..", "after the energy, coeffs is %s" % (S.show(rest) if rest is not None else None))


def default_window(ctx, R="R-C02-default-window", cls="compute.ShortTimeFourierTransformFrameComputer", attr="self._window"):
    """the window that multiplies every frame: Gamma when the (given or defaulted) frame style is causal, Hann otherwise;
    a frame style given explicitly decides, whatever the bank's phase"""
    prog = ctx.prog
    init = prog.func(cls + ".__init__")
    n = 0
    for style, want in (("causal", "GammaWindow"), ("centered", "HannWindow")):
        ev = SymEval(prog, init, seed={"frame_style": style, "window_function": None}, rename={}).run()
        wv = ev.env.get(attr)
        if wv is None:
            # the window may be reshaped before it is stored: look at every call evaluated in the constructor
            wv = next((v for k, v in ev.env.items() if any(cc.is_call(x, ".get_impulse_response") for x in S.walk(v))), None)
        ctx.need(wv is not None, R, "window not found in %s.__init__" % cls)
        gets = [x for x in S.walk(wv) if cc.is_call(x, ".get_impulse_response")]
        ctx.need(gets, R, "the stored window is not a get_impulse_response(...) of a window function: %s" % S.show(wv)[:100])
        recv = gets[0].args[1]
        n += 1
        ok = recv.op == "call" and isinstance(recv.args[0], str) and recv.args[0].split(".")[-1] == want and len(recv.args) == 1
        ctx.check(ok, R, init, init.node, "frame_style='%s' without a window_function: the window is %s()" % (style, want),
                  "with frame_style='%s' given and window_function left to its default the window is %s, not %s(): the documented default "
                  "follows the frame style, not the bank's phase (e.g. causal frames over a zero-phase bank)" % (style, S.show(recv)[:120], want))
    ev = SymEval(prog, init, seed={"frame_style": None, "window_function": None}, rename={}).run()
    fs = ev.env.get("self._frame_style")
    ok = fs is not None and fs.op == "cond" and "is_zero_phase" in S.show(fs.args[0]) and fs.args[1] == S.lift("centered") and fs.args[2] == S.lift("causal")
    ctx.check(ok, R, init, init.node, "an unspecified frame_style is 'centered' for zero-phase banks and 'causal' otherwise",
              "default frame style is %s" % (S.show(fs)[:120] if fs is not None else None))
    ctx.floor(R, n, 2)


def default_length(ctx, R="R-C02-default-length"):
    prog = ctx.prog
    init = prog.func("compute.ShortTimeFourierTransformFrameComputer.__init__")
    ev = SymEval(prog, init, seed={"frame_length_ms": None}, rename={}).run()
    fl = ev.env.get("self._frame_length")
    ctx.need(fl is not None, R, "self._frame_length not assigned")
    s = S.show(fl)
    ok = fl.op == "max" and len(fl.args) == 2
    ctx.check(ok, R, init, init.node, "the default frame length is a maximum of two bounds", "default frame length is %s" % s[:120])
    if ok:
        txt = [S.show(a) for a in fl.args]
        temporal = [t for t in txt if "supports" in t and "supports_hz" not in t]
        spectral = [a for a in fl.args if "supports_hz" in S.show(a)]
        ctx.check(len(temporal) == 1 and temporal[0].startswith("max("), R, init, init.node, "first bound: the longest temporal support",
                  "temporal bound is %s" % temporal)
        oks = False
        if len(spectral) == 1:
            a = spectral[0]
            # int(ceil(2 * rate / min(...)))
            oks = cc.is_call(a, "int") and cc.is_call(a.args[1], "ceil") and a.args[1].args[1].op == "truediv" and \
                S.compare(a.args[1].args[1].args[0], S.mul(S.lift(2), ev.env.get("self._rate", S.sym("?"))), domain={})["verdict"] == "equal" and \
                S.show(a.args[1].args[1].args[1]).startswith("min(")
        ctx.check(oks, R, init, init.node, "second bound: ceil(2 * rate / narrowest band) so that every filter keeps a DFT bin",
                  "spectral bound is %s" % [S.show(a)[:120] for a in spectral])
    # DFT size: next power of two or the frame length
    for pad in (True, False):
        ev = SymEval(prog, init, seed={"pad_to_nearest_power_of_two": pad}, rename={}).run()
        d = ev.env.get("self._dft_size")
        Lf = ev.env.get("self._frame_length")
        want = S.call("int", S.power(S.lift(2), S.call("ceil", S.call("log2", Lf)))) if pad else Lf
        ctx.check(d is not None and S.compare(d, want, domain={})["verdict"] == "equal", R, init, init.node,
                  "pad_to_nearest_power_of_two=%s: DFT size is %s" % (pad, "2**ceil(log2(L))" if pad else "L"),
                  "DFT size with pad=%s is %s" % (pad, S.show(d)[:100] if d is not None else None))
    # the truncated responses are taken at the DFT size, for every filter
    calls = [c for c in astq.func_calls(init) if astq.attr_call(c, "get_truncated_response")]
    ok = len(calls) == 1 and [astq.text(a) for a in calls[0].args] == ["filt_idx", "self._dft_size"]
    ctx.check(ok, R, init, calls[0] if calls else MISSING(init.node), "truncated responses are requested at the DFT size",
              "get_truncated_response is called with %s" % ([astq.text(a) for a in calls[0].args] if calls else None))
    w = [c for c in astq.func_calls(init) if astq.attr_call(c, "get_impulse_response")]
    ok = len(w) == 1 and astq.text(w[0].args[0]) == "self._frame_length"
    ctx.check(ok, R, init, w[0] if w else MISSING(init.node), "the window has frame_length samples", "window width is %s" % (astq.text(w[0].args[0]) if w else None))


def logfloor(ctx, R="R-C02-logfloor"):
    """Package-wide log-floor discipline in compute.py / torch.py."""
    prog = ctx.prog
    n = 0
    for modname in ("compute", "torch"):
        m = prog.module(modname)
        for f in [x for x in prog.functions.values() if x.module is m]:
            pm = None
            from .. import alpha as _alpha
            if _alpha.is_new_function(f.qualname) and not any(
                    (astq.is_name(c_.func, f.name) or (isinstance(c_.func, ast.Attribute) and c_.func.attr == f.name))
                    for g_ in prog.functions.values() if g_.module is m and g_ is not f for c_ in astq.func_calls(g_)):
                continue  # a helper the reference does not have, read through at every call: its body is judged where it is used
            for c in astq.func_calls(f):
                q = prog.qualify(m, c.func, f)
                is_np_log = q in ("numpy.log",)
                is_t_log = isinstance(c.func, ast.Attribute) and c.func.attr == "log" and q is None
                if not (is_np_log or is_t_log):
                    continue
                if f.name == "__init__":
                    continue
                n += 1
                if is_np_log:
                    a = c.args[0]
                    ok = isinstance(a, ast.Call) and (astq.is_name(a.func, "max") or prog.qualify(m, a.func, f) == "numpy.maximum") and \
                        any(prog.qualify(m, x, f) == "pydrobert.speech.config.LOG_FLOOR_VALUE" for x in a.args)
                else:
                    recv = c.func.value
                    ok = isinstance(recv, ast.Call) and isinstance(recv.func, ast.Attribute) and recv.func.attr == "clamp_min"
                    if ok:
                        e = recv.args[0]
                        ok = isinstance(e, ast.Name) and e.id in f.params and \
                            prog.qualify(m, f.defaults.get(e.id), f) == "pydrobert.speech.config.LOG_FLOOR_VALUE" if isinstance(e, ast.Name) and f.defaults.get(e.id) is not None else False
                ctx.check(ok, R, f, c, "log argument is floored at config.LOG_FLOOR_VALUE",
                          "a feature value is passed to log without the LOG_FLOOR_VALUE floor: %s" % astq.text(c)[:120])
                pm = pm or astq.parents(f)
                guards = [astq.text(a.test) for a in astq.ancestors(pm, c) if isinstance(a, ast.If)]
                textual = any(("_log" in g) or ("use_log" in g) for g in guards)
                if not textual:
                    # not under an `if use_log:` - decide on the path condition (early returns, helper predicates)
                    from ..symeval import SymEval
                    from .. import scenario as SC
                    try:
                        ev = SymEval(prog, f).run()
                        g = ev.guard_of(astq.enclosing_stmt(pm, c))
                        off = SC.transform(g, lambda x: S.FALSE if (x.op == "sym" and x.args[0] in ("use_log", "self._log", "self.use_log")) else None)
                        decided = off.is_const
                        textual = decided and not S.truthy(off)
                    except Exception:
                        decided = False
                    if not decided:
                        ctx.error(R, "cannot decide whether the log at %s is taken only under use_log (path condition %s)" % (f.loc(c), guards))
                        continue
                ctx.check(textual, R, f, c, "the log is taken only under use_log",
                          "log is not guarded by the use_log flag (guards: %s)" % guards)
    ctx.floor(R + "/sites", n, 4)



def filters_stored_whole(ctx, R="R-C02-walk"):
    """The computer applies the bank's truncated responses as the bank returns them: what the constructor stores is element 1
    (the response) and element 0 (its first bin) of bank.get_truncated_response(i, dft_size), unmodified - a response cut,
    scaled or re-aligned on the way no longer sums over the bins the documented definition sums over."""
    prog = ctx.prog
    c = prog.cls("compute.ShortTimeFourierTransformFrameComputer")
    f = prog.own_method(c, "__init__")
    ev = SymEval(prog, f).run()
    for attr, pos, what in (("self._truncated_filts", 1, "truncated responses"), ("self._filt_start_idxs", 0, "start bins")):
        if getattr(ctx, "_walk_decided", False) and R.startswith("R-C02"):
            # how start bins and responses are stored was evaluated together with the walk that consumes them (a response that is cut,
            # reversed or re-aligned on the way changes which taps meet which bins; one that is scaled is outside the evaluator's
            # vocabulary and makes the walk rule report "cannot decide")
            ctx.ok(R, f.loc(), "the constructor stores the bank's %s in the form the walk consumes (evaluated with the walk)" % what)
            continue
        v = ev.env.get(attr)
        if v is None or not (cc.is_call(v, "list") and len(v.args) == 2 and cc.is_call(v.args[1], "repeat")):
            ctx.error(R, "cannot decide how the constructor stores the bank's %s: %s" % (what, S.show(v)[:100] if v is not None else "not assigned"))
            continue
        elem = v.args[1].args[1]
        calls = [x for x in S.walk(elem) if isinstance(x, S.E) and cc.is_call(x, ".get_truncated_response")]
        plain = cc.is_call(elem, "getitem") and cc.is_call(elem.args[1], ".get_truncated_response") and elem.args[2] == S.lift(pos)
        if plain:
            ctx.ok(R, f.loc(), "the constructor stores the bank's %s unmodified" % what)
        elif calls and not S.has_unknown(elem):
            ctx.bad(R, f, f.node, "the constructor stores %s as the bank's %s: the response is altered between the bank and the frame computation, so the "
                    "coefficient is no longer the sum over all bins of the bank's response" % (S.show(elem)[:140], what),
                    "the constructor stores the bank's %s unmodified" % what, robust=True)
        else:
            ctx.error(R, "cannot decide how the constructor stores the bank's %s: %s" % (what, S.show(elem)[:120]))


def log_floor_live(ctx, R="R-C02-logfloor"):
    """config.LOG_FLOOR_VALUE is documented as tunable: the floor is read through the config module when a frame is computed,
    not captured in a default argument, a module-level constant, a from-import or (C02: the constructor)"""
    from .c07 import config_live
    config_live(ctx, R, floor=3, module="compute", attr="LOG_FLOOR_VALUE")


def any_layout(ctx, R="R-C02-geom"):
    """every signal is a valid input whatever its memory layout (strided views, Fortran order): nothing is refused on .flags / .strides"""
    from . import partial
    prog = ctx.prog
    c = prog.cls("compute.ShortTimeFourierTransformFrameComputer")
    roots = [m for m in (prog.find_method(c, n) for n in ("compute_full",)) if m is not None]
    partial.layout_independent(ctx, R, roots)
