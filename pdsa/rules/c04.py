"""C04 - a computer's output depends only on the current utterance."""

import ast

from .. import astq
from ..cfg import CFG, header_walk, edges_state
from ..dataflow import containing_node
from ..eff import Effects
from ..report import MISSING
from ..model import AnalysisError, FunctionInfo

LEVEL = "other"
TECHNIQUE = ("reset-completeness rule (must-reinitialise data flow over finalize and the not-started prefix of "
             "compute_chunk, through self.* calls), started typestate, guard-first rule, flow-sensitive alias/effect "
             "analysis of the input arrays with callee summaries")
EXPLANATION = (
    "Decides for both frame computers: every attribute written while an utterance is processed (through "
    "compute_chunk / finalize and the private methods they call) is fully re-initialised - assigned a value that does "
    "not depend on that state, or .fill(const) - on every normal path of finalize, or on every path of the not-started "
    "prefix of the next compute_chunk before it is read (one reasoned exemption: the *contents* of the STFT remainder "
    "buffer, readable only through slices bounded by the reset fill count); started is False after __init__ and every "
    "normal exit of finalize and True after every normal exit of compute_chunk, and the property returns it unmodified; "
    "compute_full overrides and frame_by_frame_calculation raise ValueError under started before any state write or "
    "call; no function reachable from the three entry points writes in place through an alias of the chunk/signal "
    "(so read-only arrays are accepted). Does NOT decide bit-identity of features across histories.")

EXEMPT = {
    ("compute.ShortTimeFourierTransformFrameComputer", "_buf"):
        "contents of the remainder buffer are only ever read through self._buf[-buf_len:] / the last rem_len samples, "
        "and buf_len is reset to 0 by finalize; the first-frame branch overwrites the whole buffer before reading it",
}


def run(ctx):
    prog = ctx.prog
    for cname in ("compute.ShortTimeFourierTransformFrameComputer", "compute.ShortIntegrationFrameComputer"):
        c = prog.cls(cname)
        ctx.rule(reset, c)
        ctx.rule(started, c)
    ctx.rule(guards)
    ctx.rule(readonly)
    ctx.rule(no_module_state)


# ------------------------------------------------------------- attribute effects
def _self_calls(prog, f):
    out = []
    if not f.params:
        return out
    s = f.params[0]
    for c in astq.func_calls(f):
        if isinstance(c.func, ast.Attribute) and astq.is_name(c.func.value, s):
            m = prog.find_method(f.cls, c.func.attr)
            if m is not None and not m.is_property:
                out.append((c, m))
    return out


def closure(prog, f):
    seen, stack = [], [f]
    while stack:
        g = stack.pop()
        if g in seen:
            continue
        seen.append(g)
        for c, m in _self_calls(prog, g):
            stack.append(m)
    return seen


def attr_writes(f):
    """(attr, kind, node): kind in full / partial / aug / fill"""
    out = []
    if not f.params:
        return out
    s = f.params[0]
    for n in f.body_nodes():
        if isinstance(n, ast.Assign):
            for t in n.targets:
                for x in astq.flatten_targets(t):
                    if astq.is_self_attr(x, s):
                        out.append((x.attr, "full", n))
                    elif isinstance(x, ast.Subscript) and astq.is_self_attr(x.value, s):
                        out.append((x.value.attr, "partial", n))
        elif isinstance(n, ast.AugAssign):
            x = n.target
            if astq.is_self_attr(x, s):
                out.append((x.attr, "aug", n))
            elif isinstance(x, ast.Subscript) and astq.is_self_attr(x.value, s):
                out.append((x.value.attr, "partial", n))
        elif isinstance(n, ast.Call) and isinstance(n.func, ast.Attribute) and astq.is_self_attr(n.func.value, s):
            if n.func.attr in ("fill",):
                out.append((n.func.value.attr, "fill", n))
            elif n.func.attr in ("sort", "append", "extend", "pop", "clear", "update", "insert", "resize"):
                out.append((n.func.value.attr, "partial", n))
    return out


def reinit_at(prog, f, M, node_stmt):
    """attributes fully re-initialised by this statement (value independent of M)"""
    out = set()
    s = f.params[0]
    n = node_stmt
    if isinstance(n, ast.Assign):
        dep = {x.attr for x in ast.walk(n.value) if astq.is_self_attr(x, s) and x.attr in M}
        tgts = []
        for t in n.targets:
            tgts.extend(astq.flatten_targets(t))
        for x in tgts:
            if astq.is_self_attr(x, s) and not dep:
                out.add(x.attr)
    for x in header_walk(n) if not isinstance(n, (ast.FunctionDef, ast.ClassDef)) else []:
        if isinstance(x, ast.Call) and isinstance(x.func, ast.Attribute) and x.func.attr == "fill" and astq.is_self_attr(x.func.value, s):
            if x.args and isinstance(x.args[0], ast.Constant):
                out.add(x.func.value.attr)
    return out


def must_reinit(prog, f, M, assume=None, depth=0):
    """Forward must-analysis: returns (set at normal exit, per-return sets, reads-before-reinit).

    ``assume`` maps a test text (e.g. 'self._started') to the branch taken."""
    cfg = CFG(f.node)
    assume = assume or {}
    s = f.params[0]
    early_reads = []

    def transfer(n, state):
        st = cfg.stmt[n]
        if st is None:
            return state
        cur = set(state)
        # calls to self methods: add their own must set (under the same assumptions)
        for x in header_walk(st) if not isinstance(st, (ast.FunctionDef, ast.ClassDef)) else []:
            if isinstance(x, ast.Call) and isinstance(x.func, ast.Attribute) and astq.is_name(x.func.value, s) and depth < 4:
                m = prog.find_method(f.cls, x.func.attr)
                if m is not None and not m.is_property and m is not f:
                    sub, _, _ = must_reinit(prog, m, M, assume, depth + 1)
                    cur |= sub
        cur |= reinit_at(prog, f, M, st)
        res = frozenset(cur)
        if isinstance(st, ast.If):
            t = astq.text(st.test)
            if t in assume:
                return edges_state(T=res if assume[t] else None, F=None if assume[t] else res, default=res, exc=res)
            if t.startswith("not ") and t[4:] in assume:
                v = not assume[t[4:]]
                return edges_state(T=res if v else None, F=None if v else res, default=res, exc=res)
        return res

    def join(a, b):
        return a & b

    instate, outstate = cfg.forward(frozenset(), transfer, join, skip_exc=True)
    per_return = {}
    for r in cfg.returns:
        if r in outstate:
            o = outstate[r]
            per_return[r] = o if isinstance(o, frozenset) else o.get(None)
    exit_state = instate.get(CFG.EXIT)
    return (set(exit_state) if exit_state is not None else set(M)), per_return, cfg


def reset(ctx, c, R="R-C04-reset"):
    prog = ctx.prog
    chunk = prog.own_method(c, "compute_chunk")
    fin = prog.own_method(c, "finalize")
    init = prog.own_method(c, "__init__")
    funcs = []
    for g in closure(prog, chunk) + closure(prog, fin):
        if g not in funcs and g is not init and g.name != "compute_full":
            funcs.append(g)
    M = {}
    for g in funcs:
        for attr, kind, node in attr_writes(g):
            M.setdefault(attr, []).append((g, kind, node))
    ctx.info.setdefault("mutable_state", {})[c.short] = sorted(M)
    ctx.floor(R + "/" + c.name, len(M), 4 if "Fourier" in c.name else 6)
    names = set(M)
    fin_exit, fin_returns, fcfg = must_reinit(prog, fin, names)
    # not-started prefix of compute_chunk: everything re-initialised on all paths, assuming started is False
    chunk_exit, chunk_returns, ccfg = must_reinit(prog, chunk, names, assume={"self._started": False, "self.started": False})
    # reads of an attribute in compute_chunk before it is re-initialised there invalidate (b)
    read_first = _read_before_reinit(prog, chunk, names)
    for attr in sorted(names):
        # the exemption speaks of the buffer's contents: it covers in-place writes only.  Re-binding the attribute makes its dtype
        # and size part of the state that outlives the utterance
        if (c.short, attr) in EXEMPT and all(kind in ("partial", "fill") for _, kind, _ in M[attr]):
            ctx.ok(R, c.loc(), "%s.%s exempt: %s" % (c.name, attr, EXEMPT[(c.short, attr)]))
            ctx.assume("R-C04-reset exemption %s.%s: %s" % (c.name, attr, EXEMPT[(c.short, attr)]))
            continue
        in_fin = attr in fin_exit and all(attr in v for v in fin_returns.values())
        in_chunk = attr in chunk_exit and attr not in read_first
        if in_fin:
            ctx.ok(R, fin.loc(), "%s.%s is re-initialised on every normal path of finalize" % (c.name, attr))
        elif in_chunk:
            ctx.ok(R, chunk.loc(), "%s.%s is re-initialised on every path of the not-started prefix of compute_chunk before it is read" % (c.name, attr))
        else:
            # find the offending exit of finalize
            bad_ret = [fcfg.stmt[r] for r, v in fin_returns.items() if attr not in v]
            where = bad_ret[0] if bad_ret else MISSING(fin.node)
            g, kind, node = M[attr][0]
            ctx.bad(R, fin, where,
                    "self.%s is modified while an utterance is processed (e.g. in %s: %s) but is neither re-initialised on every "
                    "normal path of finalize%s nor by the not-started prefix of the next compute_chunk%s; a later utterance on the "
                    "same instance would see state of the previous one"
                    % (attr, g.name, astq.text(node)[:80],
                       " (this exit skips it)" if bad_ret else "",
                       " (it is read there first)" if attr in read_first else ""),
                    "state %s.%s is reset between utterances" % (c.name, attr))


def _read_before_reinit(prog, f, M, assume=None, init=frozenset(), depth=0):
    """Attributes of M that f (with the self-methods it calls, in call order) may read on some path - feasible under
    ``assume`` (no utterance in progress) - before that path has re-initialised them.  Forward must-analysis on the CFG:
    the state is the set of attributes re-initialised so far on every path to the node."""
    assume = assume if assume is not None else {"self._started": False, "self.started": False}
    cfg = CFG(f.node)
    s = f.params[0]
    out = set()

    def loads_of(st):
        names = set()
        if isinstance(st, (ast.FunctionDef, ast.ClassDef)):
            return names
        receivers = set()
        for x in header_walk(st):
            if isinstance(x, ast.Call) and isinstance(x.func, ast.Attribute) and x.func.attr == "fill" and astq.is_self_attr(x.func.value, s) \
                    and x.args and isinstance(x.args[0], ast.Constant):
                receivers.add(id(x.func.value))  # self.x.fill(c) overwrites x, it does not read it
        for x in header_walk(st):
            if astq.is_self_attr(x, s) and isinstance(x.ctx, ast.Load) and x.attr in M and id(x) not in receivers:
                names.add(x.attr)
        return names

    def transfer(n, state):
        st = cfg.stmt[n]
        if st is None:
            return state
        cur = set(state)
        # tests on the assumed flag itself are not reads of utterance state
        flag_test = isinstance(st, ast.If) and astq.text(st.test).replace("not ", "") in assume
        if not flag_test:
            for a in loads_of(st):
                if a not in cur:
                    # `self.x = f(self.x)` style re-initialisation from itself is a read
                    out.add(a)
        for x in header_walk(st) if not isinstance(st, (ast.FunctionDef, ast.ClassDef)) else []:
            if isinstance(x, ast.Call) and isinstance(x.func, ast.Attribute) and astq.is_name(x.func.value, s) and depth < 4:
                m = prog.find_method(f.cls, x.func.attr)
                if m is not None and not m.is_property and m is not f:
                    out.update(_read_before_reinit(prog, m, M, assume, frozenset(cur), depth + 1))
                    sub, _, _ = must_reinit(prog, m, M, assume, depth + 1)
                    cur |= sub
        cur |= reinit_at(prog, f, M, st)
        res = frozenset(cur)
        if isinstance(st, ast.If):
            t = astq.text(st.test)
            if t in assume:
                return edges_state(T=res if assume[t] else None, F=None if assume[t] else res, default=res, exc=res)
            if t.startswith("not ") and t[4:] in assume:
                v = not assume[t[4:]]
                return edges_state(T=res if v else None, F=None if v else res, default=res, exc=res)
        return res

    cfg.forward(frozenset(init), transfer, lambda a_, b_: a_ & b_, skip_exc=True)
    return out


# ---------------------------------------------------------------- R-C04-started
def started(ctx, c):
    prog = ctx.prog
    R = "R-C04-started"
    init = prog.own_method(c, "__init__")
    chunk = prog.own_method(c, "compute_chunk")
    fin = prog.own_method(c, "finalize")
    prop = prog.own_method(c, "started")
    r = astq.returns_of(prop)
    ctx.check(len(r) == 1 and astq.text(r[0].value) == "self._started", R, prop, r[0] if r else MISSING(prop.node),
              "%s.started returns the flag unmodified" % c.name, "%s.started returns %s" % (c.name, astq.text(r[0].value) if r else None), structural=True)
    # who may write
    writers = {}
    for g in c.methods.values():
        for attr, kind, node in attr_writes(g):
            if attr == "_started":
                writers.setdefault(g.name, []).append(node)
    for name, nodes in writers.items():
        for n in nodes:
            v = n.value if isinstance(n, ast.Assign) else None
            const = isinstance(v, ast.Constant) and isinstance(v.value, bool)
            ctx.check(const, R, c.methods[name], n, "%s.%s assigns a constant to _started" % (c.name, name), "_started is assigned %s" % astq.text(n))
    allowed = {"__init__", "finalize", "compute_chunk"} | {g.name for g in closure(prog, chunk)}
    extra = set(writers) - allowed
    ctx.check(not extra, R, c, c.node, "only __init__, compute_chunk (and its helpers) and finalize write _started",
              "_started is also written by %s" % sorted(extra))
    iv = [n for n in writers.get("__init__", []) if isinstance(n.value, ast.Constant) and n.value.value is False]
    ctx.check(len(iv) >= 1 and len(writers.get("__init__", [])) == len(iv), R, init, init.node, "a new %s is not started" % c.name,
              "__init__ does not set _started = False")
    # value at every normal exit
    for f, want in ((fin, False), (chunk, True)):
        ok, where = _flag_at_exits(prog, f, want)
        ctx.check(ok, R, f, where if where is not None else f.node,
                  "%s.%s leaves started == %s on every normal exit" % (c.name, f.name, want),
                  "%s.%s can return with started != %s" % (c.name, f.name, want))


def _flag_at_exits(prog, f, want, depth=0):
    """must-analysis of the value of self._started at the normal exits of f.
    state: True / False / None(unknown).  The test `self._started` refines it."""
    cfg = CFG(f.node)
    s = f.params[0]
    TOP = "top"

    def tr(n, state):
        st = cfg.stmt[n]
        if st is None:
            return state
        cur = state
        for x in header_walk(st) if not isinstance(st, (ast.FunctionDef, ast.ClassDef)) else []:
            if isinstance(x, ast.Call) and isinstance(x.func, ast.Attribute) and astq.is_name(x.func.value, s) and depth < 4:
                m = prog.find_method(f.cls, x.func.attr)
                if m is not None and not m.is_property and m is not f:
                    sub = _flag_summary(prog, m, cur, depth + 1)
                    cur = sub
        if isinstance(st, ast.Assign):
            for t in st.targets:
                if astq.is_self_attr(t, s, "_started") and isinstance(st.value, ast.Constant):
                    cur = bool(st.value.value)
        if isinstance(st, ast.If):
            t = astq.text(st.test)
            if t in ("self._started", "self.started"):
                return edges_state(T=True if cur in (TOP, True) else None, F=False if cur in (TOP, False) else None, default=cur, exc=cur)
            if t in ("not self._started", "not self.started"):
                return edges_state(T=False if cur in (TOP, False) else None, F=True if cur in (TOP, True) else None, default=cur, exc=cur)
        return cur

    def join(a, b):
        return a if a == b else TOP

    instate, outstate = cfg.forward(TOP, tr, join, skip_exc=True)
    bad = None
    ok = True
    for p, l in cfg.pred[CFG.EXIT]:
        o = outstate.get(p)
        if isinstance(o, dict):
            o = o.get(l, o.get(None))
        if o is None:
            continue
        if o != want:
            ok = False
            bad = cfg.stmt[p]
    return ok, bad


def _flag_summary(prog, m, incoming, depth):
    cfg = CFG(m.node)
    s = m.params[0]
    TOP = "top"

    def tr(n, state):
        st = cfg.stmt[n]
        if st is None:
            return state
        cur = state
        if isinstance(st, ast.Assign):
            for t in st.targets:
                if astq.is_self_attr(t, s, "_started") and isinstance(st.value, ast.Constant):
                    cur = bool(st.value.value)
        if isinstance(st, ast.If):
            t = astq.text(st.test)
            if t in ("self._started", "self.started"):
                return edges_state(T=True if cur in (TOP, True) else None, F=False if cur in (TOP, False) else None, default=cur, exc=cur)
        return cur

    def join(a, b):
        return a if a == b else TOP

    instate, outstate = cfg.forward(incoming, tr, join, skip_exc=True)
    res = instate.get(CFG.EXIT, incoming)
    return res


# ------------------------------------------------------------------ R-C04-guard
def guards(ctx):
    prog = ctx.prog
    R = "R-C04-guard"
    targets = [prog.func("compute.frame_by_frame_calculation")]
    for cname in ("compute.ShortTimeFourierTransformFrameComputer", "compute.ShortIntegrationFrameComputer"):
        c = prog.cls(cname)
        if "compute_full" in c.methods:
            targets.append(c.methods["compute_full"])
    ctx.floor(R, len(targets), 3)
    for f in targets:
        body = [s for s in f.node.body if not (isinstance(s, ast.Expr) and isinstance(s.value, ast.Constant))]
        first = body[0] if body else MISSING(None)
        recv = f.params[0]
        ok = isinstance(first, ast.If) and astq.text(first.test) in ("%s.started" % recv, "%s._started" % recv) and \
            len(first.body) == 1 and isinstance(first.body[0], ast.Raise) and astq.raise_type(prog, f, first.body[0]) == "ValueError"
        ctx.check(ok, R, f, first if first is not None else f.node,
                  "%s refuses (ValueError) a computer that is mid-utterance before touching any state" % f.short,
                  "%s does not begin with `if started: raise ValueError`; a call made mid-utterance would disturb or mix with the "
                  "utterance in progress" % f.short)


# ------------------------------------------------------- R-C04-readonly-input
def readonly(ctx, R="R-C04-readonly-input"):
    prog = ctx.prog
    eff = Effects(prog)
    entries = []
    for cname in ("compute.ShortTimeFourierTransformFrameComputer", "compute.ShortIntegrationFrameComputer"):
        c = prog.cls(cname)
        for m in ("compute_chunk", "compute_full"):
            f = prog.find_method(c, m)
            entries.append((f, f.params[1]))
    entries.append((prog.func("compute.frame_by_frame_calculation"), "signal"))
    n_funcs = set()
    for f, p in entries:
        ws, res = eff.writes_to(f, p)
        n_funcs.add(f.short)
        if not ws:
            ctx.ok(R, f.loc(), "no in-place write through an alias of `%s` in %s or its callees" % (p, f.short))
        for w in ws:
            ctx.bad(R, f, w.stmt, "the caller's array `%s` may be modified in place (%s); a read-only input would raise and the caller's "
                    "data would be changed" % (p, w.how), "input arrays are never written in place", robust=True)
    ctx.info["effect_summaries"] = {k: {"writes_params": {str(i): sorted(map(str, v)) for i, v in s[0].items()}, "returns_alias_of": sorted(s[1])}
                                    for k, s in eff._summ.items() if s[0] or s[1]}
    ctx.floor(R, len(n_funcs), 5)



def no_module_state(ctx, R="R-C04-reset"):
    """A computer's state lives on the instance (where the reset rule can see it): nothing is kept in class- or module-level
    objects, where it would survive the end of an utterance and be shared with other instances."""
    from .c20 import no_shared_state
    prog = ctx.prog
    n = 0
    for cname in ("compute.ShortTimeFourierTransformFrameComputer", "compute.ShortIntegrationFrameComputer"):
        c = prog.cls(cname)
        for fi in prog.functions.values():
            if fi.cls is c and fi.parent is None:
                n += 1
                no_shared_state(ctx, R, fi, "%s.%s" % (c.name, fi.name), allow_self=True)
    ctx.need(n >= 10, R, "methods of the frame computers not found")
