"""C11 - read_signal returns exactly what was stored, from a path or a stream."""

import ast

from .. import astq, spec
from .. import sym as S
from ..cfg import CFG
from ..dataflow import containing_node
from ..report import MISSING
from ..model import AnalysisError, FunctionInfo
from ..symeval import SymEval
from . import cli_common as cc

LEVEL = "other"
TECHNIQUE = ("agreement of four literal tables (dispatch chain, error message set, --force-as choices, suffix inference) with "
             "the documented container names; CFG guard rules; sibling rule over the per-container readers (final-cast form of "
             "the returned value, provenance of the decoder's dtype argument)")
EXPLANATION = (
    "Decides: the force_as values handled by read_signal's dispatch, the set listed in its error message, the --force-as "
    "choices of the torch tool and the documented container names agree; every value the suffix inference can return is "
    "handled, an unrecognised suffix raises IOError and an unknown force_as raises ValueError on every path; a stream "
    "without force_as, or with a Kaldi kind, raises ValueError before any reader runs; each of the per-container readers "
    "receives (rfilename, dtype, key, **kwargs) and returns its decoder's array with the requested dtype applied as a final "
    "astype (never handed to a decoder that would rescale: the soundfile decoder's dtype comes from the stored subtype "
    "only), keyed containers use `key` with the documented default entry; the wave fallback reshapes to (frames, "
    "channels) in C order from little-endian i<width>; wds_read_signal's whole body is inside a catch-all that returns "
    "None and reads from io.BytesIO(data). Does NOT decide bit-identity through third-party decoders.")


def run(ctx):
    ctx.rule(tables)
    ctx.rule(stream_guards)
    ctx.rule(stream_position)
    ctx.rule(readers)
    ctx.rule(wds)
    ctx.rule(wave_shape)
    ctx.rule(sphere_container)
    ctx.rule(names_exist)
    ctx.rule(total_on_empty)
    ctx.rule(streams_by_protocol)


def _chain(f):
    """the if/elif chain on force_as: [(set of literals | 'SOUNDFILE', body)], final else body"""
    chains = []
    for n in f.node.body:
        if isinstance(n, ast.If):
            t = n.test
            if isinstance(t, ast.Compare) and astq.is_name(t.left, "force_as") and isinstance(t.ops[0], ast.Eq) and astq.const_str(t.comparators[0]):
                chains.append(n)
    return chains


def _lits(test):
    out, sf = set(), False
    for x in ast.walk(test):
        if isinstance(x, ast.Compare) and astq.is_name(x.left, "force_as"):
            if isinstance(x.ops[0], ast.Eq) and astq.const_str(x.comparators[0]):
                out.add(astq.const_str(x.comparators[0]))
            if isinstance(x.ops[0], ast.In):
                c = x.comparators[0]
                s = astq.literal_str_set(c)
                if s is not None:
                    out |= s
                elif "SOUNDFILE_SUPPORTED_FILE_TYPES" in astq.text(c):
                    sf = True
    return out, sf


def tables(ctx, R="R-C11-dispatch-tables"):
    prog = ctx.prog
    f = prog.func("util.read_signal")
    ch = _chain(f)
    ctx.need(len(ch) == 1, R, "dispatch chain on force_as not found in read_signal")
    handled, sf_handled = set(), False
    cur = ch[0]
    branches = []
    while True:
        l, s_ = _lits(cur.test)
        handled |= l
        sf_handled = sf_handled or s_
        branches.append((l, s_, cur.body))
        if len(cur.orelse) == 1 and isinstance(cur.orelse[0], ast.If):
            cur = cur.orelse[0]
        else:
            final = cur.orelse
            break
    # final else raises ValueError on every path
    cfgf = ast.Module(body=final, type_ignores=[])
    raises = [n for n in ast.walk(cfgf) if isinstance(n, ast.Raise)]
    ok = bool(final) and isinstance(final[-1], ast.Raise) and astq.raise_type(prog, f, final[-1]) == "ValueError"
    ctx.check(ok, R, f, final[-1] if final else MISSING(ch[0]), "an unknown force_as raises ValueError", "the dispatch chain does not end in `raise ValueError`")
    avail = None
    for n in ast.walk(cfgf):
        if isinstance(n, ast.Assign) and astq.is_name(n.targets[0], "avail_force_as"):
            v = n.value
            lits = set()
            for x in ast.walk(v):
                s_ = astq.literal_str_set(x) if isinstance(x, ast.Set) else None
                if s_:
                    lits |= s_
            avail = (lits, "SOUNDFILE_SUPPORTED_FILE_TYPES" in astq.text(v))
    ctx.need(avail is not None, R, "avail_force_as set not found")
    tool = prog.func("command_line._signals_to_torch_feat_dir_parse_args")
    decl = cc.parser_dests(prog, tool).get("force_as")
    ctx.need(decl is not None, R, "--force-as not declared")
    chv = astq.kw(decl, "choices")
    choices = set()
    for x in ast.walk(chv):
        s_ = astq.literal_str_set(x) if isinstance(x, ast.Set) else None
        if s_:
            choices |= s_
    ch_sf = "SOUNDFILE_SUPPORTED_FILE_TYPES" in astq.text(chv)
    want = set(spec.FORCE_AS)
    ctx.check(handled == want and sf_handled, R, f, ch[0], "read_signal dispatches exactly the documented container names (+ soundfile types)",
              "dispatch handles %s; documented: %s (missing %s, extra %s)" % (sorted(handled), sorted(want), sorted(want - handled), sorted(handled - want)))
    ctx.check(avail[0] == want and avail[1], R, f, final[0] if final else MISSING(f.node), "the error message lists exactly the handled names",
              "avail_force_as lists %s" % sorted(avail[0]))
    ctx.check(choices == want and ch_sf, R, tool, decl, "--force-as offers exactly the names read_signal handles",
              "--force-as choices are %s (missing %s, extra %s)" % (sorted(choices), sorted(want - choices), sorted(choices - want)))
    # suffix inference: a decision list  predicate(name) -> container type
    g = prog.func("util._infer_force_as_from_rfilename")
    gm = g.module
    pairs, rets = {}, set()

    def const_of(e):
        v = astq.const_str(e)
        if v is None and isinstance(e, ast.Name) and len(gm.assigns.get(e.id, ())) == 1:
            v = astq.const_str(gm.assigns[e.id][0])
        return v

    def regex_suffixes(pat, node):
        """(alternatives, literal prefix, end-anchored) of a pattern of the shape  .* LIT ( a | b | ... ) [$]"""
        import re._parser as rp
        import re._constants as rc
        try:
            items = list(rp.parse(pat))
        except Exception as e:
            raise AnalysisError("%s: cannot parse the regular expression %r: %s" % (R, pat, e))
        anchored = bool(items) and items[-1][0] == rc.AT and items[-1][1] in (rc.AT_END, rc.AT_END_STRING)
        alts, pre = None, ""
        for op, av in items:
            if op == rc.LITERAL and alts is None:
                pre += chr(av)
            elif op == rc.SUBPATTERN:
                sub = list(av[3])
                if len(sub) == 1 and sub[0][0] == rc.BRANCH:
                    alts = []
                    for br in sub[0][1][1]:
                        if not all(o == rc.LITERAL for o, _ in br):
                            raise AnalysisError("%s: non-literal alternative in %r" % (R, pat))
                        alts.append("".join(chr(v) for _, v in br))
                elif all(o == rc.LITERAL for o, _ in sub):
                    alts = ["".join(chr(v) for _, v in sub)]
            elif op in (rc.AT, rc.MAX_REPEAT, rc.MIN_REPEAT):
                if op != rc.AT and alts is None:
                    pre = ""
            elif alts is None:
                pre = ""
        if alts is None:
            raise AnalysisError("%s: cannot read suffix alternatives out of %r" % (R, pat))
        return alts, pre, anchored

    # the inference as a decision list read off the forward-substituted returns (however the chain is spelt: elif chain with
    # one return, early returns, a loop over a literal tuple of suffixes); the syntactic walk below is the fall-back
    semantic_ok = False
    try:
        from ..symeval import SymEval as _SE
        evg_ = _SE(prog, g).run()
        entries = []
        for g_, v_, _n in evg_.returns:
            if any(isinstance(x, S.E) and x.op == "cond" for x in S.walk(v_)):
                # a chain  a if t1 else (b if t2 else ...)  read in order: the first test that holds decides
                cur_ = v_
                while isinstance(cur_, S.E) and cur_.op == "cond":
                    t_, a_, cur_ = cur_.args
                    if any(isinstance(x, S.E) and x.op == "cond" for x in S.walk(a_)):
                        raise AnalysisError("nested decision")
                    entries.append(([t_], a_))
                if not (cur_.op == "unknown" or (cur_.is_const and cur_.value is None)):
                    # the last alternative: its own test is the positive atom of the return's path condition no entry has used
                    def atoms_(e_):
                        if e_.op in ("and", "or"):
                            return [y for a__ in e_.args for y in atoms_(a__)]
                        if e_.op == "not" or (e_.op == "cmp" and e_.args[0] in ("not in", "!=", "is not")):
                            return []
                        return [e_]
                    used_ = [t__ for ts_, _ in entries for t__ in ts_]
                    rest_ = []
                    for a__ in atoms_(g_):
                        if a__ not in used_ and a__ not in rest_:
                            rest_.append(a__)
                    if len(rest_) > 1:
                        raise AnalysisError("ambiguous last alternative")
                    entries.append((rest_ or [S.TRUE], cur_))
            else:
                conj = list(g_.args) if g_.op == "and" else [g_]
                entries.append(([c for c in conj if not (c.op == "not" or (c.op == "cmp" and c.args[0] in ("not in", "!=", "is not")))], v_))

        def lit(e):
            if e.is_const and isinstance(e.value, str):
                return e.value
            if e.op == "add" and all(a.is_const and isinstance(a.value, str) for a in e.args):
                return "".join(a.value for a in e.args)
            return None
        sp, sr, okx = {}, set(), bool(entries)
        ext_forms = []
        for pos, leaf in entries:
            if len(pos) != 1:
                okx = False
                break
            a = pos[0]
            lv = lit(leaf)
            if a.op == "call" and a.args[0] == ".endswith" and len(a.args) == 3 and lit(a.args[2]) is not None and lv is not None:
                sp[lit(a.args[2])] = lv
                sr.add(lv)
            elif a.op == "call" and str(a.args[0]) in ("re.match", "re.search", "re.fullmatch") and lv is not None:
                sr.add(lv)
            elif a.op == "cmp" and a.args[0] == "in" and "SOUNDFILE_SUPPORTED_FILE_TYPES" in S.show(a.args[2]):
                sr.add("<soundfile type>")
                ext_forms.append((a.args[1], leaf))
            else:
                okx = False
                break
        if okx:
            pairs, rets, semantic_ok = sp, sr, True
            for tested, returned in ext_forms:
                _extension_form(ctx, R, g, tested, returned)
    except Exception:
        semantic_ok = False
    chain = [n for n in g.node.body if isinstance(n, ast.If)]
    ctx.need(semantic_ok or len(chain) >= 1, R, "decision chain not found in the suffix inference")
    cur = chain[0] if not semantic_ok else None
    while cur is not None:
        t = cur.test
        asg = [x for x in cur.body if isinstance(x, ast.Assign) and astq.is_name(x.targets[0], "force_as")] or \
              [x for x in cur.body if isinstance(x, ast.Return)]
        val = asg[0].value if asg else None
        vlit = astq.const_str(val) if val is not None else None
        if isinstance(t, ast.Call) and isinstance(t.func, ast.Attribute) and t.func.attr == "endswith" and t.args and astq.const_str(t.args[0]) is not None:
            ctx.need(vlit is not None, R, "branch `%s` does not yield a literal type" % astq.text(t))
            pairs[astq.const_str(t.args[0])] = vlit
            rets.add(vlit)
        elif isinstance(t, ast.Call) and (prog.qualify(gm, t.func, g) or "") in ("re.match", "re.search", "re.fullmatch") and len(t.args) == 2:
            pat = const_of(t.args[0])
            ctx.need(pat is not None, R, "regular expression in `%s` is not a literal" % astq.text(t)[:60])
            how = (prog.qualify(gm, t.func, g) or "").split(".")[-1]
            if vlit is not None:
                # a prefix / specifier test (ark:, scp:) yielding a fixed type
                rets.add(vlit)
            else:
                alts, pre, anchored = regex_suffixes(pat, t)
                uses_group = isinstance(val, ast.Call) and isinstance(val.func, ast.Attribute) and val.func.attr == "group"
                ctx.need(uses_group, R, "regex branch yields %s" % (astq.text(val) if val is not None else None))
                ctx.check(anchored or how == "fullmatch", R, g, cur,
                          "the suffix pattern is anchored at the end of the name",
                          "the pattern %r (re.%s) is not anchored at the end of the name: any name that merely contains %s<type> (model.pth, "
                          "utt.wave, sig.npy.bak) is inferred as that type instead of raising IOError, and later branches (a trailing `|`) are shadowed"
                          % (pat, how, pre))
                for a_ in alts:
                    pairs[pre + a_] = a_
                    rets.add(a_)
        elif "rsplit" in astq.text(t) or "splitext" in astq.text(t):
            rets.add("<soundfile type>")
        else:
            raise AnalysisError("%s: unrecognised test in the suffix inference: %s" % (R, astq.text(t)[:80]))
        if len(cur.orelse) == 1 and isinstance(cur.orelse[0], ast.If):
            cur = cur.orelse[0]
        else:
            cur = None
    lit = rets - {"<soundfile type>"}
    ctx.check(lit <= handled, R, g, g.node, "every type the suffix inference can return is handled by the dispatch", "inferred but unhandled: %s" % sorted(lit - handled))
    ctx.check(lit == {"table", "wav", "hdf5", "npy", "npz", "pt", "sph", "kaldi"}, R, g, g.node,
              "suffix inference covers the documented suffixes", "suffix inference returns %s" % sorted(lit), structural=(not semantic_ok and len(pairs) < 3))
    want_pairs = {".wav": "wav", ".hdf5": "hdf5", ".npy": "npy", ".npz": "npz", ".pt": "pt", ".sph": "sph", "|": "kaldi"}
    ctx.check(pairs == want_pairs, R, g, g.node, "each suffix maps to its own container type", "suffix table is %s" % pairs, structural=(not semantic_ok and len(pairs) < 3))
    rs = astq.raises_of(g)
    ok = len(rs) == 1 and astq.raise_type(prog, g, rs[0]) == "IOError"
    cfg = CFG(g.node)
    ctx.check(ok, R, g, rs[0] if rs else MISSING(g.node), "a name without a recognised suffix raises IOError", "unrecognised suffix raises %s" % [astq.raise_type(prog, g, r) for r in rs])
    # each branch calls its reader with (rfilename, dtype, key, **kwargs)
    n_b = 0
    for l, s_, body in branches:
        for c in [x for st in body for x in ast.walk(st) if isinstance(x, ast.Call)]:
            t = prog.resolve(f.module, c.func, f)
            if isinstance(t, FunctionInfo) and t.name.endswith("_read_signal"):
                n_b += 1
                ok = [astq.text(a) for a in c.args] == ["rfilename", "dtype", "key"] and (t.name == "sphere_read_signal" or any(k.arg is None and astq.text(k.value) == "kwargs" for k in c.keywords))
                ctx.check(ok, R, f, c, "%s receives (rfilename, dtype, key, **kwargs)" % t.name, "%s is called as %s" % (t.name, astq.text(c)))
    ctx.floor(R + "/readers-called", n_b, 10)


# How the text after the last "." of a name is taken.  The soundfile types are recognised by that text, for every name -
# including a name that is nothing but "." + type (the key WebDataset hands to a decoder for a one-extension sample, or a
# hidden file).  The idioms below are equal on every string; the path-aware ones (os.path.splitext, pathlib suffix) treat a
# base name that starts with its only dot as having no extension, and pathlib also drops a trailing dot or separator.
_EXT_SAME = ("getitem(.rsplit(%s, '.', kw:maxsplit(1)), -1)", "getitem(.rsplit(%s, '.', 1), -1)", "getitem(.split(%s, '.'), -1)",
             "getitem(.rpartition(%s, '.'), 2)", "getitem(.rpartition(%s, '.'), -1)")
_EXT_PATHLIKE = (("getitem(.suffix(pathlib.PurePath(%s)), slice(1, None, None))", "pathlib's suffix"),
                 ("getitem(.suffix(pathlib.Path(%s)), slice(1, None, None))", "pathlib's suffix"),
                 ("getitem(.suffix(pathlib.PurePosixPath(%s)), slice(1, None, None))", "pathlib's suffix"),
                 ("getitem(getitem(os.path.splitext(%s), 1), slice(1, None, None))", "os.path.splitext"),
                 ("getitem(getitem(os.path.splitext(%s), -1), slice(1, None, None))", "os.path.splitext"),
                 ("getitem(getitem(posixpath.splitext(%s), 1), slice(1, None, None))", "os.path.splitext"))


def _extension_form(ctx, R, g, tested, returned):
    arg = g.params[0]
    what = "the soundfile type of a name is the text after its last '.', for every name"
    for e in (tested, returned):
        txt = S.show(e)
        if any(txt == f % arg for f in _EXT_SAME):
            continue
        hit = [why for f, why in _EXT_PATHLIKE if txt == f % arg]
        if hit:
            ctx.bad(R, g, g.node, "the extension is taken with %s, which gives '' for a name that is only '.' + type ('.flac', 'dir/.ogg': the key "
                    "WebDataset passes for a one-extension sample): such a name is no longer inferred as a soundfile type although the text "
                    "after its last '.' is one" % hit[0], what, robust=True)
            return
        ctx.error(R, "cannot decide how the suffix inference takes the extension of a name: %s" % txt[:120])
        return
    ctx.ok(R, g.loc(), what, "extension idiom: %s" % S.show(tested)[:80])


def stream_guards(ctx, R="R-C11-stream-guards"):
    prog = ctx.prog
    f = prog.func("util.read_signal")
    rf, fa = f.params[0], "force_as"
    ev = SymEval(prog, f, inline_props=False).run()
    is_str = S.call("isinstance", S.sym(rf), S.sym("str"))

    def plain(x):
        """bool(isinstance(..)) is isinstance(..); not not y is y (a flag `is_stream = not isinstance(..)` tested by truth value)"""
        if not isinstance(x, S.E):
            return x
        if x.op == "bool" and len(x.args) == 1 and isinstance(x.args[0], S.E) and (x.args[0] == is_str or x.args[0].op in ("not", "cmp", "and", "or")):
            return plain(x.args[0])
        if x.op == "not" and len(x.args) == 1:
            inner = plain(x.args[0])
            if isinstance(inner, S.E) and inner.op == "not":
                return plain(inner.args[0])
            return S.E("not", inner) if inner is not x.args[0] else x
        return x

    def conj(g):
        out = []
        for x in (list(g.args) if g.op == "and" else [g]):
            x = plain(x)
            out += list(x.args) if isinstance(x, S.E) and x.op == "and" else [x]
        return out

    def stream_side(g):
        return any(x == S.enot(is_str) or x == S.E("not", is_str) for x in conj(g))
    vals = {}
    for g, r in ev.raises:
        if not stream_side(g):
            continue
        cs = conj(g)
        key = None
        if any(x == S.cmp("is", S.sym(fa), S.NONE) for x in cs):
            key = "none"
        for x in cs:
            if x.op == "cmp" and x.args[0] == "in" and x.args[1] == S.sym(fa):
                lits = {str(a_.value) for a_ in x.args[2].args[1:] if a_.is_const} if x.args[2].op == "call" else set()
                if {"kaldi", "table"} <= lits:
                    key = "kaldi"
        if key:
            vals[key] = astq.raise_type(prog, f, r)
    if not any(stream_side(g) for g, r in ev.raises):
        if any(S.show(g).find("isinstance(%s, str)" % rf) >= 0 for g, r in ev.raises) or not ev.raises:
            ctx.error(R, "cannot decide the stream guards of read_signal: no raise is conditioned on `not isinstance(%s, str)`" % rf)
        else:
            ctx.bad(R, f, f.node, "read_signal no longer refuses a stream given without force_as (no raise on the path where %s is not a str): the type is then guessed "
                    "from something other than the caller's statement - a stream's name, its first bytes - and a stream that used to be rejected with ValueError is "
                    "decoded as whatever the guess says" % rf, "a stream without force_as raises ValueError")
        return
    ctx.check(vals.get("none") == "ValueError", R, f, f.node, "a stream without force_as raises ValueError", "stream without force_as: %s" % vals)
    ctx.check(vals.get("kaldi") == "ValueError", R, f, f.node, "a stream with a Kaldi kind raises ValueError", "stream with kaldi kinds: %s" % vals)
    # inference only for str without force_as
    infers = [c for c in astq.func_calls(f) if getattr(prog.resolve(f.module, c.func, f), "name", "") == "_infer_force_as_from_rfilename"]
    ctx.need(len(infers) == 1, R, "call of the suffix inference not found in read_signal")
    pm = astq.parents(f)
    st = astq.enclosing_stmt(pm, infers[0])
    g = ev.guard_of(st)
    cs = conj(g)
    ok = any(x == is_str for x in cs) and any(x == S.cmp("is", S.sym(fa), S.NONE) for x in cs) and isinstance(st, ast.Assign) and astq.is_name(st.targets[0], fa) \
        and [astq.text(a_) for a_ in infers[0].args] == [rf]
    ctx.check(ok, R, f, st, "the type is inferred from the name only when force_as is not given (and the source is a name)",
              "the suffix inference runs under %s" % S.show(g)[:100])
    cfg = CFG(f.node)
    dom = cfg.dominators()
    firsts = [n for n in f.node.body if isinstance(n, ast.If) and any(isinstance(x, ast.Call) and astq.is_name(x.func, "isinstance") for x in ast.walk(n.test))]
    ctx.need(firsts, R, "the stream / name test not found at the top of read_signal")
    nf = cfg.node(firsts[0])
    for c in astq.func_calls(f):
        t = prog.resolve(f.module, c.func, f)
        if isinstance(t, FunctionInfo) and t.name.endswith("_read_signal"):
            n = containing_node(cfg, f, c)
            ctx.check(nf in dom.get(n, ()), R, f, c, "the stream guards precede %s" % t.name, "%s can run before the stream guards" % t.name)


def stream_position(ctx, R="R-C11-stream-position"):
    """An open stream is decoded from where the caller positioned it: on the way from read_signal to the decoder
    nothing repositions it absolutely, consumes bytes without restoring the position, or closes it."""
    prog = ctx.prog
    root = prog.func("util.read_signal")
    seen, work = set(), [(root, root.params[0], False)]
    n_funcs = 0
    DECODER_ENTRY = {"sphere_read_signal", "_wave_read_signal", "_scipy_io_read_signal", "_soundfile_read_signal", "_numpy_binary_read_signal",
                     "_numpy_archive_read_signal", "_torch_read_signal", "_hdf5_read_signal", "_numpy_fromfile_read_signal", "_kaldi_table_read_signal",
                     "_kaldi_input_read_signal"}
    while work:
        f, pname, inside = work.pop()
        if (f.qualname, pname) in seen:
            continue
        seen.add((f.qualname, pname))
        n_funcs += 1
        is_decoder = inside or f.name in DECODER_ENTRY
        saved = set()
        for n in f.body_nodes():
            if isinstance(n, ast.Assign) and isinstance(n.value, ast.Call) and astq.attr_call(n.value, "tell") and astq.is_name(n.value.func.value, pname):
                for t in n.targets:
                    if isinstance(t, ast.Name):
                        saved.add(t.id)
        for c in astq.func_calls(f):
            if isinstance(c.func, ast.Attribute) and astq.is_name(c.func.value, pname):
                m = c.func.attr
                if m == "seek":
                    whence = c.args[1] if len(c.args) > 1 else astq.kw(c, "whence")
                    restored = c.args and isinstance(c.args[0], ast.Name) and c.args[0].id in saved and whence is None
                    relative = whence is not None and astq.text(whence) in ("1", "os.SEEK_CUR", "io.SEEK_CUR")
                    own_decoder = f.module.name.endswith("_sphere")  # the package's own decoder: it, too, reads from where the stream stands
                    if not is_decoder or own_decoder:
                        ctx.check(bool(restored or relative), R, f, c, "the stream is only ever moved back to a position saved with tell()",
                                  "%s moves the caller's stream to an absolute position before it reaches the decoder: a stream positioned past other "
                                  "data (records written back to back, an offset into a pack file) is decoded from the wrong place" % astq.text(c))
                elif m in ("read", "readline", "readinto", "peek") and not is_decoder:
                    ok = bool(saved) and any(astq.attr_call(x, "seek") and astq.is_name(x.func.value, pname) and x.args and isinstance(x.args[0], ast.Name)
                                             and x.args[0].id in saved for x in astq.func_calls(f))
                    ctx.check(ok, R, f, c, "bytes consumed before the decoder are handed back (tell / seek pair)",
                              "%s consumes bytes of the caller's stream before the decoder sees it and the position is not restored with a saved tell()"
                              % astq.text(c))
                elif m in ("close", "detach", "truncate") and not is_decoder:
                    ctx.bad(R, f, c, "%s disturbs the caller's stream" % astq.text(c), "stream left as given")
            t = prog.resolve(f.module, c.func, f)
            if isinstance(t, FunctionInfo) and t.cls is None:
                for i, a in enumerate(c.args):
                    if astq.is_name(a, pname) and i < len(t.params):
                        work.append((t, t.params[i], is_decoder))
                for k in c.keywords:
                    if k.arg and astq.is_name(k.value, pname) and k.arg in t.params:
                        work.append((t, k.arg, is_decoder))
    ctx.floor(R, n_funcs, 8)
    ctx.ok(R, root.loc(), "%d functions on the way from read_signal to the decoders examined for repositioning of the stream" % n_funcs)


def _reader_value(prog, name):
    f = prog.func("util." + name)
    ev = SymEval(prog, f).run()
    val = None
    for guard, v, _ in reversed(ev.returns):
        val = v if val is None else S.cond(guard, v, val)
    return f, ev, val


def readers(ctx, R="R-C11-readers"):
    prog = ctx.prog
    n = 0
    final_cast = ["_scipy_io_read_signal", "_wave_read_signal", "_numpy_binary_read_signal", "_numpy_archive_read_signal", "_torch_read_signal", "_soundfile_read_signal"]
    for name in final_cast:
        f, ev, val = _reader_value(prog, name)
        ctx.need(val is not None, R, "%s has no return" % name)
        n += 1
        ok = False
        base = None
        dt = S.sym("dtype")
        alts = list(cc.strip_cond(val))
        by = {}
        for tests, leaf in alts:
            key = tuple(sorted((l, S.show(t)) for l, t in tests if S.show(t) in ("dtype", "(dtype is not None)", "(dtype is None)")))
            by.setdefault(key, []).append((tests, leaf))
        cast_ok, raw_ok = True, True
        for tests, leaf in alts:
            given = any((l == "T" and S.show(t) in ("dtype", "(dtype is not None)")) or (l == "F" and S.show(t) == "(dtype is None)") for l, t in tests)
            if given:
                if not (cc.is_call(leaf, ".astype") and len(leaf.args) == 3 and leaf.args[2] == dt):
                    cast_ok = False
                else:
                    inner = leaf.args[1]
                    if any(x == dt for x in S.walk(inner)):
                        cast_ok = False
                        base = inner
            else:
                if any(x == dt for x in S.walk(leaf)):
                    raw_ok = False
        ctx.check(cast_ok, R, f, f.node, "%s: a given dtype is applied as one final astype(dtype) on the decoder's own array" % name,
                  "%s does not end in `data.astype(dtype)` of an array decoded independently of dtype%s; handing the requested dtype to the "
                  "decoder can rescale the samples instead of casting them" % (name, (" (decoder input: %s)" % S.show(base)[:80]) if base is not None else ""))
        ctx.check(raw_ok, R, f, f.node, "%s: without dtype the decoder's array is returned unchanged" % name, "%s uses dtype although none was given" % name)
    # soundfile: the decoder dtype is chosen from the stored subtype only
    f = prog.func("util._soundfile_read_signal")
    rd = [c for c in astq.func_calls(f) if astq.attr_call(c, "read")]
    ctx.need(len(rd) == 1, R, "sf.read call not found")
    d = astq.kw(rd[0], "dtype")
    ok = d is not None and isinstance(d, ast.Name) and d.id != "dtype"
    if ok:
        for nn in f.body_nodes():
            if not isinstance(nn, ast.Assign):
                continue
            pairs = []
            for t in nn.targets:
                if isinstance(t, ast.Name):
                    pairs.append((t, nn.value))
                elif isinstance(t, ast.Tuple) and isinstance(nn.value, ast.Tuple) and len(t.elts) == len(nn.value.elts):
                    pairs.extend(zip(t.elts, nn.value.elts))
                elif isinstance(t, ast.Tuple):
                    pairs.extend((e, nn.value) for e in t.elts)
            for t, v in pairs:
                if astq.is_name(t, d.id) and any(isinstance(x, ast.Name) and x.id == "dtype" for x in ast.walk(v)):
                    ok = False
    ctx.check(ok, R, f, rd[0], "soundfile decodes into the dtype implied by the stored subtype, never into the requested one (libsndfile rescales on conversion)",
              "soundfile.read is given a dtype derived from the caller's `dtype`: float targets are rescaled to [-1, 1] and wider integers are shifted, "
              "so dtype is no longer a final cast of the stored samples")
    sub = {}
    for nn in f.body_nodes():
        if isinstance(nn, ast.If) and "sf.subtype" in astq.text(nn.test):
            if nn.body and isinstance(nn.body[0], ast.Assign):
                sub[astq.text(nn.test).replace(" ", "")] = astq.text(nn.body[0].value)
    ctx.check(sub.get("sf.subtype=='FLOAT'") == "np.float32" and sub.get("sf.subtype=='DOUBLE'") == "np.float64" and
              any("PCM_32" in k and v == "np.int32" for k, v in sub.items()), R, f, f.node,
              "FLOAT/DOUBLE/PCM_32 subtypes decode to float32/float64/int32 (PCM_16 and the rest to int16)", "subtype table is %s" % sub, structural=True)
    # keyed containers
    f, ev, val = _reader_value(prog, "_numpy_archive_read_signal")
    from .. import scenario as SC
    val = SC.lift_conds(val)
    s = S.show(val)
    ok = "getitem(np.load(rfilename, kw:star(kwargs)), key)" in s.replace("star(kwargs)", "star(kwargs)") or "getitem(np.load(" in s and ", key)" in s
    ctx.check(ok and "'arr_0'" in s, R, f, f.node, "npz: `key` selects the entry, arr_0 otherwise", "npz reader returns %s" % s[:160])
    f = prog.func("util._hdf5_read_signal")
    txt = astq.text(f.node)
    ctx.check("h5py_file[key]" in txt and "np.array(data, dtype=dtype)" in txt and "np.array(data)" in txt, R, f, f.node,
              "hdf5: `key` selects the dataset (first dataset otherwise) and dtype is applied when materialising", structural=True)
    f = prog.func("util._numpy_fromfile_read_signal")
    txt = astq.text(f.node)
    ctx.check("np.fromfile(rfilename, dtype=dtype, **kwargs)" in txt and "np.fromfile(rfilename, **kwargs)" in txt, R, f, f.node,
              "raw binary: dtype is the interpretation of the bytes (np.fromfile(dtype=dtype))", structural=True)
    # value form: when a dtype is requested, the bytes are *interpreted* as that type (a later cast of bytes read as float64 is
    # a different array, of a different length)
    try:
        f, ev, val = _reader_value(prog, "_numpy_fromfile_read_signal")
        what = "raw binary: a requested dtype is how np.fromfile interprets the bytes, not a cast applied afterwards"
        decided = None
        for tests, leaf in cc.strip_cond(val):
            given = [l for l, t in tests if S.show(t) in ("dtype", "(dtype is not None)")] + [("F" if l == "T" else "T") for l, t in tests if S.show(t) == "(dtype is None)"]
            if "F" in given or any(S.show(t) not in ("dtype", "(dtype is not None)", "(dtype is None)") for l, t in tests):
                continue
            calls = [x for x in S.walk(leaf) if isinstance(x, S.E) and x.op == "call" and x.args[0] in ("np.fromfile", "numpy.fromfile")]
            if len(calls) != 1:
                decided = None
                break
            c_ = calls[0]
            has = any(cc.is_call(a, "kw:dtype") and a.args[1] == S.sym("dtype") for a in c_.args[1:] if isinstance(a, S.E)) or (len(c_.args) > 2 and c_.args[2] == S.sym("dtype"))
            anyd = any(cc.is_call(a, "kw:dtype") for a in c_.args[1:] if isinstance(a, S.E)) or (len(c_.args) > 2 and not (isinstance(c_.args[2], S.E) and c_.args[2].op == "call" and str(c_.args[2].args[0]).startswith("kw:")))
            if has:
                decided = True if decided is None else decided
            elif not anyd:
                decided = False
                ctx.bad(R, f, f.node, "with a dtype requested, the raw-binary reader returns %s: the bytes are interpreted as numpy's default float64 whatever the "
                        "caller asked for (a file of int16 / float32 samples comes back with the wrong length and values, even if it is cast later)" % S.show(leaf)[:120],
                        what, robust=True)
                break
            else:
                decided = None
                break
        if decided is True:
            ctx.ok(R, f.loc(), what, "returned value carries dtype=dtype when a dtype is given")
    except AnalysisError:
        pass
    f = prog.func("util._torch_read_signal")
    txt = astq.text(f.node)
    ctx.check("torch.load(rfilename, map_location='cpu', **kwargs).numpy()" in txt, R, f, f.node, "pt: the tensor is loaded on the CPU and viewed as an array", structural=True)
    # value form: what reaches .numpy() is the loaded tensor itself - detach / cpu keep its values and dtype, a conversion does not
    try:
        evt = SymEval(prog, f).run()
        vals = [v_ for _, v_, _n in evt.returns]
    except Exception:
        vals = []
    CONV = {".float", ".double", ".half", ".to", ".type", ".bfloat16", ".int", ".long", ".short"}
    KEEP = {".detach", ".cpu", ".contiguous", ".clone", ".resolve_conj", ".resolve_neg"}
    for v_ in vals:
        for x in S.walk(v_):
            if isinstance(x, S.E) and x.op == "call" and x.args[0] == ".numpy" and len(x.args) == 2:
                inner, convs = x.args[1], []

                def scan(e):
                    if not isinstance(e, S.E):
                        return
                    if e.op == "cond":
                        scan(e.args[1]); scan(e.args[2])
                    elif e.op == "call" and e.args[0] in CONV:
                        convs.append(e.args[0])
                        scan(e.args[1])
                    elif e.op == "call" and e.args[0] in KEEP and len(e.args) >= 2:
                        scan(e.args[1])
                scan(inner)
                ctx.check(not convs, R, f, f.node, "pt: the array is a view of the tensor as stored (no dtype conversion before .numpy())",
                          "the loaded tensor is converted (%s) before it becomes an array on some path: a tensor stored in that precision comes back "
                          "in another dtype although no dtype was requested" % ", ".join(sorted(set(convs))))
    ctx.floor(R, n, 6)
    # wav: scipy first, wave module as ImportError fallback
    g = prog.func("util.read_signal")
    tr = [t for t in g.body_nodes() if isinstance(t, ast.Try)]
    ok = len(tr) == 1 and "_scipy_io_read_signal" in astq.text(tr[0].body[0]) and len(tr[0].handlers) == 1 and \
        prog.dotted(tr[0].handlers[0].type) == "ImportError" and "_wave_read_signal" in astq.text(tr[0].handlers[0].body[0])
    ctx.check(ok, R, g, tr[0] if tr else MISSING(g.node), "wav: scipy's reader, falling back to the wave module only on ImportError")


def wds(ctx, R="R-C11-wds"):
    prog = ctx.prog
    f = prog.func("util.wds_read_signal")
    body = [s for s in f.node.body if not (isinstance(s, ast.Expr) and isinstance(s.value, ast.Constant))]
    ok = len(body) == 1 and isinstance(body[0], ast.Try)
    ctx.check(ok, R, f, body[0] if body else MISSING(f.node), "the whole body of wds_read_signal is one try block",
              "wds_read_signal has statements outside its try block; they can raise")
    if not ok:
        return
    t = body[0]
    catch_all = any(h.type is None or prog.dotted(h.type) in ("Exception", "BaseException") for h in t.handlers)
    ctx.check(catch_all, R, f, t, "a handler catches everything", "no catch-all handler: some exceptions escape")
    for h in t.handlers:
        ok = len(h.body) == 1 and isinstance(h.body[0], ast.Return) and (h.body[0].value is None or (isinstance(h.body[0].value, ast.Constant) and h.body[0].value.value is None))
        ctx.check(ok, R, f, h.body[0] if h.body else MISSING(t), "the handler returns None and raises nothing", "handler body is %s" % [astq.text(s) for s in h.body])
    ctx.check(not t.finalbody and not t.orelse, R, f, t, "no else/finally clause that could raise")
    txt = astq.text(ast.Module(body=t.body, type_ignores=[])).replace(" ", "")
    ctx.check("force_as=_infer_force_as_from_rfilename(key)" in txt and "returnread_signal(io.BytesIO(data),force_as=force_as)" in txt, R, f, t,
              "the sample is decoded from io.BytesIO(data) with the type inferred from the key's suffix", "try body is %s" % txt[:160], structural=True)


def wave_shape(ctx, R="R-C11-wave-shape"):
    """The wave reader's expression-level clauses name the spelling of the pinned source; a reader that is spelt differently is
    "cannot decide" for them (structural).  Closing is decided on the statement kind: try/finally with close(), or a with block."""
    prog = ctx.prog
    f = prog.func("util._wave_read_signal")
    txt = astq.text(f.node).replace(" ", "")
    ctx.check("dtype_in='<i{}'.format(wave_file.getsampwidth())" in txt, R, f, f.node, "samples are little-endian signed integers of the file's sample width", structural=True)
    ctx.check("np.frombuffer(wave_file.readframes(wave_file.getnframes()),dtype=dtype_in)" in txt, R, f, f.node, "all frames are read and reinterpreted, not converted", structural=True)
    ctx.check("data.reshape((n_data_points//n_channels,n_channels),order='C')" in txt, R, f, f.node, "multi-channel data is reshaped (frames, channels) in C order", structural=True)
    ctx.check("ifn_channels>1:" in txt or "if1<n_channels:" in txt, R, f, f.node, "mono data stays 1-D", structural=True)
    fin = [t for t in f.body_nodes() if isinstance(t, ast.Try)]
    closes_finally = len(fin) == 1 and bool(fin[0].finalbody) and any(astq.attr_call(c, "close") for st in fin[0].finalbody for c in ast.walk(st) if isinstance(c, ast.Call))
    withs = [w for w in f.body_nodes() if isinstance(w, ast.With) and any(
        isinstance(it.context_expr, ast.Call) and (prog.qualify(f.module, it.context_expr.func, f) or "").endswith("wave.open") for it in w.items)]
    opens = [c for c in astq.func_calls(f) if (prog.qualify(f.module, c.func, f) or "").endswith("wave.open")]
    if not opens:
        ctx.error(R, "cannot decide whether the wave file is closed: wave.open not found in _wave_read_signal")
    else:
        ctx.check(closes_finally or len(withs) == len(opens), R, f, opens[0], "the wave file is closed on every path",
                  "the file opened by wave.open is neither managed by a with block nor closed in a finally clause")


def sphere_container(ctx):
    """NIST SPHERE is one of C11's containers: its read loop must neither drop nor
    mis-account samples (rules shared with C12)."""
    from . import c12

    c12.reads(ctx, R="R-C11-sphere-reads", R2="R-C11-sphere-bytes")



def total_on_empty(ctx, R="R-C11-readers"):
    """An array with no elements (a zero-length recording, shape (0,) or (0, C)) is an array like any other: every container stores
    it and it must come back unchanged.  Reductions without an identity (min, max, argmin, argmax, ptp) raise ValueError on it, so
    a reader - or read_signal itself - that computes one (for a log line, a sanity check) fails on data it could decode, and
    wds_read_signal turns that failure into None.  Effect rule over read_signal and the functions of its module it calls."""
    from . import partial
    partial.no_identityless_reductions(
        ctx, R, [ctx.prog.func("util.read_signal")],
        "no reduction without an identity is applied to the data read (an empty signal is read back like any other)",
        "a stored zero-length signal can no longer be read (the arguments of a logging call are evaluated whatever the level)")


_STREAM_API = {"read", "readinto", "readline", "readlines", "seek", "tell", "close", "closed", "seekable", "readable", "flush", "peek", "read1",
               "__enter__", "__exit__", "write", "mode"}


def streams_by_protocol(ctx, R="R-C11-stream-guards"):
    """An open binary stream is whatever supports the file protocol: io.BytesIO, a tar member, a pipe, a network response.  Only real
    files carry attributes such as ``name`` or ``fileno``.  A reader that touches one of those on the object it was given - outside
    a ``hasattr`` / ``getattr(..., default)`` / ``except AttributeError`` guard - works for ``open(path, "rb")`` and raises
    AttributeError for every other stream (and wds_read_signal, which always wraps its bytes in BytesIO, then returns None for data
    it could decode)."""
    from . import partial
    prog = ctx.prog
    roots = [prog.func("util.read_signal")]
    try:
        roots.append(prog.func("_sphere.sphere_read_signal"))
    except Exception:
        pass
    what = "a stream is used through the file protocol only (read / seek / tell ...): nothing a BytesIO lacks is required of it"
    n = 0
    funcs = []
    for r in roots:
        for g in partial.closure(prog, [r]):
            if g not in funcs:
                funcs.append(g)
    for g in funcs:
        streams = [p for p in g.params[:1] if p in ("rfilename", "file_", "fp", "stream", "f", "fileobj")]
        if not streams:
            continue
        pm = astq.parents(g)
        for x in g.body_nodes():
            if not (isinstance(x, ast.Attribute) and isinstance(x.ctx, ast.Load) and isinstance(x.value, ast.Name) and x.value.id in streams):
                continue
            if x.attr in _STREAM_API or x.attr in dir(str):
                continue   # the file protocol; or a string method: the value is a path name there, not a stream
            n += 1
            anc = list(astq.ancestors(pm, x))
            guarded = False
            for a in anc:
                if isinstance(a, (ast.If, ast.IfExp)):
                    for y in ast.walk(a.test):
                        if isinstance(y, ast.Call) and isinstance(y.func, ast.Name) and y.func.id == "hasattr" and len(y.args) == 2 \
                                and astq.const_str(y.args[1]) == x.attr and not any(z is x for z in ast.walk(a.test)):
                            guarded = True
                        if isinstance(y, ast.Call) and isinstance(y.func, ast.Name) and y.func.id == "isinstance" and any(
                                isinstance(z, ast.Name) and z.id == "str" for z in ast.walk(y)):
                            guarded = True   # the path-name branch: the object is a str there, not a stream
                if isinstance(a, ast.Try) and any(x in list(ast.walk(st)) for st in a.body) and any(
                        h.type is None or any(t in astq.text(h.type) for t in ("AttributeError", "Exception")) for h in a.handlers):
                    guarded = True
            if guarded:
                continue
            ctx.bad(R, g, astq.enclosing_stmt(pm, x), "`%s.%s` is read without a guard: an in-memory stream (io.BytesIO, what wds_read_signal hands over) has no such "
                    "attribute, so data that could be decoded raises AttributeError instead" % (x.value.id, x.attr), what, robust=True)
    ctx.ok(R, roots[0].loc(), what, "%d function(s) inspected, %d non-protocol attribute read(s), all guarded" % (len(funcs), n))


def names_exist(ctx, R="R-C11-dispatch-tables"):
    """Every package-module attribute the readers mention exists: the documented ValueError for an unknown force_as (and every
    other path) cannot be pre-empted by an AttributeError raised while the dispatch is evaluated."""
    missing = cc.undefined_package_attrs(ctx.prog, {"util", "_sphere"})
    for f, node, name in missing:
        ctx.bad(R, f, node, "%s is read here but the module no longer defines it: reaching this expression raises AttributeError instead of the "
                "documented result / ValueError" % name, "names read from package modules exist", robust=True)
    if not missing:
        ctx.ok(R, "src/pydrobert/speech/util.py", "names read from package modules exist (config.* in util.py and _sphere.py)")
