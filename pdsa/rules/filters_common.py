"""Shared extraction for the filter-bank properties (C05, C06, C07)."""

import ast
from fractions import Fraction

from .. import astq
from .. import sym as S
from ..model import AnalysisError
from ..symeval import SymEval
from . import cli_common as cc

BANKS = ("TriangularOverlappingFilterBank", "Fbank", "GaborFilterBank", "ComplexGammatoneFilterBank")
VERTEX_BANKS = ("TriangularOverlappingFilterBank", "Fbank")
EDGE_BANKS = ("GaborFilterBank", "ComplexGammatoneFilterBank")
RESPONSE_METHODS = ("get_impulse_response", "get_frequency_response", "get_truncated_response")


def bank(prog, name):
    c = prog.module("filters").classes.get(name)
    if c is None:
        raise AnalysisError("filters.%s vanished" % name)
    return c


def ctor_eval(prog, name, seed=None):
    c = bank(prog, name)
    f = prog.own_method(c, "__init__")
    ev = SymEval(prog, f, seed=seed or {}).run()
    return c, f, ev


def range_guard(prog, name):
    """E of the condition under which the constructor raises for its frequency range."""
    c, f, ev = ctor_eval(prog, name)
    hits = []
    for g, r in ev.raises:
        syms = set(S.symbols(g))
        if {"low_hz", "high_hz"} <= syms and "order" not in " ".join(S.symbols(g)) or ({"low_hz", "high_hz"} <= syms and len(hits) == 0):
            hits.append((g, r))
    if not hits:
        raise AnalysisError("range validation not found in %s.__init__" % name)
    return c, f, hits[0][0], hits[0][1], ev


GRID_RATES = (Fraction(8), Fraction(9))
GRID_LOW = [Fraction(v) for v in ("-1", "0", "1", "3.5", "4", "4.25", "4.5", "5", "5.5", "6")]
GRID_HIGH = [None] + [Fraction(v) for v in ("-1", "0", "1", "3.5", "4", "4.25", "4.5", "4.75", "5", "5.25", "5.5", "5.75", "6")]


def must_reject(low, high, rate):
    """C05's statement: low < 0, or a positive high that is not above low or lies more
    than 1 Hz above the Nyquist frequency."""
    if low < 0:
        return True
    if high is not None and high > 0 and (high <= low or high > rate / 2 + 1):
        return True
    return False


def grid():
    for rate in GRID_RATES:
        for low in GRID_LOW:
            for high in GRID_HIGH:
                yield {"low_hz": low, "high_hz": high, "sampling_rate": rate}


def effective_high(ev):
    """the hertz value whose scale image is scale_high"""
    sh = ev.env.get("scale_high")
    if sh is None or not (sh.op == "call" and sh.args[0] == ".hertz_to_scale" and len(sh.args) == 3):
        raise AnalysisError("scale_high = scaling_function.hertz_to_scale(<high>) not found")
    return sh.args[1], sh.args[2]


def loop_body_values(prog, f, loop, names, seed=None):
    ev = cc.body_eval(prog, f, loop.body, seed=seed)
    return {n: ev.env.get(n) for n in names}, ev
