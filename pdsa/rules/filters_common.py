"""Shared extraction for the filter-bank properties (C05, C06, C07)."""

import ast
from fractions import Fraction

from .. import astq
from .. import sym as S
from ..model import AnalysisError, FunctionInfo
from ..symeval import SymEval
from . import cli_common as cc

BANKS = ("TriangularOverlappingFilterBank", "Fbank", "GaborFilterBank", "ComplexGammatoneFilterBank")
VERTEX_BANKS = ("TriangularOverlappingFilterBank", "Fbank")
EDGE_BANKS = ("GaborFilterBank", "ComplexGammatoneFilterBank")
RESPONSE_METHODS = ("get_impulse_response", "get_frequency_response", "get_truncated_response")


def bank(prog, name):
    c = prog.module("filters").classes.get(name)
    if c is None:
        raise AnalysisError("filters.%s vanished" % name)
    return c


def _private_helpers(prog, f):
    """package-level private functions the constructor calls (layout / validation factored out of it)"""
    out = []
    for c in astq.func_calls(f):
        t = prog.resolve(f.module, c.func, f)
        if isinstance(t, FunctionInfo) and t.cls is None and t.parent is None and t.name.startswith("_") and t.module is f.module:
            out.append(t.qualname)
    return out


def ctor_eval(prog, name, seed=None, inline=()):
    c = bank(prog, name)
    f = prog.own_method(c, "__init__")
    ev = SymEval(prog, f, seed=seed or {}, inline=list(inline) + _private_helpers(prog, f)).run()
    return c, f, ev


def layout_value(prog, name, f, ev):
    """E of the tuple of scale points the bank is laid out on: self._vertices for the vertex banks, the sequence the
    per-filter loop pairs up (zip(E[:-1], E[1:])) for the edge banks"""
    if name in VERTEX_BANKS:
        v = ev.env.get(f.params[0] + "._vertices")
        if v is None:
            raise AnalysisError("%s.__init__ does not set self._vertices" % name)
        return v
    for loop in [n for n in f.body_nodes() if isinstance(n, ast.For) and ev.reached(n)]:
        it = ev.eval_at(loop, loop.iter)
        if cc.is_call(it, "zip") and len(it.args) == 3:
            a, b = it.args[1], it.args[2]
            if cc.is_call(a, "getitem") and cc.is_call(b, "getitem") and a.args[1] == b.args[1]:
                return a.args[1]
    raise AnalysisError("per-filter loop over adjacent edge pairs not found in %s.__init__" % name)


def _range_helpers(prog, f):
    """package-level helper functions the constructor hands both range ends to (validation factored out)"""
    out = []
    for c in astq.func_calls(f):
        t = prog.resolve(f.module, c.func, f)
        if isinstance(t, FunctionInfo) and t.cls is None:
            names = {x.id for a in list(c.args) + [k.value for k in c.keywords] for x in ast.walk(a) if isinstance(x, ast.Name)}
            if {"low_hz", "high_hz"} <= names and any(isinstance(x, ast.Raise) for x in t.body_nodes()):
                out.append(t.qualname)
    return out


def range_guard(prog, name):
    """E of the condition under which the constructor raises for its frequency range."""
    c0 = bank(prog, name)
    c, f, ev = ctor_eval(prog, name, inline=_range_helpers(prog, prog.own_method(c0, "__init__")))
    hits = []
    for g, r in ev.raises:
        syms = set(S.symbols(g))
        if {"low_hz", "high_hz"} <= syms and "order" not in " ".join(S.symbols(g)) or ({"low_hz", "high_hz"} <= syms and len(hits) == 0):
            hits.append((g, r))
    if not hits:
        raise AnalysisError("range validation not found in %s.__init__" % name)
    return c, f, hits[0][0], hits[0][1], ev


GRID_RATES = (Fraction(8), Fraction(9))
GRID_LOW = [Fraction(v) for v in ("-1", "0", "1", "3.5", "4", "4.25", "4.5", "5", "5.5", "6")]
GRID_HIGH = [None] + [Fraction(v) for v in ("-1", "0", "1", "3.5", "4", "4.25", "4.5", "4.75", "5", "5.25", "5.5", "5.75", "6")]


def must_reject(low, high, rate):
    """C05's statement: low < 0, or a positive high that is not above low or lies more
    than 1 Hz above the Nyquist frequency."""
    if low < 0:
        return True
    if high is not None and high > 0 and (high <= low or high > rate / 2 + 1):
        return True
    return False


def grid():
    for rate in GRID_RATES:
        for low in GRID_LOW:
            for high in GRID_HIGH:
                yield {"low_hz": low, "high_hz": high, "sampling_rate": rate}


def effective_high(ev, layout=None):
    """(scaling function E, hertz value E whose scale image is the upper end of the layout)"""
    sh = ev.env.get("scale_high")
    if sh is not None and sh.op == "call" and sh.args[0] == ".hertz_to_scale" and len(sh.args) == 3:
        return sh.args[1], sh.args[2]
    if layout is not None:
        # read it off the layout itself: the points are scale_to_hertz(h2s(low) + (h2s(HIGH) - h2s(low)) / (n + 1) * (k + off))
        h2s = []
        for x in S.walk(layout):
            if x.op == "call" and x.args[0] == ".hertz_to_scale" and len(x.args) == 3 and x not in h2s:
                h2s.append(x)
        other = [x for x in h2s if x.args[2] != S.sym("low_hz")]
        if len(other) == 1:
            return other[0].args[1], other[0].args[2]
    raise AnalysisError("the upper end of the scale (hertz_to_scale(<high>)) not found")


def loop_body_values(prog, f, loop, names, seed=None):
    ev = cc.body_eval(prog, f, loop.body, seed=seed)
    return {n: ev.env.get(n) for n in names}, ev


def per_filter_attrs(prog, name, seed=None):
    """{"self._x": E} for attributes the constructor fills with one element per filter
    (``L.append(v)`` in the edge loop, then ``self._x = tuple(L)``): E is v as computed in that
    loop.  Lets the response methods' ``self._x[filt_idx]`` be read through to its definition."""
    c, f, ev = ctor_eval(prog, name, seed)
    selfn = f.params[0]
    lists = {}
    for n in f.body_nodes():
        if isinstance(n, ast.Assign) and len(n.targets) == 1 and astq.is_self_attr(n.targets[0], selfn):
            v = n.value
            if isinstance(v, ast.Call) and isinstance(v.func, ast.Name) and v.func.id in ("tuple", "list") and len(v.args) == 1 and isinstance(v.args[0], ast.Name):
                lists[v.args[0].id] = n.targets[0].attr
            elif isinstance(v, ast.Name):
                lists[v.id] = n.targets[0].attr
    pm = astq.parents(f)
    out = {}
    for call in astq.func_calls(f):
        if astq.attr_call(call, "append") and isinstance(call.func.value, ast.Name) and call.func.value.id in lists and len(call.args) == 1:
            st = astq.enclosing_stmt(pm, call)
            if not ev.reached(st):
                continue
            attr = selfn + "." + lists[call.func.value.id]
            if attr in out:
                out[attr] = None  # appended at several sites: not a plain per-filter value
            else:
                out[attr] = ev.eval_at(st, call.args[0])
    return {k: v for k, v in out.items() if v is not None}, f, ev


def gabor_truncation_support(ctx, R):
    """The angular support GaborFilterBank.get_truncated_response cuts at: either the one the constructor stored (decided by
    gabor_supports) or, when it is recomputed at call time, the same closed form - sqrt(2 (log C_f - log eps)) / sigma with
    C_f the unit-gain or unit-L2-norm constant."""
    prog = ctx.prog
    from .. import scenario as SC
    f = prog.own_method(bank(prog, "GaborFilterBank"), "get_truncated_response")
    ev = SymEval(prog, f, inline_props=False).run()
    li = [n for n in f.body_nodes() if isinstance(n, ast.Assign) and astq.is_name(n.targets[0], "left_idx")]
    if len(li) != 1:
        ctx.error(R, "cannot decide which angular support the Gabor truncation uses: left_idx not found")
        return
    angs = [x for x in ast.walk(li[0].value) if isinstance(x, ast.Name) and x.id not in ("width", "np", "int")]
    if len(angs) != 1:
        ctx.error(R, "cannot decide which angular support the Gabor truncation uses: %s" % astq.text(li[0].value)[:80])
        return
    lo = ev.eval_at(li[0], angs[0])
    fi = S.sym(f.params[1])
    stored = S.call("getitem", S.call("getitem", S.sym("self._supports_ang"), fi), S.ZERO)
    if lo == stored or S.show(lo).startswith("getitem(getitem(self._supports_ang"):
        ctx.ok(R, f.loc(li[0]), "the Gabor truncation cuts at the support stored by the constructor")
        return
    SG, XI, EPS = S.sym("SIGMA"), S.sym("XI"), S.sym("EPS")
    half, two = S.lift(Fraction(1, 2)), S.lift(2)
    lpi, l2 = S.call("log", S.PI), S.call("log", two)
    dom = {"SIGMA": [Fraction(2), Fraction(5, 3)], "XI": [Fraction(1, 2)], "EPS": [Fraction(1, 2000), Fraction(1, 100)]}

    def norm(e, l2n):
        def fn(x):
            if x == S.call("getitem", S.sym("self._stds"), fi):
                return SG
            if x == S.call("getitem", S.sym("self._centers_ang"), fi):
                return XI
            if x.op == "sym" and x.args[0].endswith("EFFECTIVE_SUPPORT_THRESHOLD"):
                return EPS
            if x.op == "sym" and x.args[0] in ("self._scale_l2_norm", "self.scaled_l2_norm"):
                return S.lift(l2n)
            if x.op == "cmp" and x.args[0] in ("is", "is not") and x.args[1].op == "sym" and x.args[2] == S.NONE:
                d_ = f.defaults.get(x.args[1].args[0])
                if isinstance(d_, ast.Constant) and d_.value is None:
                    return S.lift(x.args[0] == "is")  # an optional argument left at its default
            return None
        return SC.transform(e, fn)
    for l2n in (True, False):
        got = S.sub(XI, norm(lo, l2n))
        if l2n:
            log_ct = S.sub(S.neg(S.mul(half, S.call("log", SG))), S.mul(S.lift(Fraction(1, 4)), lpi))
        else:
            log_ct = S.sub(S.neg(S.mul(half, S.add(l2, lpi))), S.call("log", SG))
        log_cf = S.add(log_ct, S.add(S.call("log", SG), S.mul(half, S.add(l2, lpi))))
        want = S.truediv(S.call("sqrt", S.mul(two, S.sub(log_cf, S.call("log", EPS)))), SG)
        mode = "unit L2 norm" if l2n else "unit peak gain"
        if set(S.symbols(got)) - {"SIGMA", "XI", "EPS", "pi"} or S.has_unknown(got) or SC.residual_conditions(got):
            ctx.error(R, "cannot decide the angular support the Gabor truncation recomputes (%s): %s" % (mode, S.show(got)[:120]))
            continue
        r = S.compare(got, want, domain=dom, expand_logs=True)
        if r["verdict"] == "equal":
            ctx.ok(R, f.loc(li[0]), "Gabor truncation (%s): the recomputed half-width is sqrt(2 (log C_f - log eps)) / sigma" % mode)
        elif r["verdict"] == "differ":
            ctx.bad(R, f, li[0], "Gabor with %s: get_truncated_response cuts at a half-width of %s, but the response falls to the threshold at %s (e.g. at %s: "
                    "%s vs %s): bins outside the truncated window still exceed the threshold" % (mode, S.canon(got, True)[:120], S.canon(want, True)[:120],
                                                                                                r.get("witness"), r["values"][0], r["values"][1]), "Gabor frequency support", robust=True)
        else:
            ctx.error(R, "cannot decide the angular support the Gabor truncation recomputes (%s): %s" % (mode, r.get("reason", "")[:120]))


def gammatone_freq_support(ctx, R):
    """The advertised frequency support of a gammatone filter is where |H(w)| = c (n-1)! / (alpha^2 + (w - xi)^2)^(n/2) falls to
    the threshold eps:  (w - xi)^2 = (c (n-1)! / eps)^(2/n) - alpha^2,  with c the constant the constructor itself computed for
    the normalisation mode (unit peak gain or unit L2 norm).  Decided for both modes on the forward-substituted half-width."""
    prog = ctx.prog
    LA, N, EPS = S.sym("LA"), S.sym("order"), S.sym("EPS")
    what = "gammatone frequency support: half-width^2 = (c (n-1)! / eps)^(2/n) - alpha^2 in both normalisation modes"
    for mode in (True, False):
        mname = "unit L2 norm" if mode else "unit peak gain"
        try:
            c, f, ev = ctor_eval(prog, "ComplexGammatoneFilterBank", {"scale_l2_norm": mode})
        except Exception as e:
            ctx.error(R, "cannot decide %s (%s): %r" % (what, mname, e))
            continue
        # the half-width: what is added to / subtracted from the centre in the stored support pair
        app = [x for x in astq.func_calls(f) if astq.attr_call(x, "append") and astq.text(x.func.value) == "self._supports_ang" and x.args]
        st = [astq.enclosing_stmt(astq.parents(f), a) for a in app]
        st = [s_ for s_ in st if ev.reached(s_)]
        if len(st) != 1:
            ctx.error(R, "cannot decide %s (%s): the store of the angular support was not found" % (what, mname))
            continue
        try:
            pair = ev.eval_at(st[0], app[0].args[0])
            la = ev.eval_at(st[0], ast.parse("log_alpha", mode="eval").body)
            lc = ev.eval_at(st[0], ast.parse("log_c", mode="eval").body)
        except Exception as e:
            ctx.error(R, "cannot decide %s (%s): %r" % (what, mname, e))
            continue
        if not (is_call_(pair, "tuple") and len(pair.args) == 3):
            ctx.error(R, "cannot decide %s (%s): the stored support is %s" % (what, mname, S.show(pair)[:100]))
            continue
        def terms(e):
            return [y for a_ in e.args for y in terms(a_)] if (isinstance(e, S.E) and e.op == "add") else [e]
        t_lo, t_hi = terms(pair.args[1]), terms(pair.args[2])
        ds = [t for t in t_hi if S.neg(t) in t_lo]
        if len(ds) != 1:
            ctx.error(R, "cannot decide %s (%s): the stored support is not centre -/+ half-width: %s" % (what, mname, S.show(pair)[:120]))
            continue
        half = ds[0]

        def norm(e):
            e = S.subst(e, {la: LA})
            from .. import scenario as SC
            return SC.transform(e, lambda x: EPS if (x.op == "sym" and x.args[0].endswith("EFFECTIVE_SUPPORT_THRESHOLD")) else None)
        got = norm(half)
        lcn = norm(lc)
        want = S.power(S.sub(S.call("exp", S.mul(S.truediv(S.lift(2), N), S.sub(S.add(lcn, S.call("log", S.call("factorial", S.sub(N, S.ONE)))), S.call("log", EPS)))),
                             S.call("exp", S.mul(S.lift(2), LA))), S.lift(Fraction(1, 2)))
        free = (set(S.symbols(got)) | set(S.symbols(want))) - {"LA", "order", "EPS", "pi"}
        if free or S.has_unknown(got):
            ctx.error(R, "cannot decide %s (%s): the half-width depends on %s" % (what, mname, sorted(free) or S.show(got)[:100]))
            continue
        dom = {"LA": [Fraction(-3), Fraction(-5, 2), Fraction(-4)], "order": [Fraction(3), Fraction(4), Fraction(6)], "EPS": [Fraction(1, 2000), Fraction(1, 100)]}
        try:
            r = S.compare(got, want, domain=dom)
        except Exception as e:
            ctx.error(R, "cannot decide %s (%s): %r" % (what, mname, e))
            continue
        if r["verdict"] == "equal":
            ctx.ok(R, f.loc(st[0]), what, mname)
        elif r["verdict"] == "differ":
            ctx.bad(R, f, st[0], "gammatone with %s: the advertised half-width of the frequency support is %s, but |H| falls to the threshold at %s (e.g. at %s: %s vs %s): "
                    "bins outside the truncated window still exceed the threshold" % (mname, S.show(got)[:140], S.show(want)[:140], r.get("witness"), r["values"][0], r["values"][1]),
                    what, robust=True)
        else:
            ctx.error(R, "cannot decide %s (%s): %s" % (what, mname, r.get("reason", "")[:120]))


def is_call_(e, name):
    return isinstance(e, S.E) and e.op == "call" and e.args[0] == name


def _read_relative(prog, cls, field, centre):
    """every method of the class that unpacks ``self.<field>[i]`` uses the unpacked names only as ``<centre of filter i> + name``"""
    n_readers = 0
    for m in cls.methods.values():
        if m.name == "__init__" or not m.params:
            continue
        selfn = m.params[0]
        pm = astq.parents(m)
        centre_names = set()
        for st in m.body_nodes():
            if isinstance(st, ast.Assign) and len(st.targets) == 1 and isinstance(st.targets[0], ast.Name) and isinstance(st.value, ast.Subscript) \
                    and astq.is_self_attr(st.value.value, selfn, centre):
                centre_names.add(st.targets[0].id)
        for st in m.body_nodes():
            if not (isinstance(st, ast.Assign) and isinstance(st.value, ast.Subscript) and astq.is_self_attr(st.value.value, selfn, field)):
                continue
            names = [t.id for t in astq.flatten_targets(st.targets[0]) if isinstance(t, ast.Name)]
            if not names:
                return False
            n_readers += 1
            for x in m.body_nodes():
                if isinstance(x, ast.Name) and x.id in names and isinstance(x.ctx, ast.Load):
                    par = pm.get(id(x))
                    if not (isinstance(par, ast.BinOp) and isinstance(par.op, ast.Add)):
                        return False
                    other = par.right if par.left is x else par.left
                    is_centre = (isinstance(other, ast.Name) and other.id in centre_names) or (
                        isinstance(other, ast.Subscript) and astq.is_self_attr(other.value, selfn, centre))
                    if not is_centre:
                        return False
    return n_readers >= 1


def gabor_supports(ctx, R, which=("freq", "time")):
    """The advertised Gabor supports are where the Gaussian falls to the threshold eps:
    |H(w)| = C_f exp(-sigma^2 (w - xi)^2 / 2) = eps  <=>  |w - xi| = sqrt(2 (log C_f - log eps)) / sigma,
    |h(t)| = C_t exp(-t^2 / 2 sigma^2)      = eps  <=>  |t| = sigma sqrt(2 (log C_t - log eps)),
    with (C_t, C_f) the unit-gain or unit-L2-norm constants."""
    prog = ctx.prog
    SG, XI, EPS = S.sym("SIGMA"), S.sym("XI"), S.sym("EPS")
    half, two = S.lift(Fraction(1, 2)), S.lift(2)
    lpi, l2 = S.call("log", S.PI), S.call("log", two)
    dom = {"SIGMA": [Fraction(2), Fraction(5, 3)], "XI": [Fraction(1, 2)], "EPS": [Fraction(1, 2000), Fraction(1, 100)]}
    n = 0
    for l2n in (True, False):
        attrs, ctor, cev = per_filter_attrs(prog, "GaborFilterBank", {"scale_l2_norm": l2n, "erb": False})
        selfn = ctor.params[0]
        sig, xi = attrs.get(selfn + "._stds"), attrs.get(selfn + "._centers_ang")
        if sig is None or xi is None:
            raise AnalysisError("%s: per-filter sigma / centre not found in the Gabor constructor" % R)

        def norm(e):
            e = S.subst(e, {sig: SG})
            e = S.subst(e, {xi: XI})
            return S.subst(e, {"pydrobert.speech.config.EFFECTIVE_SUPPORT_THRESHOLD": EPS})
        if l2n:
            log_ct = S.sub(S.neg(S.mul(half, S.call("log", SG))), S.mul(S.lift(Fraction(1, 4)), lpi))
        else:
            log_ct = S.sub(S.neg(S.mul(half, S.add(l2, lpi))), S.call("log", SG))
        log_cf = S.add(log_ct, S.add(S.call("log", SG), S.mul(half, S.add(l2, lpi))))
        mode = "unit L2 norm" if l2n else "unit peak gain"
        if "freq" in which:
            sa = attrs.get(selfn + "._supports_ang")
            if sa is None or not (cc.is_call(sa, "tuple") and len(sa.args) == 3):
                raise AnalysisError("%s: per-filter angular support not found in the Gabor constructor" % R)
            lo, hi = norm(sa.args[1]), norm(sa.args[2])
            r = S.compare(S.add(lo, hi), S.mul(two, XI), domain=dom, expand_logs=True)
            if r["verdict"] != "equal" and S.compare(S.add(lo, hi), S.ZERO, domain=dom, expand_logs=True)["verdict"] == "equal" \
                    and _read_relative(prog, ctor.cls, "_supports_ang", "_centers_ang"):
                # the pair is kept relative to the centre, and every reader adds the centre back before using it
                lo, hi = S.add(lo, XI), S.add(hi, XI)
                r = {"verdict": "equal"}
            ctx.check(r["verdict"] == "equal", R, ctor, ctor.node, "Gabor (%s): the frequency support is centred on the filter's centre" % mode,
                      "frequency support (%s, %s) is not centred on the centre frequency" % (S.show(lo)[:60], S.show(hi)[:60]))
            got = S.mul(half, S.sub(hi, lo))
            want = S.truediv(S.call("sqrt", S.mul(two, S.sub(log_cf, S.call("log", EPS)))), SG)
            r = S.compare(got, want, domain=dom, expand_logs=True)
            n += 1
            if r["verdict"] == "equal":
                ctx.ok(R, ctor.loc(), "Gabor (%s): half-width of the frequency support is sqrt(2 (log C_f - log eps)) / sigma" % mode)
            elif r["verdict"] == "differ":
                ctx.bad(R, ctor, ctor.node, "Gabor with %s: the half-width of the advertised frequency support is %s, but the response falls to the "
                        "threshold at %s (e.g. at %s: %s vs %s); bins outside the advertised support still exceed the threshold, so the truncated "
                        "response misses more than the threshold allows" % (mode, S.canon(got, True)[:140], S.canon(want, True)[:140], r.get("witness"),
                                                                            r["values"][0], r["values"][1]), "Gabor frequency support")
            else:
                raise AnalysisError("%s: frequency support (%s): %s" % (R, mode, r.get("reason")))
        if "time" in which:
            st = attrs.get(selfn + "._supports")
            if st is None or not (cc.is_call(st, "tuple") and len(st.args) == 3):
                raise AnalysisError("%s: per-filter temporal support not found in the Gabor constructor" % R)
            lo, hi = norm(st.args[1]), norm(st.args[2])
            ctx.check(S.compare(S.add(lo, hi), S.ZERO, domain=dom, expand_logs=True)["verdict"] == "equal", R, ctor, ctor.node,
                      "Gabor (%s): the temporal support is symmetric about sample 0 (zero phase)" % mode, "temporal support is (%s, %s)" % (S.show(lo)[:60], S.show(hi)[:60]))
            ok_form = cc.is_call(hi, "int") and cc.is_call(hi.args[1], "ceil")
            if not ok_form:
                raise AnalysisError("%s: temporal half-width is not int(ceil(.)): %s" % (R, S.show(hi)[:80]))
            got = hi.args[1].args[1]
            want = S.mul(SG, S.call("sqrt", S.mul(two, S.sub(log_ct, S.call("log", EPS)))))
            r = S.compare(got, want, domain=dom, expand_logs=True)
            n += 1
            if r["verdict"] == "equal":
                ctx.ok(R, ctor.loc(), "Gabor (%s): temporal half-width is ceil(sigma sqrt(2 (log C_t - log eps)))" % mode)
            elif r["verdict"] == "differ":
                ctx.bad(R, ctor, ctor.node, "Gabor with %s: the temporal half-width is ceil(%s), but the impulse response falls to the threshold at %s "
                        "(e.g. at %s: %s vs %s); samples outside the advertised support still exceed the threshold"
                        % (mode, S.canon(got, True)[:140], S.canon(want, True)[:140], r.get("witness"), r["values"][0], r["values"][1]), "Gabor temporal support")
            else:
                raise AnalysisError("%s: temporal support (%s): %s" % (R, mode, r.get("reason")))
    ctx.floor(R, n, 2 * len(which))


def result_names(f):
    """names of the arrays a response method returns (`return res` / `return start, res` / `return start, res ** 0.5`)"""
    out = []
    for r in astq.returns_of(f):
        v = r.value
        elts = list(v.elts) if isinstance(v, ast.Tuple) else [v]
        for e in elts:
            for x in ast.walk(e):
                if isinstance(x, ast.Name):
                    out.append(x.id)
    return out


def bin_stores(prog, f, seed=None):
    """Role-based view of a per-bin loop: [(loop, loop-variable symbol, store stmt, guard, index E, value E)] for every
    store `ARR[index] = value` into a returned array inside a `for v in range(...)` loop, with every local name forward-
    substituted by its definition (so nothing depends on what the locals are called).  The loop variable is renamed BIN."""
    ev = SymEval(prog, f, seed=seed or {}, inline_props=False).run()
    rn = set(result_names(f))
    out = []
    for loop in [n for n in f.body_nodes() if isinstance(n, ast.For) and isinstance(n.target, ast.Name)]:
        v = loop.target.id
        for st in ast.walk(loop):
            if isinstance(st, (ast.Assign, ast.AugAssign)):
                tgts = st.targets if isinstance(st, ast.Assign) else [st.target]
                for t in tgts:
                    if isinstance(t, ast.Subscript) and isinstance(t.value, ast.Name) and t.value.id in rn and ev.reached(st):
                        idx = S.subst(ev.eval_at(st, t.slice), {v: S.sym("BIN")})
                        val = S.subst(ev.eval_at(st, st.value), {v: S.sym("BIN")})
                        g = S.subst(ev.guard_of(st), {v: S.sym("BIN")})
                        # "the range is not empty" holds for every bin the loop visits: such a path fact (an early return for an
                        # empty range placed before the loop) says nothing about which bins get which value
                        try:
                            it_ = ev.eval_at(loop, loop.iter)
                            implied = {S.E("bool", it_), S.cmp(">", S.call("len", it_), S.ZERO), S.cmp("!=", S.call("len", it_), S.ZERO), S.cmp("<", S.ZERO, S.call("len", it_))}
                            conj_ = list(g.args) if g.op == "and" else [g]
                            kept_ = [c_ for c_ in conj_ if c_ not in implied]
                            if len(kept_) != len(conj_):
                                g = S.eand(*kept_) if kept_ else S.TRUE
                        except Exception:
                            pass
                        out.append({"loop": loop, "stmt": st, "guard": g, "index": idx, "value": val, "array": t.value.id,
                                    "range": S.subst(ev.eval_at(loop, loop.iter), {v: S.sym("BIN")}), "ev": ev})
    return out


def piecewise(stores, pred=None):
    """value stored at the primary index (the one that is BIN or BIN - start), as one conditional expression over the stores' guards"""
    prim = [s_ for s_ in stores if (pred(s_) if pred else True)]
    if not prim:
        return None
    val = None
    for s_ in reversed(prim):
        val = s_["value"] if val is None else S.cond(s_["guard"], s_["value"], val)
    return val


def banks_stateless(ctx, R):
    """constructors, support / centre properties and response methods of every bank: no memoised helper, no write to
    class- or module-level state (the layout and the responses depend on the constructor's arguments alone)"""
    from .c20 import no_shared_state
    prog = ctx.prog
    n = 0
    for name in BANKS:
        c = bank(prog, name)
        for fi in prog.functions.values():
            if fi.cls is c and fi.parent is None:
                n += 1
                no_shared_state(ctx, R, fi, "%s.%s" % (name, fi.name), allow_self=(fi.name == "__init__"))
    fm = prog.module("filters")
    for fi in prog.functions.values():
        if fi.module is fm and fi.cls is None and fi.parent is None and fi.name.startswith("_"):
            n += 1
            no_shared_state(ctx, R, fi, "filters.%s" % fi.name)
    ctx.floor(R, n, 30)


def vector_stores(prog, f, seed=None):
    """Vectorised counterpart of bin_stores: stores `ARR[a:] (+)= V[b:...]` (or `= V`) outside loops, V built from an index
    vector np.arange(c, .).  Element t of ARR receives V at arange value c + b + (t - a); the index vector is replaced by
    BIN + (c + b - a) so that the value is expressed at the array index BIN."""
    ev = SymEval(prog, f, seed=seed or {}, inline_props=False).run()
    rn = set(result_names(f))
    out = []
    for st in f.node.body:
        if not isinstance(st, (ast.Assign, ast.AugAssign)) or not ev.reached(st):
            continue
        tgts = st.targets if isinstance(st, ast.Assign) else [st.target]
        for t in tgts:
            if not (isinstance(t, ast.Subscript) and isinstance(t.value, ast.Name) and t.value.id in rn and isinstance(t.slice, ast.Slice)):
                continue
            if t.slice.step is not None or t.slice.upper is not None:
                continue
            a = ev.eval_at(st, t.slice.lower) if t.slice.lower is not None else S.ZERO
            v = ev.eval_at(st, st.value)
            b = S.ZERO
            if cc.is_call(v, "getitem") and cc.is_call(v.args[2], "slice") and v.args[2].args[3] == S.NONE:
                b = v.args[2].args[1] if v.args[2].args[1] != S.NONE else S.ZERO
                v = v.args[1]
            gens = [x for x in S.walk(v) if cc.is_call(x, "np.arange")]
            if not gens:
                continue
            m = {}
            for gx in gens:
                pos = [a_ for a_ in gx.args[1:] if not (a_.op == "call" and isinstance(a_.args[0], str) and a_.args[0].startswith("kw:"))]
                c0 = pos[0] if len(pos) >= 2 else S.ZERO
                m[gx] = S.add(S.sym("BIN"), S.sub(S.add(c0, b), a))
            out.append({"loop": None, "stmt": st, "guard": ev.guard_of(st), "index": S.sym("BIN"), "value": S.subst(v, m), "array": t.value.id, "range": None, "ev": ev})
    return out
