"""C08 - alias / JSON configuration builds the same objects as explicit construction.

Decided clauses (DESIGN §3 C08): exhaustive alias registry, structure of the search,
dispatch order / mapping never mutated, annotated parameters normalised through the
factory with the matching family, deprecated shims forward unchanged.
"""

import ast

from .. import astq
from ..cfg import CFG, walk_no_defs
from ..dataflow import ReachingDefs, containing_node
from ..report import MISSING
from ..model import AnalysisError, ClassInfo, FunctionInfo, unparse

LEVEL = "proof"
TECHNIQUE = ("exhaustive table check of the alias registry over the class hierarchy; "
             "structural/ordering rules on the factory's CFG; reaching-definition check that "
             "every annotated alias parameter is normalised with its own family")
EXPLANATION = (
    "Decides, for every class under AliasedFactory in the parsed source: each concrete class owns a "
    "non-empty literal alias set, abstract roots own none, no alias is shared inside a family (so every "
    "alias resolves from its family to its class whatever the registration order), the search is a "
    "stateless LIFO depth-first walk over __subclasses__ that instantiates the matching class with the "
    "caller's arguments or raises ValueError, alias_factory_subclass_from_arg returns instances "
    "unchanged / treats str as alias / pops 'alias' then (only on KeyError) 'name' from a fresh dict copy "
    "and forwards the rest, every constructor parameter annotated Union[Family, Mapping, str] goes through "
    "that function with the same Family before any other use, and the two deprecated shims forward their "
    "arguments unchanged. Does NOT decide bit-identity of features of alias-built vs explicitly built "
    "computers (follows from the above plus determinism of constructors; not mechanised).")

FRESH_CALLS = {"dict", "list", "set", "copy.copy", "copy.deepcopy"}
MUTATORS = {"pop", "popitem", "update", "clear", "setdefault", "__setitem__", "__delitem__"}


def families(prog):
    root = prog.cls("alias.AliasedFactory")
    fams = [c for c in prog.direct_subclasses(root)
            if c.module.name != "pydrobert.speech"]  # the deprecated shim in __init__ is not a family
    return root, fams


def own_aliases(c):
    node = c.attrs.get("aliases")
    if node is None:
        return None, None
    return astq.literal_str_set(node), node


def family_names_resolve(ctx, R, family_qual, expected):
    """The documented names of a family resolve, by the search order of from_alias, to the documented classes:
    expected = {alias: class short name}.  A subclass that inherits its parent's alias set is visited first and takes the name."""
    prog = ctx.prog
    fam = prog.cls(family_qual)

    def alias_of(c):
        for k in prog.mro(c):
            if "aliases" in k.attrs:
                s_, _ = own_aliases(k)
                return s_ or set()
        return set()

    for alias, want in sorted(expected.items()):
        got = simulate_search(prog, fam, alias, alias_of)
        ctx.check(got is not None and got.name == want, R, got if got is not None else fam, (got or fam).node,
                  "the name '%s' builds %s" % (alias, want),
                  "the name '%s' resolves to %s, not %s: %s" % (alias, got.short if got is not None else "nothing", want,
                                                                "the class inherits the alias set of its parent and, being deeper in the class tree, is found first"
                                                                if got is not None and "aliases" not in got.attrs else "alias sets overlap"), robust=True)


def simulate_search(prog, start, alias, alias_of):
    """Model of AliasedFactory.from_alias on the static class tree: LIFO stack, a
    class is pushed back before its direct subclasses, subclasses in definition
    order; the first popped, already-expanded class holding the alias wins."""
    stack = [start]
    pushed = set()
    while stack:
        parent = stack.pop()
        if parent.qualname not in pushed:
            stack.append(parent)
            stack.extend(prog.direct_subclasses(parent))
            pushed.add(parent.qualname)
        elif alias in alias_of(parent):
            return parent
    return None


def run(ctx):
    prog = ctx.prog
    ctx.rule(registry)
    ctx.rule(search)
    ctx.rule(dispatch)
    ctx.rule(normalise)
    ctx.rule(shims)
    ctx.rule(fresh_objects)


def fresh_objects(ctx, R="R-C08-dispatch"):
    """Every resolution of an alias or a configuration builds a new object (unless an instance is passed in, which is returned
    as it is).  Scaling functions, windows, banks and computers carry public, assignable parameters and streaming state: a
    memoised factory hands one shared object to every caller, and retuning or using one changes all."""
    from .c20 import CACHE_DECOS, closure_cache_decorators
    prog = ctx.prog
    m = prog.module("alias")
    what = "resolving an alias or a configuration builds a new object each time (no memo between calls)"
    n = 0
    funcs = list(m.functions.values()) + [f for c in m.classes.values() for f in c.methods.values()]
    for f in funcs:
        n += 1
        decos = [d for d in f.decorators if any(c in d for c in CACHE_DECOS)] + ["%s (keeps `%s` in a closure)" % dc for dc in closure_cache_decorators(prog, f)]
        if decos:
            ctx.bad(R, f, f.node, "%s is wrapped by %s: whoever resolves the same name or configuration again receives the very same instance, so re-assigning a public "
                    "parameter of one (order, peak, low_hz, coeff ...) or streaming through one changes what every other user computes" % (f.short, decos), what, robust=True)
    ctx.floor(R + "/factory-functions", n, 2)
    ctx.ok(R, "src/pydrobert/speech/alias.py", what, "%d functions of alias.py inspected" % n)


# ------------------------------------------------------------------ R-C08-registry
def registry(ctx):
    prog = ctx.prog
    R = "R-C08-registry"
    root, fams = families(prog)
    ctx.need(len(fams) >= 6, R, "expected at least 6 alias families under AliasedFactory, found %d" % len(fams))
    ralias, rnode = own_aliases(root)
    ctx.check(ralias == set(), R, root, rnode or root.node,
              "AliasedFactory itself owns the empty alias set")
    n_classes = n_aliases = 0
    inherited_cache = {}

    def effective(c):
        # the set python would see as c.aliases
        for k in prog.mro(c):
            s, _ = own_aliases(k)
            if "aliases" in k.attrs:
                return s if s is not None else set()
        return set()

    for fam in fams:
        members = prog.subclasses(fam)
        seen = {}
        for c in members:
            s, node = own_aliases(c)
            concrete = prog.is_concrete(c)
            if concrete:
                n_classes += 1
                if "aliases" not in c.attrs:
                    ctx.bad(R, c, c.node.name and ("class %s" % c.name),
                            "concrete class %s defines no alias set of its own: it inherits %r and would "
                            "shadow its parent in the search (children are visited first)"
                            % (c.short, sorted(effective(c))),
                            "every concrete class owns a literal alias set")
                    continue
                if s is None:
                    raise AnalysisError("%s: aliases of %s is not a literal set of strings: %s"
                                        % (R, c.short, unparse(node)))
                ctx.check(len(s) > 0, R, c, node, "concrete class %s has a non-empty alias set" % c.short,
                          "concrete class %s has an empty alias set and cannot be built from a configuration" % c.short)
                for a in sorted(s):
                    n_aliases += 1
                    if a in seen and seen[a] is not c:
                        other = seen[a]
                        # collision inside one family: the later-registered must win
                        if other.module is not c.module:
                            raise AnalysisError(
                                "%s: alias %r shared by %s and %s in different modules; import order "
                                "cannot be determined statically" % (R, a, other.short, c.short))
                        win = simulate_search(prog, fam, a, effective)
                        later = c if c.node.lineno > other.node.lineno else other
                        ctx.check(win is later, R, c, node,
                                  "alias %r shared by %s and %s resolves to the later-registered class"
                                  % (a, other.short, c.short),
                                  "alias %r is shared by %s and %s and resolves to %s, not to the class registered last"
                                  % (a, other.short, c.short, win.short if win else None))
                    seen.setdefault(a, c)
            else:
                ctx.check(not s, R, c, node or c.node,
                          "abstract class %s owns no aliases" % c.short,
                          "abstract class %s owns aliases %r; from_alias would try to instantiate it" % (c.short, sorted(s or [])))
        # every alias of every concrete class resolves, from its family root, to that class
        for c in members:
            if not prog.is_concrete(c):
                continue
            s, node = own_aliases(c)
            for a in sorted(s or ()):
                win = simulate_search(prog, fam, a, effective)
                ctx.check(win is c, R, c, node,
                          "alias %r resolves from %s to %s" % (a, fam.short, c.short),
                          "alias %r of %s resolves from %s to %s: the class can no longer be built from its own alias"
                          % (a, c.short, fam.short, win.short if win else None))
            # ... and also from the class itself and from AliasedFactory's own family root
        # aliases must be hashable strings only
    ctx.floor(R, n_classes, 20)
    ctx.info["registry"] = {"families": [f.short for f in fams], "concrete_classes": n_classes,
                            "aliases": n_aliases}
    # cross-family collisions are information only
    allal = {}
    for fam in fams:
        for c in prog.subclasses(fam):
            s, _ = own_aliases(c)
            for a in (s or ()):
                allal.setdefault(a, set()).add(fam.short)
    ctx.info["cross_family_aliases"] = {a: sorted(f) for a, f in allal.items() if len(f) > 1}


# -------------------------------------------------------------------- R-C08-search
def search(ctx):
    prog = ctx.prog
    R = "R-C08-search"
    root = prog.cls("alias.AliasedFactory")
    f = prog.own_method(root, "from_alias")
    ctx.need(f.is_classmethod, R, "from_alias is no longer a classmethod")
    ctx.need(f.vararg is not None and f.kwarg is not None and len(f.params) >= 2, R,
             "from_alias signature changed (needs cls, alias, *args, **kwargs)")
    clsname, aliasname = f.params[0], f.params[1]
    # 1. stateless: only local names are written; no global/nonlocal; no attribute/subscript stores
    local_lists = set()
    for n in f.body_nodes():
        if isinstance(n, (ast.Global, ast.Nonlocal)):
            ctx.bad(R, f, n, "the alias search keeps state across calls (global/nonlocal)", "search is stateless")
        for t in astq.store_targets(n) if isinstance(n, ast.stmt) else []:
            for x in astq.flatten_targets(t):
                if isinstance(x, ast.Name):
                    continue
                b = astq.base_name(x)
                if b is None or b in f.all_param_names() or b not in _locals_assigned_fresh(f):
                    ctx.bad(R, f, n, "the alias search writes to non-local state (%s); resolution would depend "
                            "on earlier calls, so a class registered later no longer wins" % astq.text(x),
                            "search is stateless")
    fresh = _locals_assigned_fresh(f)
    for c in astq.func_calls(f):
        if isinstance(c.func, ast.Attribute) and c.func.attr in ("append", "extend", "add", "update", "setdefault",
                                                                   "insert", "__setitem__", "pop", "remove", "clear"):
            b = astq.base_name(c.func.value)
            if b not in fresh:
                ctx.bad(R, f, c, "the alias search mutates %s, which is not a container created inside the call"
                        % astq.text(c.func.value), "search is stateless")
    decos = [d for d in f.decorators if d != "classmethod"]
    ctx.check(not decos, R, f, f.node, "from_alias carries no caching/wrapping decorator",
              "from_alias is wrapped by %s; a memoised search ignores classes registered later" % decos)
    # 1b. the alias searched for is the caller's, unmodified (aliases are compared exactly as registered)
    for n in f.body_nodes():
        if isinstance(n, ast.stmt):
            for t in astq.store_targets(n):
                for x in astq.flatten_targets(t):
                    if astq.is_name(x, aliasname):
                        ctx.bad(R, f, n, "the requested alias is rewritten before the search (%s) while registered aliases are compared as written: "
                                "an alias registered with a different spelling (upper case, surrounding blanks) no longer resolves to its class, "
                                "or resolves to another class that owns the rewritten spelling" % astq.text(n)[:80], "alias compared as given")
        if isinstance(n, (ast.For, ast.comprehension)) and any(astq.is_name(x, aliasname) for x in ast.walk(n.target)):
            ctx.bad(R, f, n if isinstance(n, ast.stmt) else f.node, "the alias parameter is rebound by a loop", "alias compared as given")
    # 2. exits: return <cand>(*args, **kwargs) under `alias in <cand>.aliases`; raise ValueError
    pm = astq.parents(f)
    rets = astq.returns_of(f)
    ctx.need(rets, R, "from_alias has no return")
    for r in rets:
        v = r.value
        good = (isinstance(v, ast.Call) and isinstance(v.func, ast.Name)
                and len(v.args) == 1 and isinstance(v.args[0], ast.Starred) and astq.is_name(v.args[0].value, f.vararg)
                and len(v.keywords) == 1 and v.keywords[0].arg is None and astq.is_name(v.keywords[0].value, f.kwarg))
        if not good:
            ctx.bad(R, f, r, "from_alias must return <class>(*%s, **%s) with the caller's arguments unchanged"
                    % (f.vararg, f.kwarg), "arguments forwarded unchanged")
            continue
        cand = v.func.id
        guard_ok = False
        for a in astq.ancestors(pm, r):
            if isinstance(a, ast.If):
                for t in walk_no_defs(a.test):
                    if (isinstance(t, ast.Compare) and len(t.ops) == 1 and isinstance(t.ops[0], ast.In)
                            and astq.is_name(t.left, aliasname)
                            and isinstance(t.comparators[0], ast.Attribute) and t.comparators[0].attr == "aliases"
                            and astq.is_name(t.comparators[0].value, cand)):
                        # the return must be on the true side
                        guard_ok = _in_body(a.body, r)
        ctx.check(guard_ok, R, f, r, "instantiation is guarded by `%s in %s.aliases`" % (aliasname, cand),
                  "from_alias instantiates %s without testing `%s in %s.aliases` on that path" % (cand, aliasname, cand))
    raises = astq.raises_of(f)
    ctx.check(len(raises) >= 1 and all(astq.raise_type(prog, f, r) == "ValueError" for r in raises), R, f,
              raises[0] if raises else MISSING(f.node), "an unknown alias raises ValueError",
              "from_alias does not raise ValueError for an unknown alias (raises: %s)"
              % [astq.raise_type(prog, f, r) for r in raises])
    # the raise must be the fall-through after the loop (reachable when the stack empties)
    cfg = CFG(f.node)
    for r in raises:
        n = cfg.node(r)
        ctx.check(n in cfg.reachable(), R, f, r, "the ValueError is reachable")
    # falling off the end (returning None) must be impossible
    implicit = [p for p, l in cfg.pred[CFG.EXIT] if cfg.kind[p] != "return"]
    ctx.check(not implicit, R, f, f.node, "from_alias cannot fall off the end and return None",
              "from_alias can finish without returning an instance or raising")
    # no except clause swallows constructor errors
    tries = [n for n in f.body_nodes() if isinstance(n, ast.Try)]
    ctx.check(not tries, R, f, tries[0] if tries else MISSING(f.node), "no try/except around instantiation",
              "from_alias wraps instantiation in try/except and may swallow constructor errors")
    # 3. traversal order: LIFO pop, parent re-pushed before children, children = __subclasses__()
    pops = [c for c in astq.func_calls(f) if astq.attr_call(c, "pop")]
    sub = [c for c in astq.func_calls(f) if astq.attr_call(c, "__subclasses__")]
    ctx.need(pops and sub, R, "search idiom not recognised (no stack.pop() / __subclasses__()); re-confirm the rule")
    for p in pops:
        ctx.check(not p.args and not p.keywords, R, f, p,
                  "the work list is popped last-in-first-out (most recently registered subclass first)",
                  "the work list is popped with an argument (%s): the first registered class would win" % astq.text(p))
    for s in sub:
        par = pm.get(id(s))
        wrapped = isinstance(par, ast.Call) and par is not s and isinstance(par.func, ast.Name) and par.func.id in ("reversed", "sorted")
        sliced = isinstance(par, ast.Subscript)
        ctx.check(not wrapped and not sliced, R, f, s, "__subclasses__() order (registration order) is used as is",
                  "the order of __subclasses__() is altered (%s)" % astq.text(par))
    ext = [c for c in astq.func_calls(f) if astq.attr_call(c, "extend")]
    app = [c for c in astq.func_calls(f) if astq.attr_call(c, "append") and c.args and isinstance(c.args[0], ast.Name)]
    if ext and not app:
        # single-visit traversal: a class is tested when it is popped, its subclasses are pushed afterwards (or before) - either
        # way an ancestor is tested before its descendants
        tested_on_pop = []
        for r in rets:
            v = r.value
            if isinstance(v, ast.Call) and isinstance(v.func, ast.Name):
                popped = [n for n in f.body_nodes() if isinstance(n, ast.Assign) and any(astq.is_name(t, v.func.id) for t in n.targets)
                          and isinstance(n.value, ast.Call) and astq.attr_call(n.value, "pop")]
                if popped:
                    tested_on_pop.append(r)
        if tested_on_pop:
            ctx.bad(R, f, tested_on_pop[0], "every class is visited once and tested for the alias as soon as it is popped, before its subclasses are: an ancestor "
                    "that declares (or a subclass that inherits) the alias is instantiated instead of the later-registered descendant, so "
                    "'the class registered last wins' fails whenever the later class derives from the earlier one",
                    "descendants are tried before their ancestors")
            return
    ctx.need(ext and app, R, "search idiom not recognised (no stack.append(parent) / stack.extend(children))")
    stack_name = astq.base_name(pops[0].func.value)
    e0 = [c for c in ext if astq.base_name(c.func.value) == stack_name]
    a0 = [c for c in app if astq.base_name(c.func.value) == stack_name]
    ctx.need(e0 and a0, R, "search idiom not recognised (stack pushes)")
    ctx.check(a0[0].lineno < e0[0].lineno or (a0[0].lineno == e0[0].lineno and a0[0].col_offset < e0[0].col_offset),
              R, f, e0[0], "a class is pushed back before its subclasses, so descendants are tried before ancestors",
              "subclasses are pushed before their parent: an ancestor would be tried before its descendants")
    # the start of the search is the class the method was called on
    starts = [n for n in f.body_nodes() if isinstance(n, ast.Assign) and any(astq.is_name(t, stack_name) for t in n.targets)]
    ok = any(isinstance(s.value, ast.List) and len(s.value.elts) == 1 and astq.is_name(s.value.elts[0], clsname) for s in starts)
    ctx.check(ok, R, f, starts[0] if starts else MISSING(f.node), "the search starts at the class it was called on (the family)",
              "the search does not start from [%s]" % clsname)


def _in_body(body, node):
    for st in body:
        for n in ast.walk(st):
            if n is node:
                return True
    return False


def _locals_assigned_fresh(f):
    """Local names bound (only) to fresh containers created in the function."""
    out = {}
    for n in f.body_nodes():
        if isinstance(n, ast.Assign):
            for t in n.targets:
                if isinstance(t, ast.Name):
                    v = n.value
                    fresh = isinstance(v, (ast.List, ast.Set, ast.Dict, ast.ListComp, ast.SetComp, ast.DictComp, ast.Tuple)) or (
                        isinstance(v, ast.Call) and isinstance(v.func, ast.Name) and v.func.id in ("set", "list", "dict", "deque"))
                    fresh = fresh or (isinstance(v, ast.Call) and astq.attr_call(v, "__subclasses__"))
                    out[t.id] = out.get(t.id, True) and fresh
    return {k for k, v in out.items() if v}


# ------------------------------------------------------------------ R-C08-dispatch
def dispatch(ctx):
    prog = ctx.prog
    R = "R-C08-dispatch"
    f = prog.func("alias.alias_factory_subclass_from_arg")
    ctx.need(len(f.params) == 2, R, "signature of alias_factory_subclass_from_arg changed")
    fc, arg = f.params
    cfg = CFG(f.node)
    rd = ReachingDefs(f, cfg)
    dom = cfg.dominators()
    body = f.node.body
    stmts = [s for s in body if not (isinstance(s, ast.Expr) and isinstance(s.value, ast.Constant))]
    first = stmts[0] if stmts else MISSING(None)
    # (i) isinstance test first, returns arg itself
    ok = (isinstance(first, ast.If) and isinstance(first.test, ast.Call) and astq.is_name(first.test.func, "isinstance")
          and len(first.test.args) == 2 and astq.is_name(first.test.args[0], arg) and astq.is_name(first.test.args[1], fc)
          and len(first.body) == 1 and isinstance(first.body[0], ast.Return) and astq.is_name(first.body[0].value, arg))
    ctx.check(ok, R, f, first or f.node, "an instance of the family is returned unchanged, before anything else",
              "the function does not start with `if isinstance(%s, %s): return %s`" % (arg, fc, arg))
    if not ok:
        return
    n_first = cfg.node(first)
    for n in cfg.reachable():
        if n in (CFG.ENTRY, CFG.EXIT, CFG.RAISE) or n == n_first:
            continue
        st_n = cfg.stmt[n]
        if isinstance(st_n, ast.Expr) and isinstance(st_n.value, ast.Constant):
            continue  # docstring
        if n_first not in dom.get(n, ()):
            ctx.bad(R, f, cfg.stmt[n], "statement not dominated by the isinstance test", "isinstance test dominates everything")
    # (ii) str branch
    str_ifs = [n for n in f.body_nodes() if isinstance(n, ast.If) and isinstance(n.test, ast.Call)
               and astq.is_name(n.test.func, "isinstance") and len(n.test.args) == 2
               and astq.is_name(n.test.args[0], arg) and astq.is_name(n.test.args[1], "str")]
    ctx.need(len(str_ifs) == 1, R, "str branch not found")
    sb = str_ifs[0].body
    ok = (len(sb) == 1 and isinstance(sb[0], ast.Return) and isinstance(sb[0].value, ast.Call)
          and isinstance(sb[0].value.func, ast.Attribute) and sb[0].value.func.attr == "from_alias"
          and astq.is_name(sb[0].value.func.value, fc)
          and len(sb[0].value.args) == 1 and astq.is_name(sb[0].value.args[0], arg) and not sb[0].value.keywords)
    io_calls = [c_ for st_ in sb for c_ in ast.walk(st_) if isinstance(c_, ast.Call) and (
        astq.is_name(c_.func, "open") or (prog.qualify(f.module, c_.func, f) or "").startswith(("os.path.", "io.open", "json.load", "pathlib.")))]
    if io_calls:
        ctx.bad(R, f, io_calls[0], "a string argument is looked up in the file system (%s) before - or instead of - being used as an alias: a file that happens to "
                "be called like an alias (hann, fbank, mel ...) changes what the name builds" % astq.text(io_calls[0])[:50],
                "a string is used as the alias with default arguments")
    ctx.check(ok, R, f, sb[0], "a string is used as the alias with default arguments: %s.from_alias(%s)" % (fc, arg),
              "the str branch is not exactly `return %s.from_alias(%s)`" % (fc, arg), structural=True)
    # (ii') any mapping is keyword arguments: a type test narrower than Mapping may not be the only way into that branch
    pm_ = astq.parents(f)
    wide = {"Mapping", "collections.abc.Mapping", "typing.Mapping", "abc.Mapping", "object"}
    for n in f.body_nodes():
        if not (isinstance(n, ast.If) and isinstance(n.test, ast.Call) and astq.is_name(n.test.func, "isinstance") and len(n.test.args) == 2
                and astq.is_name(n.test.args[0], arg)):
            continue
        t = n.test.args[1]
        names = [prog.dotted(x) or astq.text(x) for x in (t.elts if isinstance(t, ast.Tuple) else [t])]
        if any(x in (fc, "str") for x in names) or any(x in wide for x in names):
            continue
        # the complement: the else branch, then what follows the `if` when its body always leaves
        comp = list(n.orelse)
        par = pm_.get(id(n))
        sib = getattr(par, "body", []) if n in getattr(par, "body", []) else (getattr(par, "orelse", []) if n in getattr(par, "orelse", []) else [])
        cur = n
        while True:
            par = pm_.get(id(cur))
            if par is None or isinstance(par, (ast.FunctionDef, ast.For, ast.While)) and cur not in par.body:
                break
            sib = par.body if cur in getattr(par, "body", []) else (par.orelse if cur in getattr(par, "orelse", []) else [])
            if cur in sib:
                comp += sib[sib.index(cur) + 1:]
            if isinstance(par, ast.FunctionDef) or not isinstance(par, ast.If):
                break
            cur = par
        builds = any(isinstance(x, ast.Call) and isinstance(x.func, ast.Attribute) and x.func.attr == "from_alias" for st_ in comp for x in ast.walk(st_))
        if not builds:
            ctx.bad(R, f, n, "keyword arguments are accepted only from `%s`; any other mapping (a read-only MappingProxyType, a ChainMap, a frozen configuration "
                    "object) %s" % (astq.text(t), "is rejected" if any(isinstance(x, ast.Raise) for st_ in comp for x in ast.walk(st_)) else "builds nothing"),
                    "a mapping of any type is taken as keyword arguments", robust=True)
    # (iii) mutations only on fresh copies
    n_mut = 0
    for c in astq.func_calls(f):
        if isinstance(c.func, ast.Attribute) and c.func.attr in MUTATORS and isinstance(c.func.value, ast.Name):
            name = c.func.value.id
            node = containing_node(cfg, f, c)
            defs = rd.reaching(node, name)
            n_mut += 1
            for d in defs:
                v_ = getattr(d, "value", None)
                comp_ = v_ if isinstance(v_, ast.DictComp) else (
                    v_.args[0] if (isinstance(v_, ast.Call) and astq.is_name(v_.func, "dict") and len(v_.args) == 1 and isinstance(v_.args[0], (ast.GeneratorExp, ast.ListComp))) else None)
                if comp_ is not None and comp_.generators and (comp_.generators[0].ifs or len(comp_.generators) > 1) and any(
                        isinstance(x, ast.Name) and x.id == arg for x in ast.walk(comp_.generators[0].iter)):
                    ctx.bad(R, f, v_, "the working copy of the mapping is built by a filtering comprehension (`%s`): entries that fail the filter (0, False, '', "
                            "empty containers) never reach the constructor, which then uses its defaults" % astq.text(v_)[:90],
                            "every item of the mapping other than the alias key is forwarded as a keyword argument")
                tr = _transforming_copy(v_, arg)
                if tr is not None:
                    ctx.bad(R, f, v_, "the working copy of the mapping is built with its %s rewritten (`%s`): what reaches the constructor is no longer what the "
                            "mapping says, so the object built from a configuration differs from the one built with the same keyword arguments" % (tr, astq.text(v_)[:90]),
                            "every item of the mapping other than the alias key is forwarded unchanged as a keyword argument", robust=True)
            bad = [d for d in defs if not _fresh_def(prog, f, d)]
            ctx.check(not bad and defs, R, f, c,
                      "%s.%s(...) acts on a fresh copy (dict(...)) of the caller's mapping" % (name, c.func.attr),
                      "%s.%s(...) can act on the caller's own mapping (definition reaching it: %s)"
                      % (name, c.func.attr, ", ".join(d.kind for d in bad) or "none"))
    for n in f.body_nodes():
        if isinstance(n, (ast.Assign, ast.AugAssign, ast.Delete)):
            tgts = n.targets if isinstance(n, (ast.Assign, ast.Delete)) else [n.target]
            for t in tgts:
                if isinstance(t, ast.Subscript) and isinstance(t.value, ast.Name):
                    node = cfg.node(n)
                    defs = rd.reaching(node, t.value.id)
                    n_mut += 1
                    bad = [d for d in defs if not _fresh_def(prog, f, d)]
                    ctx.check(not bad and defs, R, f, n, "item store/delete acts on a fresh copy",
                              "item store/delete on %s can modify the caller's mapping" % t.value.id)
    ctx.floor(R + "/mutations", n_mut, 2)
    # (iv) 'alias' before 'name'; 'name' only when 'alias' is absent
    pm = astq.parents(f)
    pops = {}
    for c in astq.func_calls(f):
        if astq.attr_call(c, "pop") and c.args and astq.const_str(c.args[0]) in ("alias", "name"):
            pops.setdefault(astq.const_str(c.args[0]), []).append(c)
    ctx.need("alias" in pops and "name" in pops, R, "pops of 'alias' and 'name' not found")
    for npop in pops["name"]:
        ok = False
        why = "it is evaluated whether or not 'alias' is present"
        for a in astq.ancestors(pm, npop):
            if isinstance(a, ast.ExceptHandler):
                t = prog.dotted(a.type) if a.type is not None else None
                tr = pm.get(id(a))
                in_body = isinstance(tr, ast.Try) and any(_in_body(tr.body, p) for p in pops["alias"])
                if t == "KeyError" and in_body:
                    ok = True
                break
            if isinstance(a, ast.If):
                t = a.test
                if (isinstance(t, ast.Compare) and len(t.ops) == 1 and astq.const_str(t.left) == "alias"
                        and isinstance(t.comparators[0], ast.Name)):
                    if isinstance(t.ops[0], ast.In) and _in_body(a.orelse, npop):
                        ok = True
                    if isinstance(t.ops[0], ast.NotIn) and _in_body(a.body, npop):
                        ok = True
                    break
            if isinstance(a, ast.Call) and a is not npop and astq.attr_call(a, "pop") and a in pops["alias"]:
                why = "it is an (eagerly evaluated) argument of the 'alias' pop, so 'name' is always removed"
                break
        ctx.check(ok, R, f, astq.enclosing_stmt(pm, npop),
                  "'name' is consulted only when 'alias' is absent (KeyError handler / membership test)",
                  "'name' is popped although 'alias' may be present: %s; a mapping holding both keys loses its "
                  "'name' keyword argument or gives 'name' precedence" % why)
    for apop in pops["alias"]:
        ctx.check(len(apop.args) == 1 and not apop.keywords, R, f, apop,
                  "'alias' is popped without a default, so its absence is detected",
                  "'alias' is popped with a default value (%s)" % astq.text(apop))
    # (v) the rest is forwarded to the same family
    last = [r for r in astq.returns_of(f) if isinstance(r.value, ast.Call) and any(k.arg is None for k in r.value.keywords)]
    ctx.need(len(last) == 1, R, "final `return factory.from_alias(alias, **rest)` not found")
    v = last[0].value
    popped_vars = set()
    for k, cs in pops.items():
        for c in cs:
            st = astq.enclosing_stmt(pm, c)
            if isinstance(st, ast.Assign) and st.value is c:
                popped_vars.update(t.id for t in st.targets if isinstance(t, ast.Name))
    vfunc = v.func
    if isinstance(vfunc, ast.Name):
        # the bound method held in a local: read through its single definition
        defs = [n for n in f.body_nodes() if isinstance(n, ast.Assign) and any(astq.is_name(t, vfunc.id) for t in n.targets)]
        if len(defs) == 1:
            vfunc = defs[0].value
    ok = (isinstance(vfunc, ast.Attribute) and vfunc.attr == "from_alias" and astq.is_name(vfunc.value, fc)
          and len(v.args) == 1 and isinstance(v.args[0], ast.Name) and v.args[0].id in popped_vars
          and len(v.keywords) == 1 and isinstance(v.keywords[0].value, ast.Name))
    ctx.check(ok, R, f, last[0], "the remaining items are forwarded as keyword arguments to %s.from_alias" % fc,
              "the mapping branch does not end in `return %s.from_alias(<popped alias>, **<rest>)`" % fc)
    if ok:
        restname = v.keywords[0].value.id
        mut_names = {c.func.value.id for cs in pops.values() for c in cs if isinstance(c.func.value, ast.Name)}
        ctx.check(mut_names == {restname}, R, f, last[0],
                  "the forwarded mapping is the copy the keys were popped from",
                  "keys are popped from %s but %s is forwarded" % (sorted(mut_names), restname))


def _transforming_copy(v, arg):
    """'values' / 'keys' when v copies the mapping `arg` item by item through a comprehension whose key or value expression is
    not the item's own key / value; None for identity copies and for anything that is not such a copy"""
    comp = None
    if isinstance(v, ast.DictComp):
        comp, kx, vx = v, v.key, v.value
    elif isinstance(v, ast.Call) and astq.is_name(v.func, "dict") and len(v.args) == 1 and isinstance(v.args[0], (ast.GeneratorExp, ast.ListComp)) \
            and isinstance(v.args[0].elt, ast.Tuple) and len(v.args[0].elt.elts) == 2:
        comp, (kx, vx) = v.args[0], v.args[0].elt.elts
    if comp is None or len(comp.generators) != 1:
        return None
    g = comp.generators[0]
    if not any(isinstance(x, ast.Name) and x.id == arg for x in ast.walk(g.iter)):
        return None
    if astq.attr_call(g.iter, "items") and isinstance(g.target, ast.Tuple) and len(g.target.elts) == 2 and all(isinstance(e, ast.Name) for e in g.target.elts):
        kn, vn = g.target.elts[0].id, g.target.elts[1].id
        if not astq.is_name(kx, kn):
            return "keys"
        if not astq.is_name(vx, vn):
            return "values"
        return None
    if isinstance(g.target, ast.Name):
        # for k in arg: k -> arg[k]
        kn = g.target.id
        if not astq.is_name(kx, kn):
            return "keys"
        if not (isinstance(vx, ast.Subscript) and astq.is_name(vx.value, arg) and astq.is_name(vx.slice, kn)):
            return "values"
    return None


def _fresh_def(prog, f, d):
    if d.kind != "assign" or d.value is None:
        return False
    v = d.value
    if isinstance(v, (ast.Dict, ast.DictComp)):
        return True
    if isinstance(v, ast.Call):
        if isinstance(v.func, ast.Name) and v.func.id in ("dict", "OrderedDict") and v.func.id not in f.all_param_names():
            return True
        q = prog.qualify(f.module, v.func, f)
        if q in ("copy.copy", "copy.deepcopy", "collections.OrderedDict"):
            return True
        if isinstance(v.func, ast.Attribute) and v.func.attr == "copy" and not v.args:
            return True
    return False


# ----------------------------------------------------------------- R-C08-normalise
def _family_of_annotation(prog, f, ann):
    """Family class F if ann is Union[F, Mapping, str] (any order), optionally inside Optional[...]."""
    if isinstance(ann, ast.Subscript):
        head = prog.dotted(ann.value)
        if head in ("Optional", "typing.Optional"):
            return _family_of_annotation(prog, f, ann.slice)
        if head in ("Union", "typing.Union"):
            elts = ann.slice.elts if isinstance(ann.slice, ast.Tuple) else [ann.slice]
            names = [prog.dotted(e) for e in elts]
            if "str" in names and any(n in ("Mapping", "typing.Mapping", "dict", "Dict") for n in names if n):
                for e in elts:
                    r = prog.resolve(f.module, e, f)
                    if isinstance(r, ClassInfo) and prog.cls("alias.AliasedFactory") in prog.mro(r):
                        return r
    return None


def normalise(ctx):
    prog = ctx.prog
    R = "R-C08-normalise"
    afs = prog.func("alias.alias_factory_subclass_from_arg")
    count = 0
    for f in list(prog.functions.values()):
        for p, ann in f.annotations.items():
            fam = _family_of_annotation(prog, f, ann)
            if fam is None:
                continue
            count += 1
            _check_param_normalised(ctx, R, f, p, fam, afs)
    ctx.floor(R, count, 8)
    # command-line tools build the three families through the same function
    want = {"FrameComputer": "compute.FrameComputer", "PreProcessor": "pre.PreProcessor", "PostProcessor": "post.PostProcessor"}
    for tool in ("command_line.compute_feats_from_kaldi_tables", "command_line.signals_to_torch_feat_dir"):
        f = prog.func(tool)
        got = set()
        for c in astq.func_calls(f):
            tgt = prog.resolve(f.module, c.func, f)
            if tgt is afs and len(c.args) == 2:
                r = prog.resolve(f.module, c.args[0], f)
                if isinstance(r, ClassInfo):
                    got.add(r.short)
            elif isinstance(tgt, FunctionInfo) and tgt.cls is None:
                # one hop: a package helper that forwards its family parameter to alias_factory_subclass_from_arg
                for i, a in enumerate(c.args):
                    r = prog.resolve(f.module, a, f)
                    if isinstance(r, ClassInfo) and i < len(tgt.params):
                        if any(prog.resolve(tgt.module, c2.func, tgt) is afs and len(c2.args) == 2 and astq.is_name(c2.args[0], tgt.params[i]) for c2 in astq.func_calls(tgt)):
                            got.add(r.short)
        for name, short in want.items():
            ctx.check(short in got, R, f, f.node, "%s builds its %s through alias_factory_subclass_from_arg" % (f.name, name),
                      "%s does not build a %s with alias_factory_subclass_from_arg(%s, ...)" % (f.name, name, name))


def _check_param_normalised(ctx, R, f, p, fam, afs):
    prog = ctx.prog
    cfg = CFG(f.node)
    rd = ReachingDefs(f, cfg)
    pm = astq.parents(f)
    conv = []
    via = {}  # call in f -> (helper, the helper's own conversion call): the parameter is handed to a package helper that converts it
    for c in astq.func_calls(f):
        tgt = prog.resolve(f.module, c.func, f)
        if tgt is afs and len(c.args) == 2 and astq.is_name(c.args[1], p):
            conv.append(c)
        elif isinstance(tgt, FunctionInfo) and tgt is not afs:
            off = 1 if (tgt.cls is not None and not tgt.is_staticmethod) else 0
            for i, a in enumerate(c.args):
                if astq.is_name(a, p) and i + off < len(tgt.params):
                    formal = tgt.params[i + off]
                    inner = [c2 for c2 in astq.func_calls(tgt) if prog.resolve(tgt.module, c2.func, tgt) is afs and len(c2.args) == 2 and astq.is_name(c2.args[1], formal)]
                    if inner:
                        conv.append(c)
                        via[id(c)] = (tgt, inner[0], a)
    if not conv:
        ctx.bad(R, f, "parameter %s" % p,
                "parameter %s is annotated Union[%s, Mapping, str] but is never passed through "
                "alias_factory_subclass_from_arg; an alias or mapping would be stored raw" % (p, fam.name),
                "annotated alias parameter is normalised")
        return
    for c in conv:
        if id(c) in via:
            helper, inner_call, _ = via[id(c)]
            r = prog.resolve(helper.module, inner_call.args[0], helper)
        else:
            r = prog.resolve(f.module, c.args[0], f)
        ctx.check(r is fam, R, f, astq.enclosing_stmt(pm, c),
                  "%s is normalised with its annotated family %s" % (p, fam.name),
                  "%s is annotated %s but normalised with family %s: an alias would resolve in the wrong registry"
                  % (p, fam.name, r.name if isinstance(r, ClassInfo) else astq.text(c.args[0])))
    # every *raw* use (the parameter definition still reaching) must be the conversion or a None test
    for n, st in cfg.stmt.items():
        if st is None:
            continue
        from ..cfg import header_walk

        for x in header_walk(st):
            if isinstance(x, ast.Name) and x.id == p and isinstance(x.ctx, ast.Load):
                defs = rd.reaching(n, p)
                if not any(d.kind == "param" for d in defs):
                    continue
                par = pm.get(id(x))
                if isinstance(par, ast.Call) and par in conv and (par.args[1] is x if id(par) not in via else via[id(par)][2] is x):
                    continue
                if isinstance(par, ast.Compare) and all(isinstance(o, (ast.Is, ast.IsNot)) for o in par.ops):
                    continue
                if isinstance(par, ast.Call) and astq.is_name(par.func, "isinstance"):
                    continue
                ctx.bad(R, f, st, "raw parameter %s (possibly still an alias string or mapping) is used before/without "
                        "normalisation: %s" % (p, astq.text(par if par is not None else x)),
                        "no raw use of an alias parameter")
    ctx.ok(R, f.loc(), "raw uses of %s are limited to the conversion call and None/isinstance tests" % p)


# ---------------------------------------------------------------- R-C08-shims
def shims(ctx):
    prog = ctx.prog
    R = "R-C08-deprecated-shims"
    afs = prog.func("alias.alias_factory_subclass_from_arg")
    f = prog.module("util").functions.get("alias_factory_subclass_from_arg")
    ctx.need(f is not None, R, "util.alias_factory_subclass_from_arg (deprecated shim) vanished")
    rets = astq.returns_of(f)
    ok = False
    if len(rets) == 1 and isinstance(rets[0].value, ast.Call):
        v = rets[0].value
        ok = (prog.resolve(f.module, v.func, f) is afs and f.vararg and f.kwarg and len(v.args) == 1
              and isinstance(v.args[0], ast.Starred) and astq.is_name(v.args[0].value, f.vararg)
              and len(v.keywords) == 1 and v.keywords[0].arg is None and astq.is_name(v.keywords[0].value, f.kwarg))
    ctx.check(ok, R, f, rets[0] if rets else MISSING(f.node), "util shim forwards *args/**kwargs unchanged to the real function",
              "util.alias_factory_subclass_from_arg no longer forwards its arguments unchanged")
    shim = prog.module("").classes.get("AliasedFactory")
    ctx.need(shim is not None, R, "pydrobert.speech.AliasedFactory (deprecated shim) vanished")
    g = prog.own_method(shim, "from_alias")
    rets = astq.returns_of(g)
    ok = False
    if len(rets) == 1 and isinstance(rets[0].value, ast.Call):
        v = rets[0].value
        ok = (isinstance(v.func, ast.Attribute) and v.func.attr == "from_alias" and isinstance(v.func.value, ast.Call)
              and astq.is_name(v.func.value.func, "super")
              and len(v.args) == 2 and astq.is_name(v.args[0], g.params[1]) and isinstance(v.args[1], ast.Starred)
              and astq.is_name(v.args[1].value, g.vararg)
              and len(v.keywords) == 1 and v.keywords[0].arg is None and astq.is_name(v.keywords[0].value, g.kwarg))
    ctx.check(ok, R, g, rets[0] if rets else MISSING(g.node), "package-level AliasedFactory shim forwards to the real from_alias",
              "pydrobert.speech.AliasedFactory.from_alias no longer forwards (alias, *args, **kwargs) unchanged")
    s, node = own_aliases(shim)
    ctx.check("aliases" not in shim.attrs or s == set(), R, shim, node or shim.node, "the shim class registers no aliases")
