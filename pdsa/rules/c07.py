"""C07 - impulse and frequency responses agree within the advertised supports (thin: structural clauses only)."""

import ast
from fractions import Fraction

from .. import astq
from .. import sym as S
from ..dt import DT
from ..report import MISSING
from ..model import AnalysisError
from ..symeval import SymEval
from . import cli_common as cc
from . import filters_common as fc
from .c20 import fresh_and_pure

LEVEL = "other"
TECHNIQUE = ("dtype/flag correlation rule (complex impulse response iff not is_real), sign-domain rule on the temporal supports, "
             "call-time reading of the support threshold, purity of the response methods")
EXPLANATION = (
    "The core of this property is numerical (agreement of an inverse DFT with a closed form to within a tolerance, leakage "
    "outside supports) and is NOT decided. Decided clauses, each a necessary condition: get_impulse_response returns a "
    "complex array exactly under the negation of what is_real returns (triangular: complex128 iff analytic; Fbank: ifft "
    "of the full response iff analytic, irfft of the half response otherwise; Gabor / gammatone: always complex, is_real "
    "constantly False); zero-phase banks advertise temporal supports that straddle sample 0 by construction and the "
    "causal gammatone's start at floor(offset) with offset = 0 unless max_centered; the effective-support threshold is "
    "read from config when a bank is built or queried (never frozen in a default argument or module constant), so both "
    "domains use the same threshold; the response methods keep no memo or instance state keyed on part of their arguments.")


def run(ctx):
    ctx.rule(realness)
    ctx.rule(support_sign)
    ctx.rule(config_live)
    ctx.rule(purity)
    ctx.rule(fc.gabor_supports, "R-C07-gabor-support", ("freq", "time"))
    ctx.rule(_gabor_pair)
    ctx.rule(gammatone_frame)
    ctx.rule(fc.banks_stateless, "R-C07-pure")


def realness(ctx, R="R-C07-realness"):
    prog = ctx.prog
    for name in fc.BANKS:
        c = fc.bank(prog, name)
        ir = prog.own_method(c, "is_real")
        r = astq.returns_of(ir)
        ctx.need(len(r) == 1, R, "%s.is_real has several returns" % name)
        real_expr = astq.text(r[0].value).replace(" ", "")
        f = prog.own_method(c, "get_impulse_response")
        if name == "TriangularOverlappingFilterBank":
            allocs = [n for n in f.body_nodes() if isinstance(n, ast.Assign) and astq.is_name(n.targets[0], "res") and isinstance(n.value, ast.Call)]
            ok = len(allocs) == 1 and astq.eq_text(astq.kw(allocs[0].value, "dtype"), "np.complex128ifself._analyticelsenp.float64") and real_expr == "notself._analytic"
            ctx.check(ok, R, f, allocs[0] if allocs else MISSING(f.node), "triangular: the impulse response is complex128 iff analytic, and is_real is `not analytic`",
                      "triangular impulse response dtype is %s while is_real returns %s" % (astq.text(astq.kw(allocs[0].value, "dtype")) if allocs else None, real_expr))
            rr = astq.returns_of(f)
            ctx.check(all(astq.is_name(x.value, "res") for x in rr), R, f, f.node, "triangular: that buffer is what is returned")
        elif name == "Fbank":
            ev = {}
            for an in (True, False):
                e = SymEval(prog, f, seed={"self._analytic": an}, inline_props=True).run()
                ctx.need(len(e.returns) == 1, R, "Fbank.get_impulse_response has several returns for analytic=%s" % an)
                ev[an] = e.returns[0][1]
            s_t, s_f = S.show(ev[True]), S.show(ev[False])
            ok = s_t.startswith("np.fft.ifft(") and "kw:half(False)" in s_t and s_f.startswith("np.fft.irfft(") and "kw:half(True)" in s_f and "kw:n(width)" in s_f
            ctx.check(ok and real_expr == "notself._analytic", R, f, f.node,
                      "Fbank: analytic banks invert the full response with ifft (complex), real banks the half response with irfft(n=width) (real)",
                      "Fbank impulse response is %s (analytic) / %s (real); is_real returns %s" % (s_t[:80], s_f[:80], real_expr))
        else:
            allocs = [n for n in f.body_nodes() if isinstance(n, ast.Assign) and astq.is_name(n.targets[0], "res") and isinstance(n.value, ast.Call)]
            ok = len(allocs) == 1 and astq.text(astq.kw(allocs[0].value, "dtype")) == "np.complex128" and real_expr == "False"
            ctx.check(ok, R, f, allocs[0] if allocs else MISSING(f.node), "%s: the impulse response is always complex128 and is_real is constantly False" % name,
                      "%s impulse response dtype %s vs is_real %s" % (name, astq.text(astq.kw(allocs[0].value, "dtype")) if allocs else None, real_expr))
        zp = prog.own_method(c, "is_zero_phase")
        want = "False" if name == "ComplexGammatoneFilterBank" else "True"
        ctx.check(astq.text(astq.returns_of(zp)[0].value) == want, R, zp, zp.node, "%s.is_zero_phase is %s" % (name, want))


def support_sign(ctx, R="R-C07-support-sign"):
    prog = ctx.prog
    for name in fc.VERTEX_BANKS:
        f = prog.own_method(fc.bank(prog, name), "supports")
        apps = [x for x in astq.func_calls(f) if astq.attr_call(x, "append")]
        ok = len(apps) == 1 and astq.eq_text(apps[0].args[0], "(-K//2-1,K//2+1)")
        ks = [n for n in f.body_nodes() if isinstance(n, ast.Assign) and astq.is_name(n.targets[0], "K") and astq.eq_text(n.value, "int(np.ceil(K))")]
        ctx.check(ok and len(ks) == 1, R, f, apps[0] if apps else MISSING(f.node),
                  "%s: supports are (-K//2 - 1, K//2 + 1) with K = int(ceil(.)) >= 0, i.e. strictly negative / strictly positive ends" % name,
                  "%s supports entry is %s" % (name, astq.text(apps[0].args[0]) if apps else None))
    c, f, ev = fc.ctor_eval(prog, "GaborFilterBank")
    apps = [x for x in astq.func_calls(f) if astq.attr_call(x, "append") and astq.is_name(x.func.value, "supports")]
    ok = len(apps) == 1 and astq.eq_text(apps[0].args[0], "(-diff_samps,diff_samps)")
    ds = [n for n in f.body_nodes() if isinstance(n, ast.Assign) and astq.is_name(n.targets[0], "diff_samps")]
    ok = ok and len(ds) == 2 and all(astq.text(n.value).replace(" ", "").startswith("int(np.ceil(") for n in ds)
    ctx.check(ok, R, f, apps[0] if apps else MISSING(f.node), "Gabor: supports are (-d, d) with d = int(ceil(.))", "Gabor supports entry is %s" % (astq.text(apps[0].args[0]) if apps else None))
    g = prog.own_method(fc.bank(prog, "ComplexGammatoneFilterBank"), "_calculate_temp_support")
    r = astq.returns_of(g)
    ok = len(r) == 1 and astq.eq_text(r[0].value, "(int(np.floor(offset)),int(np.ceil(right)+offset))")
    ctx.check(ok, R, g, r[0] if r else MISSING(g.node), "gammatone: the support starts at floor(offset)", "gammatone support is %s" % (astq.text(r[0].value) if r else None))
    for mc in (True, False):
        c, f, ev = fc.ctor_eval(prog, "ComplexGammatoneFilterBank", {"max_centered": mc})
        loops = [n for n in f.body_nodes() if isinstance(n, ast.For) and "edges[:-1]" in astq.text(n.iter)]
        offs = [n for n in ast.walk(loops[0]) if isinstance(n, ast.Assign) and astq.is_name(n.targets[0], "offset") and ev.reached(n)]
        ctx.need(len(offs) == 1, R, "offset assignment not found for max_centered=%s" % mc)
        v = astq.text(offs[0].value).replace(" ", "")
        ctx.check(v == ("-(order-1)/alpha" if mc else "0"), R, f, offs[0], "gammatone: offset is %s when max_centered=%s" % ("-(order-1)/alpha (peak at sample 0)" if mc else "0 (causal)", mc),
                  "offset with max_centered=%s is %s" % (mc, v))


def config_live(ctx, R="R-C07-config-live", floor=6):
    prog = ctx.prog
    fm = prog.module("filters")
    n = 0
    for f in [x for x in prog.functions.values() if x.module is fm]:
        for p, d in f.defaults.items():
            for x in ast.walk(d):
                if isinstance(x, (ast.Attribute, ast.Name)):
                    q = prog.qualify(fm, x, f)
                    if q and q.startswith("pydrobert.speech.config."):
                        ctx.bad(R, f, "%s=%s" % (p, astq.text(d)),
                                "the default of parameter `%s` captures %s when the module is imported; a threshold changed afterwards is "
                                "honoured by some support computations and not by this one (temporal and frequency supports then disagree)" % (p, q),
                                "config values are read at call time")
        for x in f.body_nodes():
            if isinstance(x, ast.Attribute) and prog.qualify(fm, x, f) == "pydrobert.speech.config.EFFECTIVE_SUPPORT_THRESHOLD":
                n += 1
            elif isinstance(x, ast.Name) and isinstance(x.ctx, ast.Load) and (prog.qualify(fm, x, f) or "").startswith("pydrobert.speech.config.") \
                    and x.id not in f.all_param_names():
                ctx.bad(R, f, x.id, "`%s` is a name bound by `from ...config import %s` when the module was imported: a threshold changed afterwards "
                        "(config is documented as tunable at run time) is not seen here, so supports are computed from the stale value"
                        % (x.id, x.id), "config values are read through the config module at call time")
    for name, vals in fm.assigns.items():
        for v in vals:
            for x in ast.walk(v):
                if isinstance(x, (ast.Attribute,)) and (prog.qualify(fm, x) or "").startswith("pydrobert.speech.config."):
                    ctx.bad(R, "filters", "%s = %s" % (name, astq.text(v)), "module-level constant %s freezes a config value at import time" % name, module=fm)
    ctx.floor(R, n, floor)
    ctx.ok(R, fm.rel, "%d reads of config.EFFECTIVE_SUPPORT_THRESHOLD, all inside function bodies (call time)" % n)


def purity(ctx, R="R-C07-pure"):
    prog = ctx.prog
    for name in fc.BANKS:
        c = fc.bank(prog, name)
        for meth in ("get_impulse_response", "get_frequency_response"):
            f = prog.own_method(c, meth)
            fresh_and_pure(ctx, R, f, "%s.%s" % (name, meth))


def _gabor_pair(ctx, R="R-C07-gabor-pair"):
    """impulse and frequency responses of a Gabor filter are the Fourier pair C exp(-t^2/2 sigma^2 + i xi t) <->
    C sigma sqrt(2 pi) exp(-sigma^2 (w - xi)^2 / 2) with the same C (unit gain or unit L2 norm)"""
    from .c05 import gabor_norm
    gabor_norm(ctx, R)


def gammatone_frame(ctx, R="R-C07-support-frame"):
    """The gammatone impulse response is the envelope E shifted by the filter's offset, h(t) = E(t - offset).  The end of
    the temporal support is found by a search on a variable x; whichever time frame x lives in (decided by what the
    search condition evaluates: h(x) -> shifted time, h(x + offset) or an offset-free envelope -> unshifted time), the
    advertised end must be the threshold crossing in *shifted* time: x itself in the first case, x + offset in the
    second.  Adding the offset to a root already found in shifted time ends the support |offset| samples early."""
    prog = ctx.prog
    c = fc.bank(prog, "ComplexGammatoneFilterBank")
    h = prog.own_method(c, "_h")
    t = S.sym(h.params[1])
    evh = SymEval(prog, h, inline_props=False).run()
    ctx.need(evh.returns, R, "_h has no return")
    main = [v for g, v, n in evh.returns if "t" in S.symbols(v) or h.params[1] in S.symbols(v)]
    ctx.need(len(main) == 1, R, "_h does not have exactly one non-trivial return")
    off = [x for x in S.walk(main[0]) if cc.is_call(x, "getitem") and x.args[1].op == "sym" and x.args[1].args[0].endswith("._offsets")]
    ctx.need(off, R, "_h does not read the filter's offset")
    OFF, U = S.sym("OFFSET"), S.sym("U")
    hv = S.subst(main[0], {off[0]: OFF})
    shifted = S.subst(hv, {h.params[1]: S.add(U, OFF)})
    r = S.compare(shifted, S.subst(hv, {h.params[1]: U, "OFFSET": S.ZERO}), domain={"U": [Fraction(3), Fraction(7, 2)], "OFFSET": [Fraction(-3), Fraction(-5, 2)]}, expand_logs=True)
    ctx.check(r["verdict"] == "equal", R, h, h.node, "h(t) = E(t - offset): the impulse response is the envelope shifted by the filter's offset",
              "_h is not a pure shift of the envelope by the offset")
    f = prog.own_method(c, "_calculate_temp_support")
    loops = [n for n in f.body_nodes() if isinstance(n, ast.While)]
    ctx.need(len(loops) == 1, R, "threshold search loop not found in _calculate_temp_support")
    w = loops[0]
    tested = [x.id for x in ast.walk(w.test) if isinstance(x, ast.Name)]
    # the value tested is (re)computed in the loop from a call that evaluates the response at the search variable
    defs = [n for n in ast.walk(w) if isinstance(n, ast.Assign) and isinstance(n.targets[0], ast.Name) and n.targets[0].id in tested]
    ctx.need(defs, R, "the tested value is not recomputed in the search loop")
    calls = [x for x in ast.walk(defs[-1].value) if isinstance(x, ast.Call) and isinstance(x.func, ast.Attribute) and astq.is_name(x.func.value, f.params[0])]
    ctx.need(len(calls) == 1 and calls[0].args, R, "the search condition does not evaluate a method of the bank: %s" % astq.text(defs[-1].value))
    call = calls[0]
    arg = call.args[0]
    roots = [x.id for x in ast.walk(arg) if isinstance(x, ast.Name) and x.id not in ("offset",)]
    ctx.need(len(set(roots)) == 1, R, "cannot identify the search variable in %s" % astq.text(call))
    root = roots[0]
    ev = SymEval(prog, f, inline_props=False)
    ev.env = {root: S.sym("X"), "offset": OFF}
    a = ev.expr(arg)
    callee = prog.find_method(c, call.func.attr)
    ctx.need(callee is not None, R, "%s is not a method of the bank" % call.func.attr)
    if callee is h:
        # h evaluated at a = X + k*OFFSET: the envelope sees a - OFFSET
        seen = S.sub(a, OFF)
    else:
        evc = SymEval(prog, callee, inline_props=False).run()
        uses_off = any("_offsets" in s_ for g, v, n in evc.returns for s_ in S.symbols(v))
        ctx.need(not uses_off, R, "cannot determine the time frame of %s" % callee.short)
        seen = a
    # seen = X + k*OFFSET with k in {0, -1}: the envelope argument in terms of the search variable
    k_frame = None
    for k in (0, -1, 1):
        if S.compare(seen, S.add(S.sym("X"), S.mul(S.lift(k), OFF)), domain={})["verdict"] == "equal":
            k_frame = k
    ctx.need(k_frame is not None, R, "the search evaluates the envelope at %s, not at x + k*offset" % S.show(seen))
    # unshifted crossing u* = X + k*OFFSET; shifted crossing = u* + OFFSET = X + (k+1)*OFFSET
    rets = astq.returns_of(f)
    ctx.need(len(rets) == 1 and isinstance(rets[0].value, ast.Tuple) and len(rets[0].value.elts) == 2, R, "_calculate_temp_support does not return a pair")
    hi = ev.expr(rets[0].value.elts[1])

    def strip(e):
        while e.op == "call" and e.args[0] in ("int", "ceil", "floor", "round") and len(e.args) == 2:
            e = e.args[1]
        if e.op == "add":
            return S.add(strip(e.args[0]), strip(e.args[1]))
        return e
    core = strip(hi)
    want = S.add(S.sym("X"), S.mul(S.lift(k_frame + 1), OFF))
    r = S.compare(core, want, domain={"X": [Fraction(40)], "OFFSET": [Fraction(-3), Fraction(-7, 2)]})
    frame = "shifted time (h already includes the offset)" if k_frame == -1 else "unshifted time"
    if r["verdict"] == "equal":
        ctx.ok(R, f.loc(rets[0]), "the search variable lives in %s and the advertised end is the crossing in shifted time" % frame)
    elif r["verdict"] == "differ":
        ctx.bad(R, f, rets[0], "the search stops where the response evaluated at `%s` falls to the threshold, so `%s` is in %s; the advertised end %s is "
                "then x %+d*offset instead of x %+d*offset: with max_centered (offset = -(order-1)/alpha) the support ends (order-1)/alpha samples "
                "before the impulse response has fallen to the threshold, and magnitudes outside `supports` exceed it"
                % (astq.text(arg), root, frame, astq.text(rets[0].value.elts[1]), _coef(core), k_frame + 1), "support end in the response's own time frame")
    else:
        raise AnalysisError("%s: %s" % (R, r.get("reason")))
    lo = ev.expr(rets[0].value.elts[0])
    r = S.compare(strip(lo), OFF, domain={"OFFSET": [Fraction(-3), Fraction(-7, 2)]})
    ctx.check(r["verdict"] == "equal", R, f, rets[0], "the support starts at floor(offset)", "support start is %s" % S.show(lo))


def _coef(core):
    try:
        v1 = S.evaluate(core, {"X": Fraction(0), "OFFSET": Fraction(1)})
        return int(v1)
    except Exception:
        return 99
