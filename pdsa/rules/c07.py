"""C07 - impulse and frequency responses agree within the advertised supports (thin: structural clauses only)."""

import ast
from fractions import Fraction

from .. import astq
from .. import sym as S
from ..dt import DT
from ..report import MISSING
from ..model import AnalysisError
from ..symeval import SymEval
from . import cli_common as cc
from . import filters_common as fc
from .c20 import fresh_and_pure

LEVEL = "other"
TECHNIQUE = ("dtype/flag correlation rule (complex impulse response iff not is_real), sign-domain rule on the temporal supports, "
             "call-time reading of the support threshold, purity of the response methods")
EXPLANATION = (
    "The core of this property is numerical (agreement of an inverse DFT with a closed form to within a tolerance, leakage "
    "outside supports) and is NOT decided. Decided clauses, each a necessary condition: get_impulse_response returns a "
    "complex array exactly under the negation of what is_real returns (triangular: complex128 iff analytic; Fbank: ifft "
    "of the full response iff analytic, irfft of the half response otherwise; Gabor / gammatone: always complex, is_real "
    "constantly False); zero-phase banks advertise temporal supports that straddle sample 0 by construction and the "
    "causal gammatone's start at floor(offset) with offset = 0 unless max_centered; the effective-support threshold is "
    "read from config when a bank is built or queried (never frozen in a default argument or module constant), so both "
    "domains use the same threshold; the response methods keep no memo or instance state keyed on part of their arguments.")


def run(ctx):
    ctx.rule(realness)
    ctx.rule(support_sign)
    ctx.rule(config_live)
    ctx.rule(purity)
    ctx.rule(fc.gabor_supports, "R-C07-gabor-support", ("freq", "time"))
    ctx.rule(fc.gammatone_freq_support, "R-C07-gabor-support")
    ctx.rule(_gabor_pair)
    ctx.rule(gammatone_frame)
    ctx.rule(fc.banks_stateless, "R-C07-pure")
    ctx.rule(gammatone_pair)
    ctx.rule(gammatone_periods)
    ctx.rule(triangular_impulse)


def gammatone_periods(ctx, R="R-C07-gammatone-pair"):
    """The sampled gammatone response is the 2 pi-periodic sum of the closed form, res[k] = sum_p H(w_k + 2 pi p): what each turn of
    the period loop adds to the result is H at the shifted grid, nothing else.  The increment is read by forward substitution at
    the accumulating statement, so an image that was scaled, squared or rewritten through a view of its memory (`v = image.view(
    np.float64); v *= v`) before it is added shows up as a different value."""
    prog = ctx.prog
    c = fc.bank(prog, "ComplexGammatoneFilterBank")
    f = prog.own_method(c, "get_frequency_response")
    ev = SymEval(prog, f).run()
    rets = [r for r in astq.returns_of(f) if isinstance(r.value, ast.Name)]
    ctx.need(len(rets) >= 1, R, "get_frequency_response does not return a named buffer")
    res = rets[0].value.id
    pm = astq.parents(f)
    accs = [n for n in f.body_nodes() if isinstance(n, ast.AugAssign) and astq.is_name(n.target, res) and any(isinstance(a, ast.For) for a in astq.ancestors(pm, n))]
    ctx.need(len(accs) >= 1, R, "no accumulation into the returned buffer inside the period loop")
    what = "each period adds H(omega + 2 pi p) for the filter asked for, unaltered"
    for a in accs:
        lp = [x for x in astq.ancestors(pm, a) if isinstance(x, ast.For)][0]
        pv = lp.target.id if isinstance(lp.target, ast.Name) else None
        v = ev.eval_at(a, a.value)
        om = ev.eval_at(a, ast.parse("omega", mode="eval").body) if any(isinstance(x, ast.Name) and x.id == "omega" for x in f.body_nodes()) else None
        hs = [x for x in S.walk(v) if isinstance(x, S.E) and x.op == "call" and x.args[0] == "._H"]
        if not isinstance(a.op, ast.Add):
            ctx.bad(R, f, a, "the period loop accumulates %s with `%s=`" % (S.show(v)[:100], type(a.op).__name__), what)
            continue
        if not hs:
            ctx.error(R, "cannot decide what the period loop adds: the closed form is not evaluated through self._H (%s)" % S.show(v)[:120])
            continue
        h = hs[0]
        ok = v == h and len(h.args) == 4 and h.args[3] == S.sym(f.params[1])
        if ok and pv is not None:
            # the grid is shifted by whole periods: H's argument minus 2 pi p does not mention p
            rest = S.sub(h.args[2], S.mul(S.mul(S.lift(2), S.PI), S.sym(pv)))
            r = S.compare(S.subst(rest, {pv: S.lift(3)}), S.subst(rest, {pv: S.lift(-2)}), domain={})
            ok = r["verdict"] == "equal"
        ctx.check(ok, R, f, a, what, "what is added per period is %s" % S.show(v)[:220], robust=(v != h and any(
            isinstance(x, S.E) and x.op == "call" and x.args[0] == "updated_through" for x in S.walk(v))))


def realness(ctx, R="R-C07-realness"):
    prog = ctx.prog
    for name in fc.BANKS:
        c = fc.bank(prog, name)
        ir = prog.own_method(c, "is_real")
        r = astq.returns_of(ir)
        ctx.need(len(r) == 1, R, "%s.is_real has several returns" % name)
        real_expr = astq.text(r[0].value).replace(" ", "")
        f = prog.own_method(c, "get_impulse_response")
        if name == "TriangularOverlappingFilterBank":
            allocs = [n for n in f.body_nodes() if isinstance(n, ast.Assign) and astq.is_name(n.targets[0], "res") and isinstance(n.value, ast.Call)]
            ok = len(allocs) == 1 and astq.eq_text(astq.kw(allocs[0].value, "dtype"), "np.complex128ifself._analyticelsenp.float64") and real_expr == "notself._analytic"
            ctx.check(ok, R, f, allocs[0] if allocs else MISSING(f.node), "triangular: the impulse response is complex128 iff analytic, and is_real is `not analytic`",
                      "triangular impulse response dtype is %s while is_real returns %s" % (astq.text(astq.kw(allocs[0].value, "dtype")) if allocs else None, real_expr))
            rr = astq.returns_of(f)
            ctx.check(all(astq.is_name(x.value, "res") for x in rr), R, f, f.node, "triangular: that buffer is what is returned")
        elif name == "Fbank":
            ev = {}
            for an in (True, False):
                e = SymEval(prog, f, seed={"self._analytic": an}, inline_props=True).run()
                ctx.need(len(e.returns) == 1, R, "Fbank.get_impulse_response has several returns for analytic=%s" % an)
                ev[an] = e.returns[0][1]
            s_t, s_f = S.show(ev[True]), S.show(ev[False])
            ok = s_t.startswith("np.fft.ifft(") and "kw:half(False)" in s_t and s_f.startswith("np.fft.irfft(") and "kw:half(True)" in s_f and "kw:n(width)" in s_f
            ctx.check(ok and real_expr == "notself._analytic", R, f, f.node,
                      "Fbank: analytic banks invert the full response with ifft (complex), real banks the half response with irfft(n=width) (real)",
                      "Fbank impulse response is %s (analytic) / %s (real); is_real returns %s" % (s_t[:80], s_f[:80], real_expr))
        else:
            allocs = [n for n in f.body_nodes() if isinstance(n, ast.Assign) and astq.is_name(n.targets[0], "res") and isinstance(n.value, ast.Call)
                      and (prog.qualify(f.module, n.value.func, f) or "") in ("numpy.zeros", "numpy.empty", "numpy.ones", "numpy.full", "numpy.zeros_like", "numpy.empty_like")]
            ok = len(allocs) >= 1 and all(astq.text(astq.kw(a_.value, "dtype")) in ("np.complex128", "numpy.complex128", "complex") for a_ in allocs) and real_expr == "False"
            ctx.check(ok, R, f, allocs[0] if allocs else MISSING(f.node), "%s: the impulse response is always complex128 and is_real is constantly False" % name,
                      "%s impulse response dtype %s vs is_real %s" % (name, astq.text(astq.kw(allocs[0].value, "dtype")) if allocs else None, real_expr))
        zp = prog.own_method(c, "is_zero_phase")
        want = "False" if name == "ComplexGammatoneFilterBank" else "True"
        ctx.check(astq.text(astq.returns_of(zp)[0].value) == want, R, zp, zp.node, "%s.is_zero_phase is %s" % (name, want), structural=True)


def support_sign(ctx, R="R-C07-support-sign"):
    prog = ctx.prog
    for name in fc.VERTEX_BANKS:
        f = prog.own_method(fc.bank(prog, name), "supports")
        apps = [x for x in astq.func_calls(f) if astq.attr_call(x, "append")]
        ok = len(apps) == 1 and astq.eq_text(apps[0].args[0], "(-K//2-1,K//2+1)")
        if not ok and len(apps) == 1 and isinstance(apps[0].args[0], ast.Tuple) and len(apps[0].args[0].elts) == 2:
            # by evaluation over K = 0..200 (integer identities such as -K // 2 == -(K - K // 2) are spelt in many ways)
            try:
                from .. import scenario as SC
                ev_ = SymEval(prog, f)
                ev_.env = {}
                lo_e, hi_e = (ev_.expr(x_) for x_ in apps[0].args[0].elts)
                ok = all(SC.int_eval(lo_e, {"K": k_}) == -k_ // 2 - 1 and SC.int_eval(hi_e, {"K": k_}) == k_ // 2 + 1 for k_ in range(0, 201))
            except Exception:
                ok = False
        ks = [n for n in f.body_nodes() if isinstance(n, ast.Assign) and astq.is_name(n.targets[0], "K") and astq.eq_text(n.value, "int(np.ceil(K))")]
        ctx.check(ok and len(ks) == 1, R, f, apps[0] if apps else MISSING(f.node),
                  "%s: supports are (-K//2 - 1, K//2 + 1) with K = int(ceil(.)) >= 0, i.e. strictly negative / strictly positive ends" % name,
                  "%s supports entry is %s" % (name, astq.text(apps[0].args[0]) if apps else None))
    c, f, ev = fc.ctor_eval(prog, "GaborFilterBank")
    apps = [x for x in astq.func_calls(f) if astq.attr_call(x, "append") and astq.is_name(x.func.value, "supports")]
    ok = len(apps) == 1 and astq.eq_text(apps[0].args[0], "(-diff_samps,diff_samps)")
    ds = [n for n in f.body_nodes() if isinstance(n, ast.Assign) and astq.is_name(n.targets[0], "diff_samps")]
    ok = ok and len(ds) == 2 and all(astq.text(n.value).replace(" ", "").startswith("int(np.ceil(") for n in ds)
    ctx.check(ok, R, f, apps[0] if apps else MISSING(f.node), "Gabor: supports are (-d, d) with d = int(ceil(.))", "Gabor supports entry is %s" % (astq.text(apps[0].args[0]) if apps else None))
    g = prog.own_method(fc.bank(prog, "ComplexGammatoneFilterBank"), "_calculate_temp_support")
    r = astq.returns_of(g)
    ok = len(r) == 1 and astq.eq_text(r[0].value, "(int(np.floor(offset)),int(np.ceil(right)+offset))")
    ctx.check(ok, R, g, r[0] if r else MISSING(g.node), "gammatone: the support starts at floor(offset)", "gammatone support is %s" % (astq.text(r[0].value) if r else None))
    for mc in (True, False):
        c, f, ev = fc.ctor_eval(prog, "ComplexGammatoneFilterBank", {"max_centered": mc})
        loops = [n for n in f.body_nodes() if isinstance(n, ast.For) and "edges[:-1]" in astq.text(n.iter)]
        offs = [n for n in ast.walk(loops[0]) if isinstance(n, ast.Assign) and astq.is_name(n.targets[0], "offset") and ev.reached(n)]
        ctx.need(len(offs) == 1, R, "offset assignment not found for max_centered=%s" % mc)
        v = astq.text(offs[0].value).replace(" ", "")
        ctx.check(v == ("-(order-1)/alpha" if mc else "0"), R, f, offs[0], "gammatone: offset is %s when max_centered=%s" % ("-(order-1)/alpha (peak at sample 0)" if mc else "0 (causal)", mc),
                  "offset with max_centered=%s is %s" % (mc, v))


def config_live(ctx, R="R-C07-config-live", floor=6, module="filters", attr="EFFECTIVE_SUPPORT_THRESHOLD"):
    prog = ctx.prog
    fm = prog.module(module)
    n = 0
    for f in [x for x in prog.functions.values() if x.module is fm]:
        for p, d in f.defaults.items():
            for x in ast.walk(d):
                if isinstance(x, (ast.Attribute, ast.Name)):
                    q = prog.qualify(fm, x, f)
                    if q and q.startswith("pydrobert.speech.config."):
                        ctx.bad(R, f, "%s=%s" % (p, astq.text(d)),
                                "the default of parameter `%s` captures %s when the module is imported; a threshold changed afterwards is "
                                "honoured by some support computations and not by this one (temporal and frequency supports then disagree)" % (p, q),
                                "config values are read at call time")
        for x in f.body_nodes():
            if isinstance(x, ast.Attribute) and prog.qualify(fm, x, f) == "pydrobert.speech.config." + attr:
                n += 1
            elif isinstance(x, ast.Name) and isinstance(x.ctx, ast.Load) and (prog.qualify(fm, x, f) or "").startswith("pydrobert.speech.config.") \
                    and x.id not in f.all_param_names():
                ctx.bad(R, f, x.id, "`%s` is a name bound by `from ...config import %s` when the module was imported: a threshold changed afterwards "
                        "(config is documented as tunable at run time) is not seen here, so supports are computed from the stale value"
                        % (x.id, x.id), "config values are read through the config module at call time")
    for name, vals in fm.assigns.items():
        for v in vals:
            for x in ast.walk(v):
                if isinstance(x, (ast.Attribute,)) and (prog.qualify(fm, x) or "").startswith("pydrobert.speech.config."):
                    ctx.bad(R, module, "%s = %s" % (name, astq.text(v)), "module-level constant %s freezes a config value at import time" % name, module=fm)
    ctx.floor(R, n, floor)
    ctx.ok(R, fm.rel, "%d reads of config.%s, all inside function bodies (call time)" % (n, attr))


def purity(ctx, R="R-C07-pure"):
    prog = ctx.prog
    for name in fc.BANKS:
        c = fc.bank(prog, name)
        for meth in ("get_impulse_response", "get_frequency_response"):
            f = prog.own_method(c, meth)
            fresh_and_pure(ctx, R, f, "%s.%s" % (name, meth))


def _gabor_pair(ctx, R="R-C07-gabor-pair"):
    """impulse and frequency responses of a Gabor filter are the Fourier pair C exp(-t^2/2 sigma^2 + i xi t) <->
    C sigma sqrt(2 pi) exp(-sigma^2 (w - xi)^2 / 2) with the same C (unit gain or unit L2 norm)"""
    from .c05 import gabor_norm
    gabor_norm(ctx, R)


def gammatone_frame(ctx, R="R-C07-support-frame"):
    """The gammatone impulse response is the envelope E shifted by the filter's offset, h(t) = E(t - offset).  The end of
    the temporal support is found by a search on a variable x; whichever time frame x lives in (decided by what the
    search condition evaluates: h(x) -> shifted time, h(x + offset) or an offset-free envelope -> unshifted time), the
    advertised end must be the threshold crossing in *shifted* time: x itself in the first case, x + offset in the
    second.  Adding the offset to a root already found in shifted time ends the support |offset| samples early."""
    prog = ctx.prog
    c = fc.bank(prog, "ComplexGammatoneFilterBank")
    h = prog.own_method(c, "_h")
    t = S.sym(h.params[1])
    evh = SymEval(prog, h, inline_props=False).run()
    ctx.need(evh.returns, R, "_h has no return")
    main = [v for g, v, n in evh.returns if "t" in S.symbols(v) or h.params[1] in S.symbols(v)]
    ctx.need(len(main) == 1, R, "_h does not have exactly one non-trivial return")
    off = [x for x in S.walk(main[0]) if cc.is_call(x, "getitem") and x.args[1].op == "sym" and x.args[1].args[0].endswith("._offsets")]
    ctx.need(off, R, "_h does not read the filter's offset")
    OFF, U = S.sym("OFFSET"), S.sym("U")
    hv = S.subst(main[0], {off[0]: OFF})
    shifted = S.subst(hv, {h.params[1]: S.add(U, OFF)})
    r = S.compare(shifted, S.subst(hv, {h.params[1]: U, "OFFSET": S.ZERO}), domain={"U": [Fraction(3), Fraction(7, 2)], "OFFSET": [Fraction(-3), Fraction(-5, 2)]}, expand_logs=True)
    ctx.check(r["verdict"] == "equal", R, h, h.node, "h(t) = E(t - offset): the impulse response is the envelope shifted by the filter's offset",
              "_h is not a pure shift of the envelope by the offset")
    f = prog.own_method(c, "_calculate_temp_support")
    loops = [n for n in f.body_nodes() if isinstance(n, ast.While)]
    ctx.need(len(loops) == 1, R, "threshold search loop not found in _calculate_temp_support")
    w = loops[0]
    tested = [x.id for x in ast.walk(w.test) if isinstance(x, ast.Name)]
    # the value tested is (re)computed in the loop from a call that evaluates the response at the search variable
    defs = [n for n in ast.walk(w) if isinstance(n, ast.Assign) and isinstance(n.targets[0], ast.Name) and n.targets[0].id in tested]
    ctx.need(defs, R, "the tested value is not recomputed in the search loop")
    calls = [x for x in ast.walk(defs[-1].value) if isinstance(x, ast.Call) and isinstance(x.func, ast.Attribute) and astq.is_name(x.func.value, f.params[0])]
    ctx.need(len(calls) == 1 and calls[0].args, R, "the search condition does not evaluate a method of the bank: %s" % astq.text(defs[-1].value))
    call = calls[0]
    arg = call.args[0]
    roots = [x.id for x in ast.walk(arg) if isinstance(x, ast.Name) and x.id not in ("offset",)]
    ctx.need(len(set(roots)) == 1, R, "cannot identify the search variable in %s" % astq.text(call))
    root = roots[0]
    ev = SymEval(prog, f, inline_props=False)
    ev.env = {root: S.sym("X"), "offset": OFF}
    a = ev.expr(arg)
    callee = prog.find_method(c, call.func.attr)
    ctx.need(callee is not None, R, "%s is not a method of the bank" % call.func.attr)
    if callee is h:
        # h evaluated at a = X + k*OFFSET: the envelope sees a - OFFSET
        seen = S.sub(a, OFF)
    else:
        evc = SymEval(prog, callee, inline_props=False).run()
        uses_off = any("_offsets" in s_ for g, v, n in evc.returns for s_ in S.symbols(v))
        ctx.need(not uses_off, R, "cannot determine the time frame of %s" % callee.short)
        seen = a
    # seen = X + k*OFFSET with k in {0, -1}: the envelope argument in terms of the search variable
    k_frame = None
    for k in (0, -1, 1):
        if S.compare(seen, S.add(S.sym("X"), S.mul(S.lift(k), OFF)), domain={})["verdict"] == "equal":
            k_frame = k
    ctx.need(k_frame is not None, R, "the search evaluates the envelope at %s, not at x + k*offset" % S.show(seen))
    # unshifted crossing u* = X + k*OFFSET; shifted crossing = u* + OFFSET = X + (k+1)*OFFSET
    rets = astq.returns_of(f)
    ctx.need(len(rets) == 1 and isinstance(rets[0].value, ast.Tuple) and len(rets[0].value.elts) == 2, R, "_calculate_temp_support does not return a pair")
    hi = ev.expr(rets[0].value.elts[1])

    def strip(e):
        while e.op == "call" and e.args[0] in ("int", "ceil", "floor", "round") and len(e.args) == 2:
            e = e.args[1]
        if e.op == "add":
            return S.add(strip(e.args[0]), strip(e.args[1]))
        return e
    core = strip(hi)
    want = S.add(S.sym("X"), S.mul(S.lift(k_frame + 1), OFF))
    r = S.compare(core, want, domain={"X": [Fraction(40)], "OFFSET": [Fraction(-3), Fraction(-7, 2)]})
    frame = "shifted time (h already includes the offset)" if k_frame == -1 else "unshifted time"
    if r["verdict"] == "equal":
        ctx.ok(R, f.loc(rets[0]), "the search variable lives in %s and the advertised end is the crossing in shifted time" % frame)
    elif r["verdict"] == "differ":
        ctx.bad(R, f, rets[0], "the search stops where the response evaluated at `%s` falls to the threshold, so `%s` is in %s; the advertised end %s is "
                "then x %+d*offset instead of x %+d*offset: with max_centered (offset = -(order-1)/alpha) the support ends (order-1)/alpha samples "
                "before the impulse response has fallen to the threshold, and magnitudes outside `supports` exceed it"
                % (astq.text(arg), root, frame, astq.text(rets[0].value.elts[1]), _coef(core), k_frame + 1), "support end in the response's own time frame")
    else:
        raise AnalysisError("%s: %s" % (R, r.get("reason")))
    lo = ev.expr(rets[0].value.elts[0])
    r = S.compare(strip(lo), OFF, domain={"OFFSET": [Fraction(-3), Fraction(-7, 2)]})
    ctx.check(r["verdict"] == "equal", R, f, rets[0], "the support starts at floor(offset)", "support start is %s" % S.show(lo))


def _coef(core):
    try:
        v1 = S.evaluate(core, {"X": Fraction(0), "OFFSET": Fraction(1)})
        return int(v1)
    except Exception:
        return 99


def _sub_attrs(e, fi_name, mapping):
    """getitem(self._xs, idx) -> symbol, for the per-filter attribute tuples"""
    m = {}
    for x in S.walk(e):
        if cc.is_call(x, "getitem") and x.args[1].op == "sym" and x.args[1].args[0] in mapping:
            m[x] = S.sym(mapping[x.args[1].args[0]])
    return S.subst(e, m) if m else e


def gammatone_pair(ctx, R="R-C07-gammatone-pair"):
    """h(t) = c u^(n-1) exp((-alpha + i xi) u), u = t - offset > 0, and H(w) = exp(-i w offset) c (n-1)! / (alpha + i (w - xi))^n
    are a Fourier pair (Laplace transform of the gamma envelope, shift theorem): both closed forms are compared with that
    pair - identical normal forms, else floating-point agreement on a declared grid."""
    prog = ctx.prog
    c = fc.bank(prog, "ComplexGammatoneFilterBank")
    amap = {"self._cs": "C", "self._alphas": "ALPHA", "self._xis": "XI", "self._offsets": "OFF"}
    J = S.const("1j")
    C, AL, XI, OFF, N_, U, W = (S.sym(x) for x in ("C", "ALPHA", "XI", "OFF", "N", "U", "W"))
    dom = {"C": [Fraction(3, 10)], "ALPHA": [Fraction(1, 5), Fraction(2)], "XI": [Fraction(7, 10)], "OFF": [Fraction(0), Fraction(-5, 2)],
           "N": [Fraction(1), Fraction(3), Fraction(4)], "U": [Fraction(3, 2), Fraction(4)], "W": [Fraction(3, 10), Fraction(-1, 2), Fraction(11, 10)]}
    h = prog.own_method(c, "_h")
    evh = SymEval(prog, h, rename={"self._order": "N"}, inline_props=False).run()
    main = [v for g, v, n in evh.returns if h.params[1] in S.symbols(v)]
    ctx.need(len(main) == 1, R, "_h does not have exactly one non-trivial return")
    hv = _sub_attrs(main[0], h.params[2], amap)
    hv = S.subst(hv, {h.params[1]: S.add(U, OFF)})
    want_h = S.mul(S.mul(C, S.power(U, S.sub(N_, S.ONE))), S.call("exp", S.mul(S.add(S.neg(AL), S.mul(J, XI)), U)))
    r = S.compare_c(hv, want_h, {k: v for k, v in dom.items() if k != "W"})
    if r["verdict"] == "differ":
        ctx.bad(R, h, h.node, "_h is not c u^(n-1) exp((-alpha + i xi) u) at u = t - offset: at %s it gives %s, the gamma envelope %s" % (r["witness"], r["values"][0], r["values"][1]),
                "impulse response is the shifted complex gamma envelope")
    elif r["verdict"] in ("equal", "equal-on-grid"):
        ctx.ok(R, h.loc(), "h(t) = c u^(n-1) exp((-alpha + i xi) u), u = t - offset (%s)" % ("normal form" if r["verdict"] == "equal" else "floating-point agreement at %d grid points" % r["points"]))
    else:
        raise AnalysisError("%s: _h: %s" % (R, r.get("reason")))
    zero = [v for g, v, n in evh.returns if h.params[1] not in S.symbols(v)]
    ctx.check(all(S.show(v) in ("0j", "0", "'0j'") or (v.is_const and str(v.value) in ("0j", "0")) for v in zero) and len(zero) == 1, R, h, h.node,
              "h is 0 up to and including the onset t = offset", "early return of _h is %s" % [S.show(v) for v in zero])
    H = prog.own_method(c, "_H")
    evH = SymEval(prog, H, rename={"self._order": "N"}, inline_props=False).run()
    ctx.need(len(evH.returns) == 1, R, "_H has several returns")
    Hv = S.subst(_sub_attrs(evH.returns[0][1], H.params[2], amap), {H.params[1]: W})
    want_H = S.truediv(S.mul(S.mul(S.call("exp", S.neg(S.mul(S.mul(J, W), OFF))), C), S.call("factorial", S.sub(N_, S.ONE))),
                       S.power(S.add(AL, S.mul(J, S.sub(W, XI))), N_))
    r = S.compare_c(Hv, want_H, {k: v for k, v in dom.items() if k != "U"})
    if r["verdict"] == "differ":
        ctx.bad(R, H, H.node, "_H is not exp(-i w offset) c (n-1)! / (alpha + i (w - xi))^n, the transform of _h: at %s it gives %s, expected %s"
                % (r["witness"], r["values"][0], r["values"][1]), "frequency response is the transform of the impulse response")
    elif r["verdict"] in ("equal", "equal-on-grid"):
        ctx.ok(R, H.loc(), "H(w) = exp(-i w offset) c (n-1)! / (alpha + i (w - xi))^n (%s)" % ("normal form" if r["verdict"] == "equal" else "floating-point agreement at %d grid points" % r["points"]))
    else:
        raise AnalysisError("%s: _H: %s" % (R, r.get("reason")))


def triangular_impulse(ctx, R="R-C07-triangle-pair"):
    """The triangular bank's impulse response is the inverse transform of its triangle in closed form:
    h(t) = [ (r-l)/((m-l)(r-m)) E(m t) - E(l t)/(m-l) - E(r t)/(r-m) ] / (k pi t^2), E = exp(i .), k = 2 (analytic) or cos, k = 1 (real),
    h(0) = (r - l) / (2 k pi); l, m, r the filter's vertices in rad/sample.  Both orderings of the two edge widths are compared."""
    prog = ctx.prog
    c = fc.bank(prog, "TriangularOverlappingFilterBank")
    f = prog.own_method(c, "get_impulse_response")
    fi = S.sym(f.params[1])
    l_, m_, r_, T = S.sym("l"), S.sym("m"), S.sym("r"), S.sym("BIN")
    J = S.const("1j")
    n = 0
    for analytic in (True, False):
        stores = fc.bin_stores(prog, f, {"self._analytic": analytic})
        prim = [x for x in stores if S.compare(x["index"], T, domain={})["verdict"] == "equal"]
        if not prim:
            prim = fc.vector_stores(prog, f, {"self._analytic": analytic})[:1]
        ctx.need(prim, R, "store of sample t at index t not found in the triangular impulse response")
        ev = prim[0]["ev"]
        # vertices in rad/sample
        vmap = {}
        for k_, sym_ in ((0, l_), (1, m_), (2, r_)):
            vmap[S.call("util.hertz_to_angular", S.call("getitem", S.sym("self._vertices"), fi if k_ == 0 else S.add(fi, S.lift(k_))), S.sym("self._rate"))] = sym_
        # the overall division applied after the loop
        divs = [n_ for n_ in f.body_nodes() if isinstance(n_, ast.AugAssign) and isinstance(n_.op, ast.Div) and isinstance(n_.target, ast.Name) and n_.target.id == prim[0]["array"]]
        ctx.need(len(divs) == 1 and ev.reached(divs[0]), R, "final normalisation `res /= ...` not found")
        den = S.subst(ev.eval_at(divs[0], divs[0].value), vmap)
        val = S.subst(fc.piecewise(prim), vmap)
        got = S.truediv(val, den)
        kappa = S.lift(2 if analytic else 1)

        def osc(a):
            return S.call("exp", S.mul(S.mul(J, a), T)) if analytic else S.call("cos", S.mul(a, T))
        want = S.truediv(S.sub(S.sub(S.mul(S.truediv(S.sub(r_, l_), S.mul(S.sub(m_, l_), S.sub(r_, m_))), osc(m_)), S.truediv(osc(l_), S.sub(m_, l_))),
                               S.truediv(osc(r_), S.sub(r_, m_))), S.mul(S.mul(kappa, S.PI), S.power(T, S.lift(2))))
        # both orderings of the edge widths, and a symmetric triangle
        dom = {"BIN": [Fraction(1), Fraction(3)], "l": [Fraction(1, 5)], "m": [Fraction(1, 2), Fraction(9, 10), Fraction(7, 10)], "r": [Fraction(6, 5)]}
        res = S.compare_c(got, want, dom)
        n += 1
        mode = "analytic" if analytic else "real"
        if res["verdict"] == "differ":
            w = res["witness"]
            ctx.bad(R, f, prim[0]["stmt"], "the %s impulse response at sample t is not the inverse transform of the triangle: at %s (lower edge width m-l, upper "
                    "edge width r-m) it is %s, the closed form gives %s; impulse and frequency responses of such a filter no longer agree"
                    % (mode, w, res["values"][0], res["values"][1]), "impulse response is the inverse transform of the triangle", robust=True)
        elif res["verdict"] in ("equal", "equal-on-grid"):
            ctx.ok(R, f.loc(prim[0]["stmt"]), "%s: h(t) matches the inverse transform of the triangle for both edge orderings (%s)"
                   % (mode, "normal form" if res["verdict"] == "equal" else "floating-point agreement at %d grid points" % res["points"]))
        else:
            raise AnalysisError("%s: %s" % (R, res.get("reason")))
        # h(0): the area term added outside the loop
        zero = [n_ for n_ in f.node.body if isinstance(n_, ast.AugAssign) and isinstance(n_.op, ast.Add) and isinstance(n_.target, ast.Subscript)
                and astq.text(n_.target.slice) == "0" and astq.base_name(n_.target) == prim[0]["array"]]
        ctx.need(len(zero) == 1 and ev.reached(zero[0]), R, "the t = 0 term of the triangular impulse response not found")
        got0 = S.truediv(S.subst(ev.eval_at(zero[0], zero[0].value), vmap), den)
        want0 = S.truediv(S.sub(r_, l_), S.mul(S.mul(S.lift(2), kappa), S.PI))
        res = S.compare_c(got0, want0, {k: v for k, v in dom.items() if k != "BIN"})
        ctx.check(res["verdict"] in ("equal", "equal-on-grid"), R, f, zero[0], "%s: h(0) is the area under the triangle over %s pi: (r - l) / (2 k pi)" % (mode, "2" if analytic else "1"),
                  "%s: the t = 0 term is %s, expected (r - l)/(2 k pi)%s" % (mode, S.show(got0)[:100], (" e.g. at %s: %s vs %s" % (res.get("witness"), res["values"][0], res["values"][1])) if res["verdict"] == "differ" else ""))
    ctx.floor(R, n, 2)
