"""C14 - PyTorch modules compute what their NumPy counterparts compute."""

import ast

from .. import astq, spec
from .. import sym as S
from ..report import MISSING
from ..model import AnalysisError, ClassInfo
from ..symeval import SymEval
from . import cli_common as cc
from . import stft_common as sc
from . import rng

LEVEL = "other"
TECHNIQUE = ("closed-form twin comparison (quasi-affine residue tables, witnesses) of the torch port's framing geometry "
             "and mirrored-bin arithmetic with the documented geometry; 4-hop parameter name-flow check; structural "
             "rules on the reductions, log floor and wrappers")
EXPLANATION = (
    "Decides on torch.py (against spec.GEOM, which compute.py is checked against under C02): emptiness threshold, "
    "column count on every return, left/right symmetric padding, frame count, frame length and strides for the three "
    "framing configurations; capacity, first bin, length and direction of the mirrored (negative-frequency) segment and "
    "of the direct segment; each constructor parameter of the NumPy computer reaches the functional port's parameter of "
    "the same meaning through from_stft_frame_computer -> __init__ -> attribute -> forward (no crossed wires); power / "
    "magnitude reduction, real doubling, log floor eps = config.LOG_FLOOR_VALUE, energy; wrappers delegate to "
    "compute_full / apply and re-wrap with the input's device and dtype; pre-emphasis stencil. Does NOT decide numerical "
    "agreement to working precision, TorchScript semantics, or the dither's distribution.")

# NumPy computer attribute -> meaning (constructor parameter of the torch module)
NP_ATTR_MEANING = {
    "frame_length": "frame_length", "frame_shift": "frame_shift", "_frame_length": "frame_length", "_frame_shift": "frame_shift", "_frame_style": "frame_style", "_window": "window",
    "_dft_size": "dft_size", "_log": "use_log", "_power": "use_power", "_include_energy": "include_energy",
    "_kaldi_shift": "kaldi_shift", "_real": "is_real",
}
# torch module constructor parameter -> functional parameter
CTOR_TO_FUNC = {"frame_style": "centered"}


def run(ctx):
    ctx.rule(geom_twin)
    ctx.rule(mirror_twin)
    ctx.rule(torch_walk_by_evaluation)
    ctx.rule(port_reads_plain_fields)
    ctx.rule(nameflow)
    ctx.rule(reductions)
    ctx.rule(wrappers)
    ctx.rule(no_ambient_settings)


def torch_walk_by_evaluation(ctx, R="R-C14-mirror-twin"):
    """The segment walk of pytorch_stft_frame_computer, decided like its NumPy twin (C02, pdsa/walk.py): the per-filter loop is
    evaluated by the checker's interpreter for every DFT size 2..10, start bin and run length, with and without the power option,
    and the (bin, conjugated?, tap) triples that get multiplied are compared with the definition - tap j meets bin (s + j) mod D,
    read from the half spectrum and conjugated above D/2.  Silent when the loop is outside the interpreter's vocabulary (the
    closed-form clauses of the twin rules then stand alone)."""
    from .. import walk as W
    prog = ctx.prog
    f = prog.func("torch.pytorch_stft_frame_computer")
    loops = [n for n in f.body_nodes() if isinstance(n, ast.For) and isinstance(n.iter, ast.Call) and astq.is_name(n.iter.func, "zip")
             and any(isinstance(x, ast.While) for x in ast.walk(n))]
    if len(loops) != 1:
        return
    lp = loops[0]
    zargs = [a.id for a in lp.iter.args if isinstance(a, ast.Name)]
    if len(zargs) != 2:
        return
    outs = [c for c in ast.walk(lp) if astq.attr_call(c, "append") and isinstance(c.func.value, ast.Name)]
    spects = sorted({t.id for n in f.body_nodes() if isinstance(n, ast.Assign) and any(astq.attr_call(x, "rfft") for x in ast.walk(n.value))
                     for t in n.targets if isinstance(t, ast.Name)})
    if len(outs) < 1 or len({o.func.value.id for o in outs}) != 1 or len(spects) != 1:
        return
    yname = outs[0].func.value.id
    what = "the torch walk multiplies tap j of a filter with bin (s + j) mod D, read from the half spectrum (conjugated above D/2)"
    # names bound from the DFT size before the loop (half_len = spect.size(1), mod = dft_size_ % 2 ...): evaluated where possible
    pre = [st for st in f.node.body if st.lineno < lp.lineno and isinstance(st, ast.Assign) and len(st.targets) == 1 and isinstance(st.targets[0], ast.Name)]
    n = 0
    try:
        for D in range(2, 11):
            half_len = D // 2 + 1
            for s_ in range(D):
                for T in range(0, D + 1):
                    for power in (False, True):
                        n += 1
                        H = W.Arr([("H", j, False) for j in range(T)])
                        X = W.Arr([("X", k, False) for k in range(half_len)])
                        env = {zargs[0]: [s_], zargs[1]: [H], spects[0]: X, yname: [], "zero": 0, "use_power": power, "is_real": False, "use_log": False,
                               "dft_size_": D, "dft_size": D, "half_len": half_len, "mod": D % 2, "include_energy": False}
                        it = W.Interp(env, hooks={"size": lambda interp, call: half_len})
                        for st in pre:
                            if st.targets[0].id in (spects[0], yname, zargs[0], zargs[1]):
                                continue
                            try:
                                it.run([st])
                            except (W.Unsupported, W.ShapeError):
                                continue
                        it.env[spects[0]] = X
                        try:
                            it.run([lp])
                        except W.ShapeError as e:
                            ctx.bad(R, f, lp, "for a DFT of %d bins and a filter that starts at bin %d with %d value(s), evaluating the torch walk fails: %s"
                                    % (D, s_, T, e), what, robust=True)
                            return
                        res = it.env.get(yname)
                        if isinstance(res, list) and len(res) != 1:
                            ctx.bad(R, f, lp, "for a DFT of %d bins and a filter that starts at bin %d with %d value(s) the loop appends %d coefficients for one "
                                    "filter" % (D, s_, T, len(res)), "one coefficient per (offset, filter) pair, in bank order", robust=True)
                            return
                        if not isinstance(res, list):
                            raise W.Unsupported("result list")
                        v = res[0]
                        if isinstance(v, int) and v == 0:
                            got = []
                        elif isinstance(v, W.Terms):
                            got = list(v.pairs)
                        else:
                            raise W.Unsupported("coefficient is %s" % type(v).__name__)

                        def norm(x):
                            (n1, i1, c1), (n2, i2, c2) = x
                            if n1 == "H":
                                (n1, i1, c1), (n2, i2, c2) = (n2, i2, c2), (n1, i1, c1)
                            if n1 != "X" or n2 != "H":
                                raise W.Unsupported("product of %s and %s" % (n1, n2))
                            if i1 == 0 or (D % 2 == 0 and i1 == D // 2):
                                c1 = False
                            return (i1, c1 != c2, i2)
                        got = sorted(norm(x) for x in got)
                        want = []
                        for j in range(T):
                            k = (s_ + j) % D
                            want.append((k, False, j) if k <= D // 2 else (D - k, True, j))
                        want = sorted((i, (False if (i == 0 or (D % 2 == 0 and i == D // 2)) else cj), j) for i, cj, j in want)
                        if got != want:
                            def show(tr):
                                return ", ".join("%sX[%d]*H[%d]" % ("conj " if cj else "", i, j) for i, cj, j in tr[:8]) + (" ..." if len(tr) > 8 else "") or "nothing"
                            ctx.bad(R, f, lp, "for a DFT of %d bins and a filter that starts at bin %d with %d value(s) the torch walk multiplies %s ; the sum over "
                                    "all bins needs %s" % (D, s_, T, show(got), show(want)), what, robust=True)
                            return
    except W.Unsupported:
        return
    ctx.ok(R, f.loc(lp), what, "%d combinations of DFT size (2..10), start bin, run length and power option evaluated" % n)
    ctx._torch_walk_decided = True


def port_filters_by_evaluation(ctx, R="R-C14-nameflow"):
    """What from_stft_frame_computer hands to the torch module as (offset, filter) pairs, evaluated together with what the NumPy
    constructor stored: for every DFT size 2..8, start bin s and run length T the pair list must be [(s, H)] - the bank's own
    start bin and the whole response, in that order.  However the two classes agree to keep these values between them (two
    parallel lists, one list of pairs, ...) is their business; a convention change made on one side only is not.  Evaluated by the
    checker's interpreter (pdsa/walk.py); returns False when the code is outside its vocabulary."""
    from .. import walk as W
    from . import c02
    prog = ctx.prog
    fac = prog.func("torch.PyTorchShortTimeFourierTransformFrameComputer.from_stft_frame_computer")
    comp = fac.params[1]
    rets = [r for r in astq.returns_of(fac) if isinstance(r.value, ast.Call) and r.value.args]
    if len(rets) != 1:
        return False
    first = rets[0].value.args[0]
    expr = first
    build = []
    if isinstance(first, ast.Name):
        # the statements that build the value handed over (an assignment, or a list filled in a loop)
        build = [st for st in fac.node.body if st is not rets[0] and any(isinstance(x, ast.Name) and x.id == first.id for x in ast.walk(st))]
        if not build:
            return False
    what = "the (offset, filter) pairs handed to the torch module are the bank's own start bins and whole truncated responses, in bank order"
    ident = lambda interp, call: interp.ev(call.args[0])
    n = 0
    try:
        for D in range(2, 9):
            for s_ in range(D):
                for T in (1, 2, D):
                    n += 1
                    try:
                        fields, H = c02.constructor_state(prog, D, s_, T)
                        env = {comp + k[len("self"):]: v for k, v in fields.items()}
                        # a private field renamed inside compute.py got its reference name back there; this module reads the new name
                        for mapping in (getattr(prog.module("compute"), "alpha_attr_renames", None) or {}).values():
                            for new_, old_ in mapping.items():
                                if "self." + old_ in fields:
                                    env[comp + "." + new_] = fields["self." + old_]
                        it = W.Interp(env, hooks={"tensor": ident, "as_tensor": ident, "from_numpy": ident, "asarray": ident, "array": ident})
                        it.run(build)
                        got = it.ev(expr)
                    except W.ShapeError as e:
                        ctx.bad(R, fac, rets[0], "for a DFT of %d bins and a filter starting at bin %d with %d value(s), evaluating the constructor and the "
                                "conversion fails: %s" % (D, s_, T, e), what, robust=True)
                        return True
                    ok = isinstance(got, (list, tuple)) and len(got) == 1 and isinstance(got[0], (list, tuple)) and len(got[0]) == 2 \
                        and got[0][0] == s_ and isinstance(got[0][1], W.Arr) and got[0][1].tags == H.tags

                    def show(v):
                        if isinstance(v, W.Arr):
                            return "H[%s]" % ",".join(str(i) for _, i, _ in v.tags) if all(t[0] == "H" for t in v.tags) else "<array>"
                        if isinstance(v, (list, tuple)):
                            return "(" + ", ".join(show(x) for x in v) + ")"
                        return repr(v)
                    if not ok:
                        ctx.bad(R, fac, rets[0], "for a DFT of %d bins and a filter whose response starts at bin %d with %d value(s) the torch module is handed %s ; "
                                "its routine needs [(%d, H[0..%d])]: the start bin as the bank gave it, with the whole response (the NumPy constructor and "
                                "this conversion no longer agree on what the stored fields mean)" % (D, s_, T, show(got), s_, T - 1), what, robust=True)
                        return True
    except W.Unsupported as e:
        if n > 1:
            ctx.error(R, "cannot decide the filter pairs by evaluation (%s after %d size combinations)" % (e, n))
            return True
        return False
    ctx.ok(R, fac.loc(rets[0]), what, "%d combinations of DFT size, start bin and run length evaluated" % n)
    return True


def port_reads_plain_fields(ctx, R="R-C14-nameflow"):
    """from_stft_frame_computer copies the NumPy computer's private fields: the start bins and truncated responses it pairs up are
    meaningful to the torch routine only as the bank returned them (bin offsets into the full spectrum).  A NumPy-side change that
    stores them in another convention (relative to the half spectrum, with a separate flag) can keep the NumPy result intact and
    silently break the port: what the constructor stores is a premise of this property and is re-established here."""
    from . import c02
    if port_filters_by_evaluation(ctx, R):
        ctx._port_filters_decided = True
        return
    c02.filters_stored_whole(ctx, R)


def no_ambient_settings(ctx, R="R-C14-nameflow"):
    """What a module computes is fixed by the NumPy object it was built from and by its arguments - not by process-wide torch
    settings read when it is built or called (the default dtype: under a float16 / bfloat16 default the window and the filters are
    quantised and the features no longer equal compute_full to working precision)."""
    prog = ctx.prog
    m = prog.module("torch")
    AMBIENT = ("torch.get_default_dtype", "torch.get_default_device", "torch.is_autocast_enabled", "torch.get_autocast_gpu_dtype", "torch.get_autocast_dtype",
               "torch.are_deterministic_algorithms_enabled", "torch.get_num_threads", "torch.backends")
    n = 0
    for fi in [x for x in prog.functions.values() if x.module is m]:
        n += 1
        for c in astq.func_calls(fi):
            q = prog.qualify(m, c.func, fi) or ""
            if any(q == a or q.startswith(a + ".") for a in AMBIENT):
                ctx.bad(R, fi, c, "%s reads the process-wide setting %s(): the parameters and results of a module then depend on what some other code set "
                        "(e.g. a half-precision default dtype quantises the window and the filters), not on the computer it was built from" % (fi.short, q),
                        "modules do not read process-wide torch settings", robust=True)
    ctx.floor(R + "/torch-functions", n, 10)
    ctx.ok(R, m.rel, "modules do not read process-wide torch settings", "%d functions inspected" % n)


def geom_twin(ctx, R="R-C14-geom-twin"):
    prog = ctx.prog
    n_cfg = 0
    RC = "R-C14-columns" if R.startswith("R-C14") else R
    RS = "R-C14-symmetric-pad" if R.startswith("R-C14") else R
    for style, kaldi in sc.CONFIGS:
        centered = style == "centered"
        g = sc.torch_geometry(ctx, R, centered, kaldi)
        f = g["func"]
        sig = f.params[0]
        name = sc.cfg_name(style, kaldi)
        n_cfg += 1
        guard, rows, cols, node = g["empty"]
        T = sc.lt_threshold(guard)
        if T is not None:
            sc.same(ctx, R, f, node, "[%s] emptiness threshold" % name, T, spec.GEOM["empty_below"])
        else:
            sc.same(ctx, R, f, node, "[%s] the result is empty exactly when N < L//2 + 1 (indicator over all empty returns)" % name,
                    S.cond(guard, S.ONE, S.ZERO), S.cond(S.cmp("<", sc.N, spec.GEOM["empty_below"]), S.ONE, S.ZERO))
        # columns of every empty result
        want_cols = S.add(S.call("len", S.sym("filters")), S.call("int", S.sym("include_energy")))
        for eg, erows, ecols, enode in g["empties"]:
            res = S.compare(ecols, want_cols, domain={})
            if res["verdict"] == "equal":
                ctx.ok(RC, f.loc(enode), "[%s] empty result has len(filters) + int(include_energy) columns" % name)
            else:
                ctx.bad(RC, f, enode, "the empty result returned here has %s columns; STFTFrameComputer.compute_full returns "
                        "num_filts + int(include_energy) columns for a too-short signal" % S.show(ecols),
                        "empty result has the same number of columns as compute_full")
        pl_want = spec.geom_pad_left(style, kaldi)
        nf_want = spec.GEOM["num_frames"]
        sc.same(ctx, R, f, g["full"][2], "[%s] number of frames" % name, g["rows"], nf_want)
        sc.same(ctx, R, f, g["full"][2], "[%s] frame length" % name, g["frame_len"], sc.L)
        sc.same(ctx, R, f, g["full"][2], "[%s] stride between frames" % name, g["stride_frame"], sc.Sh)
        sc.same(ctx, R, f, g["full"][2], "[%s] stride between samples" % name, g["stride_sample"], S.ONE)
        pr_want = S.emax(S.ZERO, S.sub(S.add(S.sub(S.mul(S.sub(nf_want, S.ONE), sc.Sh), pl_want), sc.L), sc.N))
        if g["pad"] is None:
            raise AnalysisError("%s: padding not found in the torch port" % R)
        pl = sc.flipped_prefix(g["pad"]["left_expr"], sig)
        q = sc.flipped_suffix(g["pad"]["right_expr"], sig)
        if pl is None or q is None or g["pad"]["mid"] != S.sym(sig):
            ctx.bad(RS, f, g["full"][2],
                    "padding is not [sig[:p].flip(0), sig, sig[N-q:].flip(0)] (NumPy's 'symmetric' mode): left %s, right %s"
                    % (S.show(g["pad"]["left_expr"])[:80], S.show(g["pad"]["right_expr"])[:80]), "padding is symmetric reflection")
            continue
        ctx.ok(RS, f.loc(g["full"][2]), "[%s] padding is sig[:p].flip(0) ++ sig ++ sig[N-q:].flip(0) (numpy 'symmetric')" % name)
        sc.same(ctx, R, f, g["full"][2], "[%s] left padding" % name, pl, pl_want)
        sc.same(ctx, R, f, g["full"][2], "[%s] right padding" % name, S.sub(sc.N, sc.canon_len(q, [sig])), pr_want)
    ctx.floor(R, n_cfg, 3)


def mirror_twin(ctx, R="R-C14-mirror-twin"):
    m = sc.torch_mirror(ctx, R)
    sc.check_mirror(ctx, R, m, S.sym("si"), S.call("len", S.sym("filt")), flipped_slices=True)
    f = m["func"]
    w = m["while"]
    ctx.check(astq.in_texts(w.test, ("consumed<filt_len", "filt_len>consumed",)), "R-C14-walk-twin", f, w,
              "the walk continues until the truncated filter is consumed", "walk condition is %s" % astq.text(w.test), structural=True)
    alt = [s for s in w.body if isinstance(s, ast.Assign) and astq.is_name(s.targets[0], "conj")]
    ctx.check(len(alt) == 1 and astq.text(alt[0].value) == "not conj", "R-C14-walk-twin", f, alt[0] if alt else MISSING(w),
              "direct and mirrored segments alternate", "the direct/mirrored alternation is %s" % (astq.text(alt[0].value) if alt else None), structural=True)
    clamp = [s for s in w.body if isinstance(s, ast.Assign) and astq.is_name(s.targets[0], "si")]
    ctx.check(len(clamp) == 1 and astq.in_texts(clamp[0].value, ("max(0,si)", "max(si,0)",)), "R-C14-walk-twin", f,
              clamp[0] if clamp else MISSING(w), "the next start bin is clamped at 0", "start-bin clamp is %s" % (astq.text(clamp[0].value) if clamp else None), structural=True)


def nameflow(ctx, R="R-C14-nameflow"):
    prog = ctx.prog
    tm = prog.module("torch")
    cls = prog.cls("torch.PyTorchShortTimeFourierTransformFrameComputer")
    init = prog.own_method(cls, "__init__")
    fac = prog.own_method(cls, "from_stft_frame_computer")
    fwd = prog.own_method(cls, "forward")
    fn = prog.func("torch.pytorch_stft_frame_computer")
    comp = fac.params[1]
    # hop 1: local -> computer attribute (read through properties that return a private attribute)
    np_cls = prog.cls("compute.ShortTimeFourierTransformFrameComputer")

    def underlying(attr):
        m = prog.find_method(np_cls, attr)
        if m is not None and m.is_property and not m.is_abstract:
            r = astq.returns_of(m)
            if len(r) == 1 and astq.is_self_attr(r[0].value, m.params[0]):
                return r[0].value.attr
        return attr

    def chains(node):
        """dotted attribute chains rooted at the computer parameter, outermost only"""
        out = []
        inner = set()
        for x in ast.walk(node):
            if isinstance(x, ast.Attribute) and id(x) not in inner:
                parts, cur = [], x
                while isinstance(cur, ast.Attribute):
                    parts.append(cur.attr)
                    inner.add(id(cur.value))
                    cur = cur.value
                if astq.is_name(cur, comp):
                    parts = list(reversed(parts))
                    parts[0] = underlying(parts[0])
                    out.append(tuple(parts))
        return out

    def meaning(ch):
        if len(ch) == 1:
            return NP_ATTR_MEANING.get(ch[0])
        if ch in (("_bank", "is_real"),):
            return "is_real"  # what the computer itself stores in _real
        if ch[0] in ("_filt_start_idxs", "_truncated_filts"):
            return None
        return "<%s>" % ".".join(ch)

    # the values handed to the constructor, forward-substituted (locals, loops written as comprehensions and helpers read through)
    fev = SymEval(prog, fac).run()
    ctx.need(len(fev.returns) == 1, R, "from_stft_frame_computer has %d returns" % len(fev.returns))
    rv = fev.returns[0][1]
    rets = [fev.returns[0][2]]
    ctx.need(rv.op == "call" and rv.args[0] == "apply" and rv.args[1] == S.sym(fac.params[0]), R,
             "from_stft_frame_computer does not end in `return cls(...)`")
    iparams = init.params[1:]
    bound = {}
    pos = [a for a in rv.args[2:] if not (a.op == "call" and str(a.args[0]).startswith("kw:"))]
    for p, a in zip(iparams, pos):
        bound[p] = a
    for a in rv.args[2:]:
        if a.op == "call" and str(a.args[0]).startswith("kw:"):
            bound[a.args[0][3:]] = a.args[1]

    def echains(e):
        out = []
        for nm in sorted(S.symbols(e)):
            if nm.startswith(comp + "."):
                parts = nm.split(".")[1:]
                parts[0] = underlying(parts[0])
                out.append(tuple(parts))
        return out

    n_checked = 0
    for p, a in bound.items():
        chs = echains(a)
        attrs = [".".join(c) for c in chs]
        meanings = {meaning(c) for c in chs} - {None}
        if p == "offsets_and_truncated_filters" and getattr(ctx, "_port_filters_decided", False):
            n_checked += 1
            continue  # decided together with the constructor, by evaluation
        if p == "offsets_and_truncated_filters":
            ok = {c[0] for c in chs} >= {"_filt_start_idxs", "_truncated_filts"}
            ctx.check(ok, R, fac, rets[0], "filters and start bins come from the computer's truncated responses",
                      "offsets_and_truncated_filters is built from %s" % attrs)
            n_checked += 1
            # the (offset, filter) pairs keep their order: zip(starts, filters) unpacked as (o, x)
            zips = [x for x in S.walk(a) if isinstance(x, S.E) and x.op == "call" and x.args[0] == "zip"]
            okz = len(zips) >= 1 and all([echains(z_)[:1] for z_ in zips[0].args[1:]] == [[("_filt_start_idxs",)], [("_truncated_filts",)]] for _ in (0,))
            if zips or not ok:
                ctx.check(okz, R, fac, rets[0], "start bins are paired with their own filters, in bank order",
                          "filters/offsets pairing is %s" % (S.show(zips[0])[:120] if zips else None))
            else:
                ctx.error(R, "cannot decide how start bins and filters are paired: %s" % S.show(a)[:160])
            continue
        if p not in NP_ATTR_MEANING.values():
            continue
        n_checked += 1
        ctx.check(meanings == {p}, R, fac, rets[0], "constructor slot `%s` receives the computer's %s" % (p, p),
                  "constructor slot `%s` of the PyTorch module receives %s of the NumPy computer, not the value the computer itself uses for %s"
                  % (p, ", ".join(attrs) or "nothing", p))
        # passed through unchanged (flags are not negated / recombined on the way)
        if meanings == {p} and p not in ("window", "frame_style"):
            ctx.check(a.op == "sym", R, fac, rets[0], "`%s` is passed through unchanged" % p, "`%s` is computed as %s on the way to the module" % (p, S.show(a)[:60]))
    for need in sorted(set(NP_ATTR_MEANING.values())):
        ctx.check(need in bound, R, fac, rets[0], "the computer's %s is handed to the module" % need,
                  "from_stft_frame_computer does not pass %s to the module; the default would be used" % need)
    # hop 2: __init__ param -> self attribute
    selfn = init.params[0]
    attr_of = {}
    for n in init.body_nodes():
        if isinstance(n, ast.Assign):
            tg = n.targets[0]
            tl = list(tg.elts) if isinstance(tg, ast.Tuple) else [tg]
            vl = list(n.value.elts) if isinstance(n.value, ast.Tuple) and isinstance(tg, ast.Tuple) else [n.value]
            if len(tl) == len(vl):
                for t, v in zip(tl, vl):
                    if astq.is_self_attr(t, selfn):
                        ps = {x.id for x in ast.walk(v) if isinstance(x, ast.Name) and x.id in iparams}
                        # locals derived from params (offsets, filters lists)
                        attr_of[t.attr] = (ps, v)
    # hop 3: forward: self attribute -> functional parameter position
    frets = astq.returns_of(fwd)
    ctx.need(len(frets) == 1 and isinstance(frets[0].value, ast.Call) and prog.resolve(tm, frets[0].value.func, fwd) is fn, R,
             "forward does not return pytorch_stft_frame_computer(...)")
    fcall = frets[0].value
    fparams = fn.params
    fbound = {}
    for p, a in zip(fparams, fcall.args):
        fbound[p] = a
    for k in fcall.keywords:
        if k.arg:
            fbound[k.arg] = k.value
    for p, a in fbound.items():
        sattrs = [x.attr for x in ast.walk(a) if astq.is_self_attr(x, fwd.params[0])]
        if not sattrs:
            continue
        for at in sattrs:
            want_attr = p if p in attr_of or p not in ("sig",) else None
            src, v = attr_of.get(at, (set(), None))
            n_checked += 1
            if p in ("filters", "offsets", "window"):
                ctx.check(at == p, R, fwd, frets[0], "functional slot `%s` receives self.%s" % (p, p),
                          "functional slot `%s` receives self.%s" % (p, at))
                continue
            ctx.check(at == p, R, fwd, frets[0], "functional slot `%s` receives self.%s" % (p, p),
                      "functional parameter `%s` receives self.%s: crossed parameters" % (p, at))
            ctor = {v_: k_ for k_, v_ in CTOR_TO_FUNC.items()}.get(at, at)
            ctx.check(src == {ctor}, R, init, v if v is not None else init.node, "self.%s is stored from constructor parameter %s" % (at, ctor),
                      "self.%s is stored from %s, not from constructor parameter %s" % (at, sorted(src), ctor))
    # frame_style -> centered
    src, v = attr_of.get("centered", (set(), None))
    ok = v is not None and astq.in_texts(v, ("frame_style=='centered'", '"centered"==frame_style', "frame_style==\"centered\"",))
    ctx.check(ok, R, init, v if v is not None else init.node, "centered is frame_style == 'centered'",
              "self.centered is %s" % (astq.text(v) if v is not None else None))
    # the signal itself reaches the functional port: no conversion on the way (eager and scripted modules, and the NumPy twin, see the same samples)
    try:
        fev2 = SymEval(prog, fwd).run()
        for _, v_, rn in fev2.returns:
            if v_.op == "call" and len(v_.args) >= 2 and str(v_.args[0]).endswith("pytorch_stft_frame_computer"):
                kw0 = [a_ for a_ in v_.args[1:] if a_.op == "call" and a_.args[0] == "kw:" + fn.params[0]]
                pos0 = [a_ for a_ in v_.args[1:] if not (a_.op == "call" and str(a_.args[0]).startswith("kw:"))]
                a0 = kw0[0].args[1] if kw0 else (pos0[0] if pos0 else None)
                if a0 is None:
                    ctx.error(R, "cannot decide what forward hands to the functional port: %s" % S.show(v_)[:160])
                    continue
                if a0 == S.sym(fwd.params[1]):
                    ctx.ok(R, fwd.loc(rn), "forward hands its input to the functional port unchanged")
                else:
                    from .. import scenario as SC
                    calls, _ = SC.vocabulary(a0)
                    conv = {"torch.as_tensor", "torch.tensor", ".to", ".float", ".double", ".half", ".type", ".contiguous", ".detach", ".clone", "torch.jit.is_scripting"}
                    if {c_ for c_ in calls if not str(c_).startswith("kw:")} <= conv and not S.has_unknown(a0):
                        ctx.bad(R, fwd, rn, "forward converts its input before the computation (%s): a float64 signal is then processed in another precision than "
                                "compute_full / the scripted module use" % S.show(a0)[:140], "forward hands its input to the functional port unchanged")
                    else:
                        ctx.error(R, "cannot decide what forward hands to the functional port: %s" % S.show(a0)[:160])
    except AnalysisError:
        pass
    # every functional parameter except eps is supplied by forward
    missing = [p for p in fparams if p not in fbound and p != "eps"]
    ctx.check(not missing, R, fwd, frets[0], "forward supplies every parameter of the functional port",
              "forward leaves %s at their defaults" % missing)
    ctx.floor(R, n_checked, 11)
    # small factories
    for cname, meth, attr in (("PyTorchPreemphasize", "from_preemphasize", "coeff"), ("PyTorchDither", "from_dither", "coeff")):
        c = tm.classes[cname]
        m = prog.own_method(c, meth)
        r = astq.returns_of(m)
        ok = len(r) == 1 and astq.text(r[0].value) == "%s(%s.%s)" % (m.params[0], m.params[1], attr)
        ctx.check(ok, R, m, r[0] if r else MISSING(m.node), "%s.%s copies %s" % (cname, meth, attr), "%s.%s is %s" % (cname, meth, astq.text(r[0].value) if r else None))
        fw = prog.own_method(c, "forward")
        r = astq.returns_of(fw)
        fname = "pytorch_preemphasize" if "Preemph" in cname else "pytorch_dither"
        ok = len(r) == 1 and astq.text(r[0].value) == "%s(%s, self.%s)" % (fname, fw.params[1], attr)
        ctx.check(ok, R, fw, r[0] if r else MISSING(fw.node), "%s.forward passes its coeff to %s" % (cname, fname),
                  "%s.forward is %s" % (cname, astq.text(r[0].value) if r else None))


def reductions(ctx, R="R-C14-walk-twin"):
    prog = ctx.prog
    f = prog.func("torch.pytorch_stft_frame_computer")
    # eps default is the package's log floor
    d = f.defaults.get("eps")
    ctx.check(d is not None and prog.qualify(f.module, d, f) == "pydrobert.speech.config.LOG_FLOOR_VALUE", R, f, d if d is not None else f.node,
              "eps defaults to config.LOG_FLOOR_VALUE", "eps defaults to %s" % (astq.text(d) if d is not None else None))
    for use_power in (True, False):
        for is_real in (True, False):
            ev = SymEval(prog, f, seed={"use_power": use_power, "is_real": is_real, "centered": False, "conj": False, "use_log": True,
                                        "include_energy": True}, rename=sc.TORCH_RENAME).run()
            w = [n for n in f.body_nodes() if isinstance(n, ast.While)][0]
            acc = [s for s in w.body if isinstance(s, ast.Assign) and astq.is_name(s.targets[0], "val")]
            ctx.need(len(acc) == 1, R, "`val = val + val_f` not found")
            v = ev.eval_at(acc[0], acc[0].value)
            seg = S.sym("seg")
            if use_power:
                core = S.call(".square", S.call("torch.linalg.norm", seg, S.lift(2), S.lift(1)))
            else:
                core = S.call(".sum", S.call(".abs", seg), S.lift(1))
            want = S.add(S.sym("val"), S.mul(core, S.lift(2)) if is_real else core)
            env_seg = S.subst(v, {ev.eval_at(acc[0], ast.parse("seg", mode="eval").body): seg})
            res = S.compare(env_seg, want, domain={})
            ctx.check(res["verdict"] == "equal", R, f, acc[0],
                      "segment reduction (use_power=%s, is_real=%s) is %s" % (use_power, is_real, S.show(want)),
                      "with use_power=%s, is_real=%s the segment contributes %s, expected %s" % (use_power, is_real, S.show(env_seg)[:160], S.show(want)))
    # log: clamp_min(eps).log() exactly when use_log
    for use_log in (True, False):
        ev = SymEval(prog, f, seed={"use_log": use_log, "centered": False}, rename=sc.TORCH_RENAME).run()
        full = [v for g, v, n in ev.returns if not sc._alloc_shape(v)]
        ctx.need(len(full) == 1, R, "full return of the torch port not found")
        v = full[0]
        is_log = cc.is_call(v, ".log") and cc.is_call(v.args[1], ".clamp_min") and v.args[1].args[2] == S.sym("eps")
        plain = cc.is_call(v, "torch.stack")
        ctx.check(is_log if use_log else plain, R, f, f.node,
                  "use_log=%s: result is %s" % (use_log, "stack(...).clamp_min(eps).log()" if use_log else "the stacked reductions"),
                  "with use_log=%s the result is %s" % (use_log, S.show(v)[:100]))
    # energy: ||frame||_2 / sqrt(L), squared when use_power, computed before the window
    for use_power in (True, False):
        ev = SymEval(prog, f, seed={"use_power": use_power, "include_energy": True, "centered": False}, rename=sc.TORCH_RENAME).run()
        app = [c for c, g, env in ev.calls if astq.attr_call(c, "append") and astq.is_name(c.func.value, "y") and astq.is_name(c.args[0], "energy")]
        ctx.need(len(app) == 1, R, "energy coefficient append not found")
        pm = astq.parents(f)
        st = astq.enclosing_stmt(pm, app[0])
        e = ev.eval_at(st, app[0].args[0])
        s = S.show(e)
        ok = "torch.linalg.norm(" in s and "sqrt(L)" in s.replace("math.", "") and ("* window" not in s) and (".square(" in s) == use_power
        ctx.check(ok, R, f, st, "energy (use_power=%s) is ||unwindowed frame||_2 / sqrt(L)%s" % (use_power, ", squared" if use_power else ""),
                  "energy coefficient with use_power=%s is %s" % (use_power, s[:160]))
    en = [n for n in f.body_nodes() if isinstance(n, ast.If) and astq.text(n.test) == "include_energy"]
    ctx.check(len(en) == 1, R, f, f.node, "the energy coefficient is produced exactly under include_energy")
    # one coefficient per filter, in bank order
    loops = [n for n in f.body_nodes() if isinstance(n, ast.For) and isinstance(n.iter, ast.Call) and astq.is_name(n.iter.func, "zip")]
    ok = len(loops) == 1 and [astq.text(a) for a in loops[0].iter.args] == ["offsets", "filters"]
    apps = [c for c in astq.calls_in(loops[0]) if astq.attr_call(c, "append") and astq.is_name(c.func.value, "y")] if loops else []
    n_ok = len(apps) == 1 or (len(apps) >= 1 and getattr(ctx, "_torch_walk_decided", False))   # several sites, one per path: counted by the walk evaluation
    ctx.check(ok and n_ok, R, f, loops[0] if loops else MISSING(f.node), "one coefficient per (offset, filter) pair, in bank order",
              "filter loop is %s with %d appends" % (astq.text(loops[0].iter) if loops else None, len(apps)))


def wrappers(ctx, R="R-C14-wrappers"):
    prog = ctx.prog
    tm = prog.module("torch")
    for cname, inner, target_attr, call_attr in (
            ("PyTorchShortIntegrationFrameComputer", "_compute_full", "si_frame_computer", "compute_full"),
            ("PyTorchPostProcessorWrapper", "_postprocessor_appy", "postprocessor", "apply")):
        c = tm.classes.get(cname)
        ctx.need(c is not None, R, "torch.%s vanished" % cname)
        fw = prog.own_method(c, "forward")
        ev = SymEval(prog, fw, inline_self=True).run()
        ctx.need(len(ev.returns) == 1, R, "%s.forward has %d returns" % (cname, len(ev.returns)))
        v, rnode = ev.returns[0][1], ev.returns[0][2]
        sg = S.sym(fw.params[1])
        arr = S.call(".numpy", S.call(".cpu", sg))
        want = S.call("torch.tensor", S.call("." + call_attr, S.sym("self." + target_attr), arr),
                      S.call("kw:device", S.sym(fw.params[1] + ".device")), S.call("kw:dtype", S.sym(fw.params[1] + ".dtype")))
        what = "%s computes self.%s.%s(sig.cpu().numpy()) and re-wraps with the input's device and dtype" % (cname, target_attr, call_attr)
        if v == want:
            ctx.ok(R, fw.loc(rnode), what)
            continue
        from .. import scenario as SC
        # a value that depends on whether the input is empty: evaluate both scenarios (the documented result is the same in both)
        if any(isinstance(x, S.E) and x.op == "call" and x.args[0] in (".numel", ".nelement") for x in S.walk(v)):
            done_ = False
            for empty in (False, True):
                def fn(x, empty=empty):
                    if x.op == "call" and x.args[0] in (".numel", ".nelement") and len(x.args) == 2 and x.args[1] == sg:
                        return S.lift(0 if empty else 7)
                    return None
                vs = SC.transform(v, fn)
                if vs != want and not SC.residual_conditions(vs):
                    calls_, _ = SC.vocabulary(vs)
                    if {x for x in calls_ if not str(x).startswith("kw:")} <= {"torch.tensor", "." + call_attr, ".numpy", ".cpu", ".detach", ".clone", ".copy", "torch.as_tensor", "torch.from_numpy", ".to", ".new_empty", ".new_zeros", "torch.empty_like", "torch.zeros_like"}:
                        ctx.bad(R, fw, rnode, "for %s input %s.forward returns %s ; documented: %s (a post-processor that changes the number of columns, or "
                                "raises, is bypassed)" % ("an empty" if empty else "a non-empty", cname, S.show(vs)[:120], S.show(want)[:160]), what)
                        done_ = True
                        break
            if done_:
                continue
        # a branch that never calls the wrapped routine returns something the library object did not compute
        try:
            leaves = list(cc.strip_cond(v))
        except AnalysisError:
            leaves = []
        skipped = [(tests, leaf) for tests, leaf in leaves
                   if not any(isinstance(x, S.E) and x.op == "call" and x.args[0] == "." + call_attr for x in S.walk(leaf))]
        if len(leaves) > 1 and skipped and len(skipped) < len(leaves):
            tests, leaf = skipped[0]
            cond = " and ".join(("" if lbl == "T" else "not ") + S.show(t)[:70] for lbl, t in tests)
            ctx.bad(R, fw, rnode, "when %s, %s.forward returns %s without calling self.%s.%s at all: the wrapped object decides what such an input gives "
                    "(it has no such special case), the wrapper does not" % (cond, cname, S.show(leaf)[:80], target_attr, call_attr), what)
            continue
        calls, syms = SC.vocabulary(v)
        known = {"torch.tensor", "." + call_attr, ".numpy", ".cpu", ".detach", ".clone", ".copy", "torch.as_tensor", "torch.from_numpy", ".to"}
        extra = {x for x in calls if not str(x).startswith("kw:")} - known
        if extra or S.has_unknown(v) or SC.residual_conditions(v):
            ctx.error(R, "cannot decide %s.forward: its value uses constructs outside the rule's vocabulary (%s): %s" % (cname, ", ".join(sorted(map(str, extra))), S.show(v)[:200]))
        else:
            ctx.bad(R, fw, rnode, "%s.forward returns %s ; documented: %s" % (cname, S.show(v)[:200], S.show(want)[:200]), what)
    # pre-emphasis stencil: y[i] = x[i] - coeff * x[i-1] with a zero before the first sample
    f = prog.func("torch.pytorch_preemphasize")
    ev = SymEval(prog, f).run()
    ctx.need(len(ev.returns) == 1, R, "pytorch_preemphasize has more than one return")
    v = ev.returns[0][1]
    sig, coeff = S.sym(f.params[0]), S.sym(f.params[1])
    ext = None
    for name in ("torch.concatenate", "torch.cat"):
        ext = ext or S.call(name, S.call("list", S.call(".new_zeros", sig, S.lift(1)), sig))
    alts = [S.call(nm, S.call("list", S.call(".new_zeros", sig, S.lift(1)), sig)) for nm in ("torch.concatenate", "torch.cat")]
    ok = False
    for ext in alts:
        want = S.sub(S.call("getitem", ext, S.call("slice", S.lift(1), S.NONE, S.NONE)),
                     S.mul(coeff, S.call("getitem", ext, S.call("slice", S.NONE, S.lift(-1), S.NONE))))
        if S.compare(v, want, domain={})["verdict"] == "equal":
            ok = True
    ctx.check(ok, R, f, ev.returns[0][2], "pytorch_preemphasize is [0, x][1:] - coeff * [0, x][:-1]", "pytorch_preemphasize returns %s" % S.show(v)[:160])
    # dither: sig + coeff * randn_like(sig)
    f = prog.func("torch.pytorch_dither")
    ev = SymEval(prog, f).run()
    v = ev.returns[0][1]
    sig, coeff = S.sym(f.params[0]), S.sym(f.params[1])
    want = S.add(sig, S.mul(coeff, S.call("torch.randn_like", sig)))
    ctx.check(S.compare(v, want, domain={})["verdict"] == "equal", R, f, ev.returns[0][2], "pytorch_dither is sig + coeff * randn_like(sig)",
              "pytorch_dither returns %s" % S.show(v)[:120])
    fw = prog.find_method(prog.cls("torch.PyTorchDither"), "forward")
    ctx.need(fw is not None, R, "PyTorchDither.forward not found")
    rng.check(ctx, R, fw, {"torch.randn_like", "torch.randn", "torch.normal"}, "torch.manual_seed")
