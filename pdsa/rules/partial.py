"""Operations that have no value on an array without elements.

Empty arrays are ordinary values in this library: a zero-length recording, a truncated filter response that no DFT bin falls
into, a feature matrix with no frames.  Reductions without an identity (min, max, argmin, argmax, ptp) raise ValueError on
them, so a routine that must work "for every input" may not apply one to such a value - not even inside the arguments of a
logging call or an assertion, which are evaluated whatever the log level.  Effect rule over the given functions and the
functions of their module they call; a reduction under a size test, with ``initial=``, or inside a handler that catches the
failure is accepted."""

import ast

from .. import astq

_NO_IDENTITY = {"min", "max", "argmin", "argmax", "ptp", "amin", "amax", "nanmin", "nanmax", "nanargmin", "nanargmax"}


def closure(prog, roots):
    reach, work = [], list(roots)
    while work:
        g = work.pop()
        if g in reach:
            continue
        reach.append(g)
        for c in astq.func_calls(g):
            t = None
            if isinstance(c.func, ast.Attribute) and g.params and astq.is_name(c.func.value, g.params[0]) and g.cls is not None:
                t = prog.find_method(g.cls, c.func.attr)
            if t is None:
                try:
                    t = prog.resolve(g.module, c.func, g)
                except Exception:
                    t = None
            if t is not None and hasattr(t, "body_nodes") and hasattr(t, "params") and t.module is g.module and t not in reach:
                work.append(t)
    return reach


def no_identityless_reductions(ctx, R, roots, what, consequence, only_roots=False):
    prog = ctx.prog
    reach = list(roots) if only_roots else closure(prog, roots)
    n = 0
    for g in reach:
        pm = astq.parents(g)
        for c in astq.func_calls(g):
            name = None
            if isinstance(c.func, ast.Attribute) and c.func.attr in _NO_IDENTITY:
                q = prog.qualify(g.module, c.func, g)
                if q is None and not c.args:
                    name = "." + c.func.attr + "()"          # method of a local value
                elif q is not None and q.startswith("numpy.") and c.args:
                    name = q
            elif isinstance(c.func, ast.Name) and c.func.id in ("min", "max") and len(c.args) == 1 and astq.kw(c, "default") is None \
                    and prog.resolve(g.module, c.func, g) is None:
                name = c.func.id + "(<one iterable>)"
            if name is None:
                continue
            if astq.kw(c, "initial") is not None:
                continue
            anc = list(astq.ancestors(pm, c))
            caught = any(isinstance(a, ast.Try) and any(c in list(ast.walk(st)) for st in a.body) and any(
                h.type is None or any(t in astq.text(h.type) for t in ("ValueError", "Exception")) for h in a.handlers) for a in anc)
            sized = any(isinstance(a, (ast.If, ast.IfExp)) and any(
                (isinstance(y, ast.Attribute) and y.attr in ("size", "shape")) or (isinstance(y, ast.Call) and astq.is_name(y.func, "len")) for y in ast.walk(a.test))
                for a in anc)
            if caught or sized:
                continue
            n += 1
            ctx.bad(R, g, c, "`%s` has no value for an array without elements and raises ValueError there: %s" % (astq.text(c)[:60], consequence), what, robust=True)
    if not n:
        ctx.ok(R, roots[0].loc(), what, "%d function(s) inspected" % len(reach))
    return n


_LAYOUT_ATTRS = {"flags", "strides", "c_contiguous", "f_contiguous", "contiguous", "fnc", "forc", "owndata", "writeable", "aligned", "base"}
_LAYOUT_CALLS = {"iscontiguous", "isfortran", "is_contiguous", "may_share_memory", "shares_memory"}


def layout_independent(ctx, R, roots, what="whether an array is accepted does not depend on how it lies in memory"):
    """A strided view (one channel of a stereo buffer, every other sample), a Fortran-ordered or read-only array holds the same
    values as its contiguous copy; "for every signal" covers them.  A raise or assertion conditioned on ``.flags``, ``.strides``,
    ``.base`` or a contiguity predicate rejects inputs by their memory layout, not by their value."""
    prog = ctx.prog
    reach = closure(prog, roots)
    n = 0

    def layout_test(test):
        for x in ast.walk(test):
            if isinstance(x, ast.Attribute) and x.attr in _LAYOUT_ATTRS and not (isinstance(x.value, ast.Name) and x.value.id in ("self", "cls")):
                return astq.text(x)
            if isinstance(x, ast.Call) and ((isinstance(x.func, ast.Attribute) and x.func.attr in _LAYOUT_CALLS) or (isinstance(x.func, ast.Name) and x.func.id in _LAYOUT_CALLS)):
                return astq.text(x)
            if isinstance(x, ast.Subscript) and isinstance(x.value, ast.Attribute) and x.value.attr == "flags":
                return astq.text(x)
        return None
    for g in reach:
        pm = astq.parents(g)
        for st in g.body_nodes():
            hit = None
            if isinstance(st, ast.Assert):
                hit = layout_test(st.test)
            elif isinstance(st, ast.Raise):
                for a in astq.ancestors(pm, st):
                    if isinstance(a, (ast.If, ast.While)):
                        hit = hit or layout_test(a.test)
                    if isinstance(a, (ast.FunctionDef, ast.AsyncFunctionDef)):
                        break
            if hit:
                n += 1
                ctx.bad(R, g, st, "input is refused depending on `%s`: a strided view (one channel of a multi-channel buffer, a decimated signal) or a "
                        "non-contiguous array holds a perfectly valid signal and is now rejected" % hit[:60], what, robust=True)
    if not n:
        ctx.ok(R, roots[0].loc(), what, "%d function(s) inspected" % len(reach))
    return n
