"""Blocked loops cover the whole array.

A reduction or an element-wise update that is correct on the whole array stays correct when it is done block by block only
if the blocks tile the array: ``for b in range(K): part = X[b * B:(b + 1) * B]`` needs slices that start at 0, follow each other
without gap, and reach the end, ``K * B >= len(X)`` for every length.  The loop bound is the part that slips
(``n // B`` for ``ceil(n / B)``, ``max(1, n // B)``).  This rule finds such loops by forward substitution and decides the
tiling conditions as integer closed forms in n = len(X) (exhaustive over lengths around the multiples of the block size).
It only ever reports a definite counter-example length; a loop it does not recognise is not its business."""

import ast
from fractions import Fraction

from .. import astq
from .. import sym as S
from .. import scenario as SC
from ..symeval import SymEval


def _subst_len(e, arr_e, nsym):
    """len(X) / X.shape[0] / len-like spellings of the blocked array's length -> n"""
    def fn(x):
        if SC.is_call(x, "len") and len(x.args) == 2 and x.args[1] == arr_e:
            return nsym
        if SC.is_call(x, "getitem") and len(x.args) == 3 and SC.is_call(x.args[1], ".shape") and x.args[1].args[1] == arr_e and x.args[2] == S.ZERO:
            return nsym
        if SC.is_call(x, ".shape") or SC.is_call(x, ".size"):
            return None
        return None
    return SC.transform(e, fn)


def check(ctx, R, funcs, what="blocks tile the whole array"):
    prog = ctx.prog
    n_loops = 0
    for f in funcs:
        loops = [n for n in f.body_nodes() if isinstance(n, ast.For) and isinstance(n.target, ast.Name)]
        if not loops:
            continue
        try:
            ev = SymEval(prog, f, loop_first=True).run()
        except Exception:
            continue
        for lp in loops:
            v = lp.target.id
            try:
                it = ev.eval_at(lp, lp.iter)
            except Exception:
                continue
            if not (SC.is_call(it, "range") and len(it.args) == 2):
                continue
            K = it.args[1]
            # slices X[lo:hi] in the body whose bounds mention the loop variable
            for sub in [x for st in lp.body for x in ast.walk(st) if isinstance(x, ast.Subscript)]:
                sl = sub.slice
                if isinstance(sl, ast.Tuple) and sl.elts and isinstance(sl.elts[-1], ast.Slice) and all(
                        isinstance(e_, ast.Constant) and e_.value is Ellipsis for e_ in sl.elts[:-1]):
                    sl = sl.elts[-1]
                    last_axis = True
                else:
                    last_axis = False
                if not isinstance(sl, ast.Slice) or sl.lower is None or sl.upper is None or sl.step is not None:
                    continue
                if not any(isinstance(y, ast.Name) and y.id == v for y in ast.walk(sl)):
                    continue
                if not isinstance(sub.value, ast.Name):
                    continue
                st = astq.enclosing_stmt(astq.parents(f), sub)
                try:
                    env, path = ev.at(st)
                except Exception:
                    continue
                saved = (ev.env, ev.path)
                ev.env, ev.path = dict(env), list(path)
                try:
                    ev.env[v] = S.sym("@b")
                    lo, hi = ev.expr(sl.lower), ev.expr(sl.upper)
                    arr_e = env.get(sub.value.id, S.sym(sub.value.id))
                finally:
                    ev.env, ev.path = saved
                if last_axis:
                    continue  # length along the last axis: not modelled
                nsym = S.sym("n")
                Kn = _subst_len(K, arr_e, nsym)
                lo_n, hi_n = _subst_len(lo, arr_e, nsym), _subst_len(hi, arr_e, nsym)
                names = set(S.symbols(Kn)) | set(S.symbols(lo_n)) | set(S.symbols(hi_n))
                if not names <= {"n", "@b"} or S.has_unknown(Kn) or S.has_unknown(lo_n) or S.has_unknown(hi_n):
                    continue
                # block size B from hi(b) - lo(b) at b = 0
                try:
                    B = S.evaluate(S.subst(S.sub(hi_n, lo_n), {"@b": S.ZERO}), {"n": Fraction(10 ** 6)})
                    B = int(B)
                except Exception:
                    continue
                if B <= 0:
                    continue
                n_loops += 1
                lens = sorted({1, 2, B - 1, B, B + 1, 2 * B - 1, 2 * B, 2 * B + 1, 3 * B + 7, 5 * B - 3} - {0, -1})
                bad = None
                for n in lens:
                    try:
                        k = int(S.evaluate(Kn, {"n": Fraction(n)}))
                        covered = 0
                        ok = True
                        for b in range(max(k, 0)):
                            l_ = int(S.evaluate(lo_n, {"n": Fraction(n), "@b": Fraction(b)}))
                            h_ = int(S.evaluate(hi_n, {"n": Fraction(n), "@b": Fraction(b)}))
                            if l_ > covered:
                                ok = False
                                break
                            covered = max(covered, min(h_, n))
                        if not ok or covered < n:
                            bad = (n, k, covered)
                            break
                    except Exception:
                        bad = None
                        break
                if bad is not None:
                    ctx.bad(R, f, lp, "the loop `for %s in %s` handles the array in blocks of %d, but for a length of %d it runs %d time(s) and covers only the "
                            "first %d element(s): the remaining %d are silently left out" % (v, astq.text(lp.iter), B, bad[0], bad[1], bad[2], bad[0] - bad[2]), what, robust=True)
                else:
                    ctx.ok(R, f.loc(lp), what, "block size %d, lengths %s" % (B, lens))
                break
    return n_loops
