"""C13 - shorten-compressed SPHERE audio decodes losslessly.

The decoder is a port of sph2pipe 2.5's shorten_x.c (itself Tony Robinson's shorten
2.0).  The rules compare the port's closed forms with the reference decoder's
arithmetic, transcribed below as python expression strings, in normal form.
"""

import ast
from fractions import Fraction
from math import comb

from .. import astq
from .. import sym as S
from ..cfg import CFG, header_walk, walk_no_defs
from ..dataflow import ReachingDefs, containing_node
from ..report import MISSING
from ..model import AnalysisError
from ..symeval import SymEval
from . import cli_common as cc

LEVEL = "other"
TECHNIQUE = ("NEP 50 signedness typing of the bit reader; exhaustive command/type table check; stencil and "
             "mean-bookkeeping closed forms compared with the reference decoder in normal form; control-dependence "
             "rule that wrap / bit-shift fix-up / interleaving are applied to every block command")
EXPLANATION = (
    "Decides on _sphere.copy_shortened_samples and its closures: no arithmetic mixes an unsigned NumPy scalar with a "
    "possibly negative python int (NumPy >= 2 promotion); every FN_* command constant is dispatched exactly once and "
    "an unknown one raises, every TYPE_* below TYPE_EOF has exactly one initial-mean class or raises, unsupported "
    "versions raise; the word reader raises when fewer than 4 bytes remain and no handler swallows it; the DIFF1-3 "
    "bodies are the binomial predictors, DIFF0 adds the running mean, QLPC is the quantised LPC recursion with the "
    "offset added before the shift; the running-mean read/update and the C (truncating) division match the reference "
    "decoder for versions 1 and 2; the history wrap, fix_bitshift and channel interleaving are applied after every "
    "block command unconditionally. Does NOT decide losslessness over all encoder outputs (needs an encoder and "
    "execution).")

# reference arithmetic (shorten_x.c of sph2pipe 2.5 / shorten 2.0), python syntax
REF = {
    "coffset_v1": "c99_div(offset[chan, :nmean].sum(), nmean)",
    "coffset_v2": "c99_div(nmean // 2 + offset[chan, :nmean].sum(), nmean) >> bitshift",
    "coffset_nomean": "offset[chan, 0]",
    "newmean_v1": "c99_div(cbuffer[nwrap : nwrap + blocksize].sum(), blocksize)",
    "newmean_v2": "c99_div(blocksize // 2 + cbuffer[nwrap : nwrap + blocksize].sum(), blocksize) << bitshift",
}

BLOCK_CMDS = {"FN_ZERO", "FN_DIFF0", "FN_DIFF1", "FN_DIFF2", "FN_DIFF3", "FN_QLPC"}
ALL_CMDS = BLOCK_CMDS | {"FN_QUIT", "FN_BLOCKSIZE", "FN_BITSHIFT"}
SIGNED_FMT = set("bhilq")
UNSIGNED_FMT = set("BHILQ")


def run(ctx):
    prog = ctx.prog
    f = prog.func("_sphere.copy_shortened_samples")
    ctx.rule(nep50, f)
    ctx.rule(commands, f)
    ctx.rule(eof, f)
    ctx.rule(predictors, f)
    ctx.rule(means, f)
    ctx.rule(uniform_post, f)
    ctx.rule(bitreader, f)
    ctx.rule(stream_header, f)
    ctx.rule(stateless_decoder)


def stateless_decoder(ctx, R="R-C13-bitreader"):
    """What a stream decodes to depends on the stream alone: the decoder keeps nothing between calls and never writes to the
    module's look-up tables.  A table row taken with a scalar index (`ULAW_OUTWARD[bitshift]`) is a view: editing it in place, or
    memoising results in a module-level container, makes a later stream (another sample type sharing the table) decode differently."""
    from .c20 import no_shared_state
    prog = ctx.prog
    m = prog.module("_sphere")
    tables = {name for name, vals in m.assigns.items() if any(isinstance(v, ast.Call) and (prog.qualify(m, v.func) or "") in ("numpy.array", "numpy.asarray") for v in vals)}
    n = 0
    for fi in [x for x in prog.functions.values() if x.module is m and x.parent is None and x.cls is None]:
        n += 1
        no_shared_state(ctx, R, fi, "_sphere.%s" % fi.name)
        # views of module tables that are written through
        views = {}
        for x in fi.body_nodes():
            if isinstance(x, ast.Assign) and len(x.targets) == 1 and isinstance(x.targets[0], ast.Name):
                v = x.value
                src = v.value if isinstance(v, ast.Subscript) else v
                if isinstance(src, ast.Name) and (src.id in tables or src.id in views):
                    idx = v.slice if isinstance(v, ast.Subscript) else None
                    scalar_idx = idx is None or isinstance(idx, (ast.Constant, ast.Slice)) or (isinstance(idx, ast.Name) and idx.id in fi.all_param_names() and not any(
                        isinstance(y, ast.Subscript) and astq.is_name(y.value, idx.id) for y in fi.body_nodes()))
                    if scalar_idx:
                        views[x.targets[0].id] = src.id if src.id in tables else views[src.id]
        for x in fi.body_nodes():
            tgt = None
            if isinstance(x, ast.Assign):
                for t in x.targets:
                    if isinstance(t, ast.Subscript) and isinstance(t.value, ast.Name) and t.value.id in views:
                        tgt = t
            elif isinstance(x, ast.AugAssign) and ((isinstance(x.target, ast.Subscript) and isinstance(x.target.value, ast.Name) and x.target.value.id in views)
                                                   or (isinstance(x.target, ast.Name) and x.target.id in views)):
                tgt = x.target
            if tgt is not None:
                nm = tgt.value.id if isinstance(tgt, ast.Subscript) else tgt.id
                ctx.bad(R, fi, x, "`%s` writes through `%s`, a view of the module-level table %s: the table is changed for every later call (other sample types and "
                        "bit shifts that share it decode differently afterwards)" % (astq.text(x)[:60], nm, views[nm]),
                        "the decoder never writes to the module's look-up tables", robust=True)
    ctx.floor(R + "/decoder-functions", n, 5)
    ctx.ok(R, m.rel, "the decoder keeps no state between calls and never writes to the module's look-up tables", "%d functions, tables %s" % (n, sorted(tables)))


# ------------------------------------------------------------------ constants
def module_consts(prog):
    m = prog.module("_sphere")
    out = {}
    for st in m.tree.body:
        if isinstance(st, ast.Assign):
            try:
                val = ast.literal_eval(st.value)
            except Exception:
                val = None
            names = []
            for t in st.targets:
                names.extend(x.id for x in astq.flatten_targets(t) if isinstance(x, ast.Name))
            if isinstance(st.value, ast.Tuple) and len(st.targets) == 1 and isinstance(st.targets[0], ast.Tuple):
                for t, v in zip(st.targets[0].elts, st.value.elts):
                    try:
                        out[t.id] = ast.literal_eval(v)
                    except Exception:
                        pass
            elif val is not None:
                for n in names:
                    out[n] = val
            else:
                v = _const_eval(st.value, out)
                if v is not None:
                    for n in names:
                        out[n] = v
    return out


def _const_eval(e, env):
    if isinstance(e, ast.Constant) and isinstance(e.value, int):
        return e.value
    if isinstance(e, ast.Name):
        return env.get(e.id) if isinstance(env.get(e.id), int) else None
    if isinstance(e, ast.BinOp):
        a, b = _const_eval(e.left, env), _const_eval(e.right, env)
        if a is None or b is None:
            return None
        if isinstance(e.op, ast.LShift):
            return a << b
        if isinstance(e.op, ast.Add):
            return a + b
        if isinstance(e.op, ast.Sub):
            return a - b
        if isinstance(e.op, ast.Mult):
            return a * b
    return None


# ----------------------------------------------------------------- R-C13-nep50
def _fmt_sign(fmt):
    chars = [c for c in fmt if c.isalpha()]
    if chars and all(c in SIGNED_FMT for c in chars):
        return "signed"
    if chars and all(c in UNSIGNED_FMT for c in chars):
        return "nonneg"
    return "unknown"


def nep50(ctx, f):
    prog = ctx.prog
    R = "R-C13-nep50"
    funcs = [f] + [n for n in f.nested.values() if hasattr(n, "params")]
    # variable tags, flow-insensitive over the function and its closures (shared names:
    # closure variables and function attributes such as uvar_get.gbuffer)
    tags = {}

    def key(fn, node):
        if isinstance(node, ast.Name):
            # closure variables resolve to the defining scope; names are unique enough here
            return node.id
        if isinstance(node, ast.Attribute):
            d = prog.dotted(node)
            return d
        return None

    def tag_of(fn, e):
        if isinstance(e, ast.Constant):
            if isinstance(e.value, bool):
                return {"nonneg"}
            if isinstance(e.value, int):
                return {"nonneg"} if e.value >= 0 else {"signed"}
            return {"other"}
        if isinstance(e, (ast.Name, ast.Attribute)):
            k = key(fn, e)
            if k in tags:
                return set(tags[k])
            consts = module_consts(prog)
            if isinstance(e, ast.Name) and e.id in consts and isinstance(consts[e.id], int):
                return {"nonneg"} if consts[e.id] >= 0 else {"signed"}
            return {"unknown"}
        if isinstance(e, ast.Call):
            q = prog.qualify(fn.module, e.func, fn)
            if q == "struct.unpack" and e.args and isinstance(e.args[0], ast.Constant) and isinstance(e.args[0].value, str):
                return {"tuple:" + _fmt_sign(e.args[0].value)}
            if q in ("numpy.empty", "numpy.zeros", "numpy.ones", "numpy.array", "numpy.full", "numpy.arange"):
                dt = astq.kw(e, "dtype")
                dq = prog.qualify(fn.module, dt, fn) if dt is not None else None
                if dq and dq.startswith("numpy.uint"):
                    return {"array:np_unsigned"}
                if dq and dq.startswith("numpy.int"):
                    return {"array:np_signed"}
                return {"array:unknown"}
            if isinstance(e.func, ast.Name) and e.func.id in f.nested:
                callee = f.nested[e.func.id]
                out = set()
                for r in astq.returns_of(callee):
                    out |= tag_of(callee, r.value) if r.value is not None else {"other"}
                return out or {"unknown"}
            if isinstance(e.func, ast.Name) and e.func.id in ("int", "len", "max", "min", "abs"):
                return {"nonneg"} if e.func.id == "len" else {"unknown"}
            return {"unknown"}
        if isinstance(e, ast.Subscript):
            base = tag_of(fn, e.value)
            out = set()
            for b in base:
                if b.startswith("array:"):
                    out.add(b[len("array:"):] if not isinstance(e.slice, ast.Slice) else b)
                elif b.startswith("tuple:"):
                    out.add(b[len("tuple:"):])
                elif b.startswith("list:"):
                    out.add(b[len("list:"):])
                else:
                    out.add("unknown")
            return out
        if isinstance(e, ast.BinOp):
            a, b = tag_of(fn, e.left), tag_of(fn, e.right)
            if isinstance(e.op, ast.Mult) and isinstance(e.left, ast.List):
                return {"list:" + t for t in tag_of(fn, e.left.elts[0])} if e.left.elts else {"list:unknown"}
            if isinstance(e.op, (ast.RShift, ast.LShift)):
                return a
            if isinstance(e.op, ast.BitAnd):
                if "nonneg" in a and len(a) == 1 or ("nonneg" in b and len(b) == 1):
                    return {"nonneg"} if not (("np_unsigned" in a) or ("np_unsigned" in b)) else {"np_unsigned"}
                return a | b
            return a | b
        if isinstance(e, ast.UnaryOp):
            if isinstance(e.op, ast.Invert):
                return {"signed"}
            if isinstance(e.op, ast.USub):
                return {"signed"}
            return tag_of(fn, e.operand)
        if isinstance(e, ast.List):
            out = set()
            for x in e.elts:
                out |= tag_of(fn, x)
            return {"list:" + t for t in (out or {"unknown"})}
        if isinstance(e, ast.Tuple):
            return {"unknown"}
        if isinstance(e, ast.IfExp):
            return tag_of(fn, e.body) | tag_of(fn, e.orelse)
        return {"unknown"}

    # fixpoint over assignments
    for _ in range(6):
        changed = False
        for fn in funcs:
            for n in fn.body_nodes():
                pairs = []
                if isinstance(n, ast.Assign):
                    for t in n.targets:
                        if isinstance(t, ast.Tuple) and len(t.elts) == 1:
                            vt = tag_of(fn, n.value)
                            pairs.append((t.elts[0], {x[len("tuple:"):] if x.startswith("tuple:") else "unknown" for x in vt}))
                        elif isinstance(t, ast.Subscript):
                            k = key(fn, t.value)
                            if k in tags and any(x.startswith("list:") for x in tags[k]):
                                vt = tag_of(fn, n.value)
                                new = set(tags[k]) | {"list:" + x for x in vt}
                                if new != tags[k]:
                                    tags[k] = new
                                    changed = True
                        else:
                            pairs.append((t, tag_of(fn, n.value)))
                elif isinstance(n, ast.AugAssign):
                    pairs.append((n.target, tag_of(fn, n.value) | tag_of(fn, n.target)))
                for t, vt in pairs:
                    k = key(fn, t)
                    if k is None:
                        continue
                    new = set(tags.get(k, set())) | vt
                    new.discard("unknown") if len(new) > 1 and k in tags else None
                    if new != tags.get(k):
                        tags[k] = new
                        changed = True
        if not changed:
            break
    n_ops = 0
    reader = [fn for fn in funcs if fn.name in ("uvar_get", "word_get", "var_get", "ulong_get")]
    ctx.need(len(reader) >= 3, R, "bit-reader closures (word_get, uvar_get, var_get) not found")
    for fn in reader:
        for n in fn.body_nodes():
            ops = []
            if isinstance(n, ast.BinOp):
                ops.append((n.left, n.right, n))
            elif isinstance(n, ast.AugAssign):
                ops.append((n.target, n.value, n))
            elif isinstance(n, ast.Compare):
                for a, b in zip([n.left] + n.comparators[:-1], n.comparators):
                    ops.append((a, b, n))
            for a, b, node in ops:
                ta, tb = tag_of(fn, a), tag_of(fn, b)
                n_ops += 1
                bad = ("np_unsigned" in ta and "signed" in tb) or ("np_unsigned" in tb and "signed" in ta)
                if bad:
                    ctx.bad(R, fn, node,
                            "an unsigned NumPy scalar (%s) meets a python int that may be negative (%s, unpacked with a signed "
                            "struct format); under NumPy >= 2 this raises OverflowError on the first negative word"
                            % (astq.text(a if "np_unsigned" in ta else b), astq.text(b if "np_unsigned" in ta else a)),
                            "no unsigned-NumPy / negative-python-int arithmetic in the bit reader")
    ctx.floor(R, n_ops, 15)
    ctx.ok(R, f.loc(), "%d binary operations of the bit reader typed; none mixes np.uint with a signed python int" % n_ops)
    ctx.info["bit_reader_types"] = {k: sorted(v) for k, v in tags.items() if k in ("gbuffer", "buffer", "masktab", "uvar_get.gbuffer", "result", "val")}


# -------------------------------------------------------------- R-C13-commands
def _main_loop(ctx, f, R):
    loops = [n for n in f.node.body if isinstance(n, ast.While)]
    ctx.need(len(loops) == 1, R, "command interpreter loop not found")
    return loops[0]


def _names_in_test(test, var):
    """constants X such that the test is `var == X` or `var in {X, ...}`"""
    if isinstance(test, ast.Compare) and len(test.ops) == 1 and astq.is_name(test.left, var):
        c = test.comparators[0]
        if isinstance(test.ops[0], ast.Eq) and isinstance(c, ast.Name):
            return [c.id]
        if isinstance(test.ops[0], ast.In) and isinstance(c, (ast.Set, ast.Tuple, ast.List)):
            return [e.id for e in c.elts if isinstance(e, ast.Name)]
    return None


def commands(ctx, f):
    prog = ctx.prog
    R = "R-C13-commands"
    consts = module_consts(prog)
    fn_consts = {k: v for k, v in consts.items() if k.startswith("FN_")}
    ctx.need(set(fn_consts) >= ALL_CMDS, R, "FN_* constants missing: %s" % sorted(ALL_CMDS - set(fn_consts)))
    vals = sorted(fn_consts.values())
    ctx.check(len(set(vals)) == len(vals), R, "_sphere", "FN_* constants", "command codes are pairwise distinct",
              "two shorten commands share a code: %s" % fn_consts) if False else None
    if len(set(vals)) != len(vals):
        ctx.bad(R, "_sphere", "FN_* constants", "two shorten commands share a code: %s" % fn_consts, module=prog.module("_sphere"))
    else:
        ctx.ok(R, "src/pydrobert/speech/_sphere.py", "the %d FN_* command codes are pairwise distinct" % len(vals))
    ref = {"FN_DIFF0": 0, "FN_DIFF1": 1, "FN_DIFF2": 2, "FN_DIFF3": 3, "FN_QUIT": 4, "FN_BLOCKSIZE": 5, "FN_BITSHIFT": 6, "FN_QLPC": 7, "FN_ZERO": 8}
    for k, v in ref.items():
        if fn_consts.get(k) != v:
            ctx.bad(R, "_sphere", "%s = %s" % (k, fn_consts.get(k)), "%s is %s but the shorten bit stream encodes it as %d" % (k, fn_consts.get(k), v),
                    module=prog.module("_sphere"))
        else:
            ctx.ok(R, "src/pydrobert/speech/_sphere.py", "%s == %d as in the shorten format" % (k, v))
    loop = _main_loop(ctx, f, R)
    # dispatch chain on `cmd`
    handled = {}
    chain = [s for s in loop.body if isinstance(s, ast.If)]
    top = []
    for s in chain:
        cur = s
        while True:
            names = _names_in_test(cur.test, "cmd")
            if names is None:
                break
            top.append((names, cur))
            if len(cur.orelse) == 1 and isinstance(cur.orelse[0], ast.If):
                cur = cur.orelse[0]
            else:
                final_else = cur.orelse
                break
    ctx.need(top, R, "dispatch on cmd not recognised")
    for names, node in top:
        for n in names:
            handled.setdefault(n, []).append(node)
    ok_else = len(final_else) == 1 and isinstance(final_else[0], ast.Raise) and astq.is_name(final_else[0].exc, "error")
    ctx.check(ok_else, R, f, final_else[0] if final_else else MISSING(loop), "an unknown command raises the caller's error",
              "the dispatch does not end in `else: raise error`; an unknown command would be ignored or mis-decoded")
    # the command number is an unbounded Rice code: until the dispatch has placed it, it may only be compared
    pm = astq.parents(f)
    what_cmp = "the command number is only compared before the dispatch has recognised it (any other number reaches `raise error`)"
    n_use = 0
    for x in ast.walk(loop):
        if not (isinstance(x, ast.Name) and x.id == "cmd" and isinstance(x.ctx, ast.Load)):
            continue
        n_use += 1
        par = pm.get(id(x))
        if isinstance(par, ast.Compare):
            continue
        anc = list(astq.ancestors(pm, x))
        # inside a branch the dispatch chain selected, or under a test that bounds it
        guarded = any(isinstance(a, ast.If) and any(isinstance(y, ast.Name) and y.id == "cmd" for y in ast.walk(a.test)) and a.test not in anc for a in anc)
        caught = any(isinstance(a, ast.Try) and any(x in list(ast.walk(st)) for st in a.body) and any(
            h.type is None or any(t in astq.text(h.type) for t in ("IndexError", "KeyError", "LookupError", "Exception")) for h in a.handlers) for a in anc)
        if guarded or caught:
            continue
        use = None
        for a in anc:
            if isinstance(a, ast.Subscript) and any(y is x for y in ast.walk(a.slice)):
                use = "indexes %s" % astq.text(a.value)[:40]
                break
        if use is None and isinstance(par, ast.Call) and x in par.args and isinstance(par.func, ast.Attribute) and par.func.attr in ("get", "count", "index"):
            if par.func.attr == "get":
                continue
        if use is None:
            continue
        ctx.bad(R, f, astq.enclosing_stmt(pm, x), "the command number read from the stream %s before the dispatch has recognised it: a number outside the command set "
                "fails there (IndexError / a wrong slot) instead of reaching `raise error`" % use, what_cmp, robust=True)
    ctx.ok(R, f.loc(loop), what_cmp, "%d use(s) of cmd inspected" % n_use)
    for c in sorted(ALL_CMDS):
        ctx.check(len(handled.get(c, [])) == 1, R, f, loop, "%s is dispatched exactly once" % c,
                  "%s is handled %d times by the command dispatch" % (c, len(handled.get(c, []))))
    extra = set(handled) - ALL_CMDS
    ctx.check(not extra, R, f, loop, "no command outside the shorten command set is dispatched", "unexpected commands dispatched: %s" % sorted(extra))
    # QUIT leaves the loop
    for names, node in top:
        if names == ["FN_QUIT"]:
            ctx.check(len(node.body) == 1 and isinstance(node.body[0], ast.Break), R, f, node, "QUIT ends decoding", "FN_QUIT does not break out of the loop")
    # inner chain of the block branch
    block = [node for names, node in top if set(names) == BLOCK_CMDS]
    ctx.check(len(block) == 1, R, f, loop, "the block commands are exactly ZERO, DIFF0-3 and QLPC",
              "block-command set is %s" % [sorted(n) for n, _ in top if len(n) > 1])
    if len(block) != 1:
        return
    inner = None
    for s in block[0].body:
        if isinstance(s, ast.If) and _names_in_test(s.test, "cmd") == ["FN_ZERO"]:
            inner = s
    ctx.need(inner is not None, R, "predictor dispatch (if cmd == FN_ZERO ...) not found")
    explicit = []
    cur = inner
    while True:
        explicit += _names_in_test(cur.test, "cmd") or []
        if len(cur.orelse) == 1 and isinstance(cur.orelse[0], ast.If) and _names_in_test(cur.orelse[0].test, "cmd"):
            cur = cur.orelse[0]
        else:
            break
    rest = BLOCK_CMDS - set(explicit)
    ctx.check(rest == {"FN_QLPC"} and len(explicit) == len(set(explicit)) and bool(cur.orelse), R, f, inner,
              "each predictor has its own branch; the final else can only be QLPC",
              "predictor dispatch handles %s explicitly, leaving %s for the else branch" % (explicit, sorted(rest)))
    # types
    type_consts = {k: v for k, v in consts.items() if k.startswith("TYPE_") and k not in ("TYPE_EOF", "TYPE_GENERIC_ULAW", "TYPESIZE")}
    eof = consts.get("TYPE_EOF")
    classes = {}
    means = [n for n in f.node.body if isinstance(n, ast.If) and _names_in_test(n.test, "ftype")]
    ctx.need(len(means) == 1, R, "initial-mean dispatch on ftype not found")
    cur = means[0]
    while True:
        for n in _names_in_test(cur.test, "ftype") or []:
            classes.setdefault(n, 0)
            classes[n] += 1
        if len(cur.orelse) == 1 and isinstance(cur.orelse[0], ast.If):
            cur = cur.orelse[0]
        else:
            tail = cur.orelse
            break
    ok_tail = len(tail) == 1 and isinstance(tail[0], ast.Raise)
    # by value: the initial running mean of every sample type below TYPE_EOF (8 for unsigned bytes, 0x8000 for unsigned
    # 16-bit words, 0 otherwise), however the dispatch is spelt
    decided = _initial_means(ctx, R, f, type_consts, eof, consts)
    for t, v in sorted(type_consts.items()):
        if v < eof and not decided:
            ctx.check(classes.get(t, 0) == 1 or (classes.get(t, 0) == 0 and ok_tail), R, f, means[0],
                      "%s has exactly one initial-mean class (or raises)" % t, "%s appears in %d initial-mean classes" % (t, classes.get(t, 0)), structural=True)
    # ftype >= TYPE_EOF rejected
    rej = [n for n in f.node.body if isinstance(n, ast.If) and isinstance(n.test, ast.Compare) and astq.is_name(n.test.left, "ftype")
           and isinstance(n.test.ops[0], ast.GtE) and n.body and isinstance(n.body[0], ast.Raise)]
    okr = bool(rej) and ((isinstance(rej[0].test.comparators[0], ast.Constant) and rej[0].test.comparators[0].value == eof)
                         or astq.is_name(rej[0].test.comparators[0], "TYPE_EOF"))
    ctx.check(okr, R, f, rej[0] if rej else MISSING(f.node), "a sample type at or beyond TYPE_EOF is rejected", "ftype >= TYPE_EOF is not rejected")
    # versions
    ev = SymEval(prog, f, rename={}).run()
    # raises decided by the version byte alone, evaluated for every value class of the signed byte
    vr = []
    vname = ast.parse("version", mode="eval").body
    for g, r in ev.raises:
        try:
            ve = ev.eval_at(r, vname)
        except Exception:
            ve = None
        if ve is not None and ve.op != "sym":
            g = S.subst(g, {ve: S.sym("version")})
        syms = set(S.symbols(g))
        opaque = any(x.op == "call" and not (isinstance(x.args[0], str) and x.args[0] in ("set", "tuple", "list")) for x in S.walk(g))
        if "version" in syms and not opaque and all(x == "version" or x.split(".")[-1] in consts for x in syms):
            vr.append((g, r))
    ctx.check(bool(vr), R, f, f.node, "a version outside [MIN, MAX]_SUPPORTED_VERSION raises", "no raise is conditioned on the version byte")
    if vr:
        for v in (-128, -1, 0, 1, 2, 3, 127):
            env = {"version": Fraction(v)}
            for g, r in vr:
                for x in S.symbols(g):
                    if x != "version":
                        env[x] = Fraction(consts[x.split(".")[-1]])
            try:
                rejected = any(S.truthy(S.lift(S.evaluate(g, env))) if not isinstance(S.evaluate(g, env), bool) else S.evaluate(g, env) for g, r in vr)
            except S.Inconclusive as e:
                raise AnalysisError("%s: cannot evaluate the version guard at version=%d: %s" % (R, v, e))
            want = v not in (1, 2)
            ctx.check(rejected == want, R, f, vr[0][1], "a stream with version byte %d is %s" % (v, "rejected" if want else "decoded"),
                      "a stream whose version byte is %d is %s (the byte is read as signed, so 0 and 0x80..0xff are versions the decoder does not know); "
                      "only versions 1 and 2 may be decoded, anything else must raise" % (v, "rejected" if rejected else "decoded as if it were version 1"))
    ctx.check(consts.get("MIN_SUPPORTED_VERSION") == 1 and consts.get("MAX_SUPPORTED_VERSION") == 2, R, f, f.node,
              "supported shorten versions are 1..2", "supported version range is %s..%s" % (consts.get("MIN_SUPPORTED_VERSION"), consts.get("MAX_SUPPORTED_VERSION")))


# ------------------------------------------------------------------- R-C13-eof
def eof(ctx, f):
    prog = ctx.prog
    R = "R-C13-eof"
    wg = prog.nested(f, "word_get")
    ev = SymEval(prog, wg).run()
    ok = any("< 4" in S.show(g) for g, r in ev.raises) and all(astq.is_name(r.exc, "error") for g, r in ev.raises)
    ctx.check(ok and len(ev.raises) >= 1, R, wg, wg.node, "the word reader raises the caller's error when fewer than 4 bytes remain",
              "word_get does not raise `error` under len(inpbuf) < 4")
    # the refill precedes the check: the raise is inside the refill branch after reading
    reads = [c for c in astq.func_calls(wg) if astq.attr_call(c, "read")]
    ctx.check(len(reads) == 1, R, wg, wg.node, "the reader refills from the stream before giving up", "word_get no longer refills from the stream")
    for name in ("_sphere.copy_shortened_samples", "_sphere.copy_samples", "_sphere.sphere_read_signal"):
        g = prog.func(name)
        tries = [n for n in g.body_nodes() if isinstance(n, ast.Try)]
        for fn in g.nested.values():
            if hasattr(fn, "body_nodes"):
                tries += [n for n in fn.body_nodes() if isinstance(n, ast.Try)]
        ctx.check(not tries, R, g, tries[0] if tries else MISSING(g.node), "no exception handler between the bit reader and read_signal in %s" % g.name,
                  "%s contains a try/except that can swallow the premature-end error" % g.name)
    us = prog.func("util.read_signal")
    sph = [n for n in us.body_nodes() if isinstance(n, ast.Call) and isinstance(n.func, ast.Name) and n.func.id == "sphere_read_signal"]
    pm = astq.parents(us)
    for c in sph:
        ctx.check(not any(isinstance(a, ast.Try) for a in astq.ancestors(pm, c)), R, us, c, "read_signal does not wrap the sphere reader in try/except")


# ------------------------------------------------------------ R-C13-predictors
def _branch_of(f, inner_cmd):
    """statement list of the predictor branch for a command constant"""
    R = "R-C13-predictors"
    for n in f.body_nodes():
        if isinstance(n, ast.If) and _names_in_test(n.test, "cmd") == [inner_cmd]:
            return n.body
    return None


def _initial_means(ctx, R, f, type_consts, eof, consts):
    from .. import scenario as SC
    prog = ctx.prog
    disp = [n for n in f.node.body if isinstance(n, ast.If) and any(isinstance(x, ast.Assign) and astq.is_name(x.targets[0], "mean") for x in ast.walk(n))]
    if len(disp) != 1:
        return False
    try:
        ev = cc.body_eval(prog, f, [disp[0]])
    except Exception:
        return False
    val = ev.env.get("mean")
    if val is None:
        return False
    modq = f.module.name
    want = {"TYPE_U8": 8, "TYPE_U16HL": 0x8000, "TYPE_U16LH": 0x8000}

    def at(e, v):
        def fn(x):
            if x.op == "sym":
                nm = x.args[0]
                if nm == "ftype":
                    return S.lift(v)
                short = nm.rsplit(".", 1)[-1]
                if nm.startswith(modq + ".") and short in consts and isinstance(consts[short], int):
                    return S.lift(consts[short])
                return None
            r = SC.fold_membership(x)
            return r
        return SC.transform(e, fn)
    what = "the running mean starts at 8 for unsigned bytes, 0x8000 for unsigned 16-bit words and 0 for every other sample type"
    n_ok = 0
    for t, v in sorted(type_consts.items()):
        if not (isinstance(v, int) and v < eof):
            continue
        got = at(val, v)
        rs = [at(g, v) for g, _ in ev.raises]
        if not got.is_const and not all(r.is_const for r in rs):
            return False
        raised = any(r.is_const and S.truthy(r) for r in rs)
        if any(not r.is_const for r in rs) or (not raised and not got.is_const):
            return False
        w = want.get(t, 0)
        if raised:
            ctx.bad(R, f, disp[0], "a stream of sample type %s (%d) is rejected where its running mean is set up, although the type is below TYPE_EOF" % (t, v), what)
        elif int(got.value) != w:
            ctx.bad(R, f, disp[0], "the running mean of sample type %s (%d) starts at %s, not %d" % (t, v, S.show(got), w), what)
        else:
            n_ok += 1
    if n_ok:
        ctx.ok(R, f.loc(disp[0]), what, "%d sample types evaluated" % n_ok)
    return True


def _qlpc_scaling(ctx, R, f, samp):
    """QLPC sample = residual + floor(prediction / 2^LPCQUANT): the scaling rounds towards minus infinity (an arithmetic right
    shift), also for negative predictions.  The stored value is evaluated for predictions on both sides of zero."""
    prog = ctx.prog
    what = "QLPC sample = residual + (prediction >> LPCQUANT), rounding towards minus infinity"
    last = samp.body[-1]
    if not (isinstance(last, ast.Assign) and astq.text(last.targets[0]).replace(" ", "") == "cbuffer[%s]" % (samp.target.id if isinstance(samp.target, ast.Name) else "i")):
        ctx.error(R, "cannot decide %s: the sample loop does not end with the store of the new sample" % what)
        return
    consts = module_consts(prog)
    q = consts.get("LPCQUANT")
    # the expression with the prediction and the residual as free variables
    import copy
    expr = copy.deepcopy(last.value)
    resid_calls = [c for c in ast.walk(expr) if isinstance(c, ast.Call) and astq.is_name(c.func, "var_get")]
    if len(resid_calls) != 1 or not isinstance(q, int):
        ctx.error(R, "cannot decide %s: %s" % (what, astq.text(last)[:80]))
        return

    class Sub(ast.NodeTransformer):
        def visit_Call(self, node):
            if node is resid_calls[0]:
                return ast.copy_location(ast.Name(id="__resid", ctx=ast.Load()), node)
            return self.generic_visit(node)
    expr = Sub().visit(expr)
    names = {x.id for x in ast.walk(expr) if isinstance(x, ast.Name)}
    pred = [n_ for n_ in names if n_ not in ("__resid", "LPCQUANT", "V2LPCQOFFSET", "int", "float", "c99_div", "np", "numpy")]
    if len(pred) != 1:
        ctx.error(R, "cannot decide %s: free names %s in %s" % (what, sorted(pred), astq.text(last)[:80]))
        return
    ALLOWED = (ast.Expression, ast.BinOp, ast.UnaryOp, ast.Name, ast.Constant, ast.Load, ast.Add, ast.Sub, ast.Mult, ast.FloorDiv, ast.Div, ast.RShift, ast.LShift,
               ast.USub, ast.Call, ast.Pow)
    if not all(isinstance(x, ALLOWED) for x in ast.walk(expr)) or any(
            isinstance(x, ast.Call) and not (isinstance(x.func, ast.Name) and x.func.id in ("int", "float", "c99_div")) for x in ast.walk(expr)):
        ctx.error(R, "cannot decide %s: %s" % (what, astq.text(last)[:80]))
        return
    # the package's own c99_div is int(float(a) / b): truncation towards zero (read from its definition, not assumed)
    cd = f.module.functions.get("c99_div")
    c99 = None
    if cd is not None:
        body = [b for b in cd.node.body if not (isinstance(b, ast.Expr) and isinstance(b.value, ast.Constant))]
        if len(body) == 1 and isinstance(body[0], ast.Return) and astq.text(body[0].value).replace(" ", "") in ("int(float(a)/b)", "int(a/b)"):
            c99 = lambda a, b: int(float(a) / b)
    if any(isinstance(x, ast.Name) and x.id == "c99_div" for x in ast.walk(expr)) and c99 is None:
        ctx.error(R, "cannot decide %s: c99_div is not the documented int(float(a) / b)" % what)
        return
    def fold(n, env):
        """integer / float arithmetic over the whitelisted node kinds"""
        if isinstance(n, ast.Constant):
            return n.value
        if isinstance(n, ast.Name):
            return env[n.id]
        if isinstance(n, ast.UnaryOp):
            return -fold(n.operand, env)
        if isinstance(n, ast.BinOp):
            a, b = fold(n.left, env), fold(n.right, env)
            return {ast.Add: lambda: a + b, ast.Sub: lambda: a - b, ast.Mult: lambda: a * b, ast.FloorDiv: lambda: a // b, ast.Div: lambda: a / b,
                    ast.RShift: lambda: a >> b, ast.LShift: lambda: a << b, ast.Pow: lambda: a ** b}[type(n.op)]()
        if isinstance(n, ast.Call):
            args = [fold(a, env) for a in n.args]
            return env[n.func.id](*args)
        raise ValueError(type(n).__name__)
    for p_ in (-97, -64, -33, -32, -31, -1, 0, 1, 31, 32, 33, 1000):
        env = {"int": int, "float": float, "c99_div": c99, "LPCQUANT": q, "V2LPCQOFFSET": consts.get("V2LPCQOFFSET"), "__resid": 7, pred[0]: p_}
        try:
            got = fold(expr, env)
        except Exception as e:
            ctx.error(R, "cannot decide %s: %r" % (what, e))
            return
        want = 7 + (p_ >> q)
        if got != want:
            ctx.bad(R, f, last, "for a prediction of %d the sample stored is residual + %d, the format says residual + %d (%d >> %d): `%s` does not round towards minus "
                    "infinity for negative predictions, and the error feeds back through the predictor's history" % (p_, got - 7, want - 7, p_, q, astq.text(last.value)[:60]),
                    what, robust=True)
            return
    ctx.ok(R, f.loc(last), what, "scaling evaluated for 12 predictions on both sides of zero")


def predictors(ctx, f):
    prog = ctx.prog
    R = "R-C13-predictors"
    expected = {"FN_DIFF1": 1, "FN_DIFF2": 2, "FN_DIFF3": 3}
    i = S.sym("i")

    def cb(k):
        return S.call("getitem", S.sym("cbuffer"), S.sub(i, S.lift(k)))

    for cmd, order in expected.items():
        body = _branch_of(f, cmd)
        ctx.need(body is not None and len(body) == 1 and isinstance(body[0], ast.For), R, "%s branch is not a single sample loop" % cmd)
        loop = body[0]
        it = astq.text(loop.iter).replace(" ", "")
        ctx.check(it in ("range(nwrap,blocksize+nwrap)", "range(nwrap,nwrap+blocksize)"), R, f, loop,
                  "%s fills samples nwrap .. nwrap+blocksize-1 in order" % cmd, "%s iterates %s" % (cmd, astq.text(loop.iter)))
        ev = cc.body_eval(prog, f, loop.body)
        val = ev.env.get("cbuffer[i]")
        ctx.need(val is not None, R, "%s body does not store cbuffer[i]" % cmd)
        resid = S.call("_sphere.copy_shortened_samples.<locals>.var_get", S.sym("resn"))
        want = resid
        for j in range(1, order + 1):
            want = S.add(want, S.mul(S.lift((-1) ** (j + 1) * comb(order, j)), cb(j)))
        res = S.compare(val, want)
        coeffs = [(-1) ** (j + 1) * comb(order, j) for j in range(1, order + 1)]
        if res["verdict"] == "equal":
            ctx.ok(R, f.loc(loop), "%s is residual + %s . history (binomial predictor of order %d)" % (cmd, coeffs, order))
        elif res["verdict"] == "differ" or True:
            ctx.bad(R, f, loop, "%s computes %s; the order-%d polynomial predictor is residual + %s applied to x[i-1..i-%d]"
                    % (cmd, S.canon(val), order, coeffs, order), "%s is the binomial predictor" % cmd)
        # exactly one residual is consumed per sample
        n_res = sum(1 for c in astq.calls_in(loop) if astq.is_name(c.func, "var_get"))
        ctx.check(n_res == 1, R, f, loop, "%s reads exactly one residual per sample" % cmd, "%s reads %d residuals per sample" % (cmd, n_res))
    # DIFF0: residual + running mean
    body = _branch_of(f, "FN_DIFF0")
    ctx.need(body is not None and len(body) == 1 and isinstance(body[0], ast.For), R, "FN_DIFF0 branch is not a single sample loop")
    ev = cc.body_eval(prog, f, body[0].body)
    val = ev.env.get("cbuffer[i]")
    want = S.add(S.call("_sphere.copy_shortened_samples.<locals>.var_get", S.sym("resn")), S.sym("coffset"))
    ctx.check(val is not None and S.compare(val, want)["verdict"] == "equal", R, f, body[0], "DIFF0 is residual + running mean",
              "FN_DIFF0 computes %s, not var_get(resn) + coffset" % (S.canon(val) if val is not None else None))
    # ZERO
    body = _branch_of(f, "FN_ZERO")
    ok = body is not None and len(body) == 1 and isinstance(body[0], ast.Assign) and isinstance(body[0].value, ast.Constant) and body[0].value.value == 0 \
        and astq.in_texts(body[0].targets[0], ("cbuffer[nwrap:blocksize+nwrap]", "cbuffer[nwrap:nwrap+blocksize]",))
    ctx.check(ok, R, f, body[0] if body else MISSING(f.node), "ZERO fills the block with zeros", "FN_ZERO does not zero cbuffer[nwrap:nwrap+blocksize]")
    # QLPC: the else branch of the DIFF3 test
    d3 = [n for n in f.body_nodes() if isinstance(n, ast.If) and _names_in_test(n.test, "cmd") == ["FN_DIFF3"]]
    ctx.need(len(d3) == 1 and d3[0].orelse, R, "QLPC branch not found")
    q = d3[0].orelse
    loops = [s for s in q if isinstance(s, ast.For)]
    ctx.need(len(loops) == 2, R, "QLPC branch no longer has a coefficient loop and a sample loop")
    coefloop, samp = loops
    ok = astq.text(coefloop.iter) == "range(nlpc)" and len(coefloop.body) == 1 and astq.eq_text(coefloop.body[0], "qlpc[i]=var_get(LPCQUANT)")
    ctx.check(ok, R, f, coefloop, "nlpc quantised coefficients are read with LPCQUANT bits each", "QLPC coefficient loop is %s" % astq.text(coefloop))
    inner = [s for s in samp.body if isinstance(s, ast.For)]
    if len(inner) != 1:
        # vectorised prediction: an inner product of coefficient and history slices - both must span exactly the block's own nlpc taps
        prods = [x for x in ast.walk(samp) if (isinstance(x, ast.BinOp) and isinstance(x.op, ast.MatMult)) or
                 (isinstance(x, ast.Call) and (prog.qualify(f.module, x.func, f) or "") in ("numpy.dot", "numpy.inner", "numpy.vdot"))]
        ctx.need(len(prods) == 1, R, "QLPC inner prediction loop not found")
        pr = prods[0]
        ops = [pr.left, pr.right] if isinstance(pr, ast.BinOp) else list(pr.args[:2])
        def _unrev(o):
            # x[a:b][::-1] (most recent sample first) spans the same samples as x[a:b]
            if (isinstance(o, ast.Subscript) and isinstance(o.slice, ast.Slice) and o.slice.lower is None and o.slice.upper is None
                    and isinstance(o.value, ast.Subscript) and isinstance(o.value.slice, ast.Slice)):
                return o.value
            return o
        n_rev = sum(1 for o in ops if _unrev(o) is not o)
        ops = [_unrev(o) for o in ops]
        hist = [o for o in ops if isinstance(o, ast.Subscript) and astq.base_name(o) == "cbuffer" and isinstance(o.slice, ast.Slice)]
        ctx.need(len(hist) == 1 and hist[0].slice.lower is not None and hist[0].slice.upper is not None, R, "history slice of the vectorised QLPC prediction not recognised")
        evv = SymEval(prog, f)
        evv.env = {}
        width = S.sub(evv.expr(hist[0].slice.upper), evv.expr(hist[0].slice.lower))
        r_ = S.compare(width, S.sym("nlpc"), domain={})
        if r_["verdict"] != "equal":
            ctx.bad(R, f, samp, "the QLPC prediction is an inner product over %s history samples, not over the block's own nlpc: coefficients left in the table by "
                    "an earlier block of higher order (on any channel) act as extra taps whenever a later block uses a lower order" % S.show(width)[:60],
                    "QLPC prediction is lpcqoffset + sum_j qlpc[j] * x[i-j-1] over j < nlpc")
            return
        # tap order: coefficient j meets sample i - j - 1, i.e. exactly one of the two slices is walked backwards, and the
        # coefficients are the first nlpc of the table
        coef = [o for o in ops if o is not hist[0]]
        cw = None
        if len(coef) == 1 and isinstance(coef[0], ast.Subscript) and astq.base_name(coef[0]) == "qlpc" and isinstance(coef[0].slice, ast.Slice) and coef[0].slice.step is None:
            lo_ = coef[0].slice.lower
            if (lo_ is None or (isinstance(lo_, ast.Constant) and lo_.value == 0)) and coef[0].slice.upper is not None:
                cw = evv.expr(coef[0].slice.upper)
        upper_is_i = astq.text(hist[0].slice.upper) == samp.target.id if isinstance(samp.target, ast.Name) else False
        if cw is None or S.compare(cw, S.sym("nlpc"), domain={})["verdict"] != "equal" or not upper_is_i:
            raise AnalysisError("%s: vectorised QLPC prediction over nlpc taps: operands not modelled" % R)
        if n_rev != 1:
            ctx.bad(R, f, samp, "the vectorised QLPC prediction pairs coefficient j with history sample i - nlpc + j (%s slices reversed): the most recent sample must "
                    "meet the first coefficient" % ("both" if n_rev == 2 else "neither of the"), "QLPC prediction is lpcqoffset + sum_j qlpc[j] * x[i-j-1] over j < nlpc")
            return
        ctx.ok(R, f.loc(samp), "QLPC prediction is lpcqoffset + sum_j qlpc[j] * x[i-j-1] over j < nlpc", "vectorised: inner product of qlpc[:nlpc] with the reversed history")
        _qlpc_scaling(ctx, R, f, samp)
        return
    evq = cc.body_eval(prog, f, samp.body)
    s_val = evq.env.get("sum")
    j = S.sym("@elem")
    ok = s_val is not None and cc.is_call(s_val, "fold")
    if ok:
        it, tmpl, init = s_val.args[1], s_val.args[2], s_val.args[3]
        want_t = S.add(S.sym("@acc"), S.mul(S.call("getitem", S.sym("qlpc"), j), S.call("getitem", S.sym("cbuffer"), S.sub(S.sub(i, j), S.lift(1)))))
        ok = S.compare(tmpl, want_t)["verdict"] == "equal" and init == S.sym("lpcqoffset") and S.show(it) == "range(nlpc)"
    else:
        # augmented-assignment loop (sum += ...) is not a fold; analyse its body directly
        jj = S.sym(inner[0].target.id)
        # counters stepped by a constant on every round of the inner loop (`k = i` before it, `k -= 1` inside): at the top of round j the
        # counter is its initial value plus j steps
        evi = SymEval(prog, f)
        evi.env = {}
        for st_ in inner[0].body:
            if isinstance(st_, ast.AugAssign) and isinstance(st_.target, ast.Name) and isinstance(st_.op, (ast.Add, ast.Sub)) \
                    and isinstance(st_.value, ast.Constant) and isinstance(st_.value.value, int) and st_.target.id != "sum":
                inits_ = [s_ for s_ in samp.body if isinstance(s_, ast.Assign) and astq.is_name(s_.targets[0], st_.target.id) and s_.lineno < inner[0].lineno]
                if len(inits_) == 1:
                    ev0_ = SymEval(prog, f)
                    ev0_.env = {}
                    step_ = S.lift(st_.value.value if isinstance(st_.op, ast.Add) else -st_.value.value)
                    evi.env[st_.target.id] = S.add(ev0_.expr(inits_[0].value), S.mul(step_, jj))
        evi.block(inner[0].body)
        t = evi.env.get("sum")
        want_t = S.add(S.sym("sum"), S.mul(S.call("getitem", S.sym("qlpc"), jj), S.call("getitem", S.sym("cbuffer"), S.sub(S.sub(i, jj), S.lift(1)))))
        ok = t is not None and S.compare(t, want_t)["verdict"] == "equal" and astq.text(inner[0].iter) == "range(nlpc)"
        init = [s for s in samp.body if isinstance(s, ast.Assign) and astq.is_name(s.targets[0], "sum")]
        ok = ok and len(init) == 1 and astq.text(init[0].value) == "lpcqoffset"
    ctx.check(ok, R, f, samp, "QLPC prediction is lpcqoffset + sum_j qlpc[j] * x[i-j-1] over j < nlpc",
              "QLPC accumulation is not lpcqoffset + sum_{j<nlpc} qlpc[j]*cbuffer[i-j-1]")
    _qlpc_scaling(ctx, R, f, samp)
    pre = [s for s in q if isinstance(s, ast.AugAssign) and isinstance(s.op, ast.Sub)]
    okp = len(pre) == 1 and astq.eq_text(pre[0].target, "cbuffer[nwrap-nlpc:nwrap]") and astq.text(pre[0].value) == "coffset"
    ctx.check(okp, R, f, pre[0] if pre else MISSING(samp), "QLPC removes the running mean from the nlpc history samples first",
              "QLPC does not subtract coffset from cbuffer[nwrap-nlpc:nwrap]")
    post = [s for s in ast.walk(ast.Module(body=q, type_ignores=[])) if isinstance(s, ast.AugAssign) and isinstance(s.op, ast.Add)
            and astq.text(s.value) == "coffset"]
    okq = len(post) == 1 and astq.in_texts(post[0].target, ("cbuffer[nwrap:blocksize+nwrap]", "cbuffer[nwrap:nwrap+blocksize]",))
    ctx.check(okq, R, f, post[0] if post else MISSING(samp), "QLPC adds the running mean back to the new block", "QLPC does not add coffset back to the block")
    # constants of the recursion
    consts = module_consts(prog)
    ctx.check(consts.get("LPCQUANT") == 5 and consts.get("V2LPCQOFFSET") == 32 and consts.get("NWRAP") == 3, R, f, f.node,
              "LPCQUANT = 5, V2LPCQOFFSET = 1 << LPCQUANT = 32, NWRAP = 3 as in shorten", "LPC constants are LPCQUANT=%s V2LPCQOFFSET=%s NWRAP=%s"
              % (consts.get("LPCQUANT"), consts.get("V2LPCQOFFSET"), consts.get("NWRAP")))
    nw = [n for n in f.node.body if isinstance(n, ast.Assign) and astq.is_name(n.targets[0], "nwrap")]
    ctx.check(len(nw) == 1 and astq.in_texts(nw[0].value, ("max(maxnlpc,NWRAP)", "max(NWRAP,maxnlpc)",)), R, f, nw[0] if nw else MISSING(f.node),
              "the history holds max(maxnlpc, NWRAP) samples", "nwrap is %s" % (astq.text(nw[0].value) if nw else None))


# ---------------------------------------------------------------- R-C13-mean
def _spec(prog, f, text, seed):
    ev = SymEval(prog, f, seed=seed)
    ev.env = {}
    return ev.expr(ast.parse(text, mode="eval").body)


def means(ctx, f):
    prog = ctx.prog
    R = "R-C13-mean"
    loop = _main_loop(ctx, f, R)
    block = [n for n in loop.body if isinstance(n, ast.If) and set(_names_in_test(n.test, "cmd") or []) >= {"FN_DIFF0", "FN_QLPC"}]
    ctx.need(len(block) == 1, R, "block-command branch not found")
    stmts = block[0].body
    rd_if = [s for s in stmts if isinstance(s, ast.If) and astq.text(s.test) == "nmean"]
    up_if = [s for s in stmts if isinstance(s, ast.If) and astq.in_texts(s.test, ("nmean>0", "nmean",))][-1:]
    ctx.need(len(rd_if) == 1 and up_if and up_if[0] is not rd_if[0], R, "running-mean read / update statements not found")
    c99 = "_sphere.c99_div"
    for ver in (1, 2):
        seed = {"version": ver}
        ev = cc.body_eval(prog, f, [rd_if[0]], seed=seed)
        # nmean truthy branch / falsy branch
        got = ev.env.get("coffset")
        ctx.need(got is not None, R, "coffset is not assigned by the running-mean read")
        want_t = _spec(prog, f, REF["coffset_v%d" % ver], seed)
        want_f = _spec(prog, f, REF["coffset_nomean"], seed)
        want = S.cond(S.sym("nmean"), want_t, want_f)
        ok = False
        for tests, leaf in cc.strip_cond(got):
            lbl = dict((S.show(t), l) for l, t in tests).get("nmean")
            w = want_t if lbl == "T" else want_f
            r = S.compare(leaf, w)
            ok = r["verdict"] == "equal"
            if not ok:
                ctx.bad(R, f, rd_if[0], "for shorten version %d the block's mean offset is %s; the reference decoder uses %s "
                        "(the stored means are in the unshifted domain and must be shifted down by the current bitshift)"
                        % (ver, S.canon(leaf), S.canon(w)), "mean offset read matches the reference (version %d)" % ver)
                break
        if ok:
            ctx.ok(R, f.loc(rd_if[0]), "version %d: mean offset read = %s" % (ver, REF["coffset_v%d" % ver]))
        ev2 = cc.body_eval(prog, f, up_if[0].body, seed=seed)
        key = [k for k in ev2.env if k.startswith("offset[") and "nmean" in k]
        ctx.need(len(key) == 1, R, "update of offset[chan, nmean - 1] not found")
        got2 = ev2.env[key[0]]
        want2 = _spec(prog, f, REF["newmean_v%d" % ver], seed)
        r = S.compare(got2, want2)
        if r["verdict"] == "equal":
            ctx.ok(R, f.loc(up_if[0]), "version %d: new block mean = %s" % (ver, REF["newmean_v%d" % ver]))
        else:
            ctx.bad(R, f, up_if[0], "for shorten version %d the stored block mean is %s; the reference decoder stores %s"
                    % (ver, S.canon(got2), S.canon(want2)), "block mean update matches the reference (version %d)" % ver)
    # history shift of the means: offset[chan, :nmean-1] = offset[chan, 1:nmean]
    sh = [s for s in up_if[0].body if isinstance(s, ast.Assign) and astq.eq_text(s.targets[0], "offset[chan,:nmean-1]")]
    ctx.check(len(sh) == 1 and astq.eq_text(sh[0].value, "offset[chan,1:nmean]"), R, f, sh[0] if sh else MISSING(up_if[0]),
              "older block means are shifted down by one before the new one is stored", "the block-mean history is not shifted as offset[chan, :nmean-1] = offset[chan, 1:nmean]", structural=True)
    # truncating division on possibly negative sums
    R2 = "R-C13-c-division"
    for s in [rd_if[0], up_if[0]]:
        for n in ast.walk(s):
            if isinstance(n, ast.BinOp) and isinstance(n.op, (ast.FloorDiv, ast.Div)) and any(isinstance(x, ast.Name) and x.id == "sum" for x in ast.walk(n.left)):
                ctx.bad(R2, f, n, "a possibly negative sum is divided with python's flooring `//` (or `/`); the format requires C's "
                        "truncating division (c99_div)", "sums are divided with c99_div")
    g = prog.func("_sphere.c99_div")
    rets = astq.returns_of(g)
    okd = len(rets) == 1 and astq.in_texts(rets[0].value, ("int(float(a)/b)", "int(a/b)",))
    ctx.check(okd, R2, g, rets[0] if rets else MISSING(g.node), "c99_div truncates toward zero", "c99_div is %s" % (astq.text(rets[0].value) if rets else None))
    ctx.ok(R2, f.loc(rd_if[0]), "running-mean sums are divided only through c99_div")


# ---------------------------------------------------------- R-C13-uniform-post
def uniform_post(ctx, f):
    prog = ctx.prog
    R = "R-C13-uniform-post"
    loop = _main_loop(ctx, f, R)
    blocks = [n for n in loop.body if isinstance(n, ast.If) and set(_names_in_test(n.test, "cmd") or []) >= {"FN_DIFF0", "FN_QLPC"}]
    ctx.need(len(blocks) == 1, R, "block-command branch not found")
    block = blocks[0]
    cfg = CFG(f.node)
    cd = cfg.control_deps()
    nb = cfg.node(block)
    wanted = {
        "history wrap": lambda s: isinstance(s, ast.Assign) and astq.eq_text(s.targets[0], "cbuffer[:nwrap]"),
        "fix_bitshift": lambda s: isinstance(s, ast.Expr) and isinstance(s.value, ast.Call) and astq.is_name(s.value.func, "fix_bitshift"),
        "channel advance": lambda s: isinstance(s, ast.Assign) and astq.is_name(s.targets[0], "chan"),
    }
    for what, pred in wanted.items():
        hits = [s for s in ast.walk(block) if isinstance(s, ast.stmt) and pred(s)]
        ctx.need(len(hits) >= 1, R, "%s statement not found in the block branch" % what)
        for s in hits[-1:]:
            n = cfg.node(s)
            deps = {d for d in cd.get(n, ()) if d != nb}
            cmd_deps = [cfg.stmt[d] for d in deps if isinstance(cfg.stmt[d], ast.If)
                        and any(isinstance(x, ast.Name) and x.id == "cmd" for x in ast.walk(cfg.stmt[d].test))]
            ctx.check(not cmd_deps and n in _loop_nodes(cfg, block), R, f, s, "%s is applied after every block command" % what,
                      "%s is skipped for some block commands (it is conditional on %s); blocks of that kind are stored without it"
                      % (what, astq.text(cmd_deps[0].test) if cmd_deps else "?"))
    # wrap copies the last nwrap samples of the block to the front
    wrap = [s for s in ast.walk(block) if isinstance(s, ast.Assign) and astq.eq_text(s.targets[0], "cbuffer[:nwrap]")][-1]
    wv = wrap.value
    if isinstance(wv, ast.Call) and isinstance(wv.func, ast.Attribute) and wv.func.attr == "copy" and not wv.args and not wv.keywords:
        wv = wv.func.value  # an explicit copy of the (overlapping) source: the same samples
    ctx.check(astq.in_texts(wv, ("cbuffer[blocksize:blocksize+nwrap]", "cbuffer[blocksize:nwrap+blocksize]",)), R, f, wrap,
              "the last nwrap samples become the next block's history", "history wrap copies %s" % astq.text(wrap.value))
    # interleave when the last channel is done
    def _last_channel_test(t):
        # chan == nchan - 1 in any arrangement of the equation (chan + 1 == nchan, nchan - 1 == chan, nchan == chan + 1 ...)
        if not (isinstance(t, ast.Compare) and len(t.ops) == 1 and isinstance(t.ops[0], ast.Eq)):
            return False
        try:
            ev_ = SymEval(prog, f)
            ev_.env = {}
            d_ = S.sub(ev_.expr(t.left), ev_.expr(t.comparators[0]))
            w_ = S.sub(S.sym("chan"), S.sub(S.sym("nchan"), S.ONE))
            return S.compare(d_, w_, domain={})["verdict"] == "equal" or S.compare(d_, S.neg(w_), domain={})["verdict"] == "equal"
        except Exception:
            return False
    il = [s for s in ast.walk(block) if isinstance(s, ast.If) and _last_channel_test(s.test)]
    ctx.check(len(il) == 1, R, f, block, "samples are emitted when the last channel of a block is decoded", "no `if chan == nchan - 1` emission step")
    if il:
        stores = [s for s in il[0].body if isinstance(s, ast.Assign) and astq.eq_text(s.targets[0], "data[:nitem]")]
        verdict = _interleave(stores[0].value) if stores else None
        if verdict is None:
            ctx.check(False, R, f, stores[0] if stores else MISSING(il[0]), "channels are interleaved sample by sample (transpose, flat)",
                      "emission is %s" % (astq.text(stores[0].value) if stores else None), structural=True)
        else:
            ctx.check(verdict, R, f, stores[0], "channels are interleaved sample by sample (transpose, flat)",
                      "emission is %s: the block is flattened channel by channel, not sample by sample" % astq.text(stores[0].value))
        ni = [s for s in il[0].body if isinstance(s, ast.Assign) and astq.is_name(s.targets[0], "nitem")]
        ctx.check(bool(ni) and astq.in_texts(ni[0].value, ("blocksize*nchan", "nchan*blocksize",)), R, f, ni[0] if ni else MISSING(il[0]),
                  "a block emits blocksize x nchan samples", structural=True)
    ch = [s for s in ast.walk(block) if isinstance(s, ast.Assign) and astq.is_name(s.targets[0], "chan")][-1]
    ctx.check(astq.eq_text(ch.value, "(chan+1)%nchan"), R, f, ch, "channels are decoded round-robin", "channel advance is %s" % astq.text(ch.value), structural=True)


def _interleave(e):
    """The emitted value is the (channels x samples) block flattened.  True: sample-major (all channels of sample 0, then of sample
    1 ...: what the data layout needs); False: channel-major; None: not a flattening of buffer[:, nwrap:nwrap+blocksize] this rule
    can read.  Flattening in C order after a transpose, or in Fortran order without one, is sample-major."""
    fortran = transposed = False
    flat = False
    for _ in range(6):
        if isinstance(e, ast.Attribute) and e.attr == "flat":
            flat, e = True, e.value
        elif isinstance(e, ast.Attribute) and e.attr == "T":
            transposed, e = not transposed, e.value
        elif isinstance(e, ast.Call) and isinstance(e.func, ast.Attribute) and e.func.attr in ("ravel", "flatten", "reshape", "transpose", "swapaxes", "copy"):
            a = e.func.attr
            base = e.func.value
            args = list(e.args)
            if isinstance(base, ast.Name) and base.id in ("np", "numpy") and args:
                base, args = args[0], args[1:]
            order = astq.kw(e, "order")
            if a in ("ravel", "flatten", "reshape"):
                if a == "reshape" and not (len(args) == 1 and astq.text(args[0]).replace(" ", "") in ("-1", "(-1,)")):
                    return None
                if a != "reshape" and args:
                    order = order or args[0]
                if order is not None:
                    if not (isinstance(order, ast.Constant) and order.value in ("C", "F")):
                        return None
                    fortran = order.value == "F"
                flat = True
            elif a == "transpose":
                if args and astq.text(args[0]).replace(" ", "") not in ("(1,0)", "1"):
                    return None
                transposed = not transposed
            elif a == "swapaxes":
                transposed = not transposed
            e = base
        else:
            break
    if not flat or not isinstance(e, ast.Subscript) or not astq.is_name(e.value, "buffer"):
        return None
    if astq.text(e.slice).replace(" ", "").strip("()") not in (":,nwrap:blocksize+nwrap", ":,nwrap:nwrap+blocksize"):
        return None
    return transposed != fortran


def _loop_nodes(cfg, block):
    return {cfg.node(s) for s in ast.walk(block) if isinstance(s, ast.stmt) and cfg.node(s) is not None}


SHORTEN_CONSTS = {
    # shorten 2.x format constants (shorten.h)
    "ULONGSIZE": 2, "NSKIPSIZE": 1, "LPCQSIZE": 2, "LPCQUANT": 5, "XBITESIZE": 7, "TYPESIZE": 4, "CHANSIZE": 0, "FNSIZE": 2,
    "ENERGYSIZE": 3, "BITSHIFTSIZE": 2, "NWRAP": 3, "NBITPERLONG": 32, "MASKTABSIZE": 33,
    "TYPE_AU1": 0, "TYPE_S8": 1, "TYPE_U8": 2, "TYPE_S16HL": 3, "TYPE_U16HL": 4, "TYPE_S16LH": 5, "TYPE_U16LH": 6, "TYPE_ULAW": 7,
    "TYPE_AU2": 8, "TYPE_EOF": 9, "DEFAULT_V0NMEAN": 0, "DEFAULT_V2NMEAN": 4,
}


def bitreader(ctx, f, R="R-C13-bitreader"):
    prog = ctx.prog
    consts = module_consts(prog)
    for k, v in SHORTEN_CONSTS.items():
        if consts.get(k) != v:
            ctx.bad(R, "_sphere", "%s = %s" % (k, consts.get(k)), "%s is %s but the shorten format fixes it at %d" % (k, consts.get(k), v), module=prog.module("_sphere"))
        else:
            ctx.ok(R, "src/pydrobert/speech/_sphere.py", "%s == %d as in the shorten format" % (k, v))
    magic = prog.module("_sphere").assigns.get("MAGIC")
    # var_get: zig-zag sign folding of the Rice-coded unsigned value
    vg = prog.nested(f, "var_get")
    ev = SymEval(prog, vg).run()
    val = None
    for guard, v, _ in reversed(ev.returns):
        val = v if val is None else S.cond(guard, v, val)
    uv = S.call("_sphere.copy_shortened_samples.<locals>.uvar_get", S.add(S.sym(vg.params[0]), S.ONE))
    # by evaluation: with u the (nbin+1)-bit unsigned code, the value is ~(u >> 1) for odd u and u >> 1 for even u - whatever the
    # spelling (u & 1 or u % 2, ~x or -x - 1, >> 1 or // 2)
    from .. import scenario as SC
    ok, why = False, None
    if val is not None:
        others = [x for x in S.walk(val) if isinstance(x, S.E) and x.op == "call" and str(x.args[0]).endswith("uvar_get") and x != uv]
        vu = S.subst(val, {uv: S.sym("U")})
        if others:
            why = "it reads %s" % S.show(others[0])[:60]
        else:
            try:
                bad_u = [u for u in list(range(0, 70)) + [255, 256, 1023, 65535, 65536] if SC.int_eval(vu, {"U": u}) != ((~(u >> 1)) if (u & 1) else (u >> 1))]
                ok = not bad_u
                if bad_u:
                    why = "for the code %d it gives %d, shorten's value is %d" % (bad_u[0], SC.int_eval(vu, {"U": bad_u[0]}), (~(bad_u[0] >> 1)) if (bad_u[0] & 1) else (bad_u[0] >> 1))
            except ValueError as e_:
                ok, why = None, str(e_)
    if ok is None:
        ctx.error(R, "cannot decide the sign unfolding of var_get (%s): %s" % (why, S.show(val)[:120]))
    else:
        ctx.check(bool(ok), R, vg, vg.node, "signed values are read with nbin+1 bits and unfolded: odd -> ~(u >> 1), even -> u >> 1",
                  "var_get returns %s (%s); shorten folds the sign into the low bit of an (nbin+1)-bit unsigned code" % (S.show(val)[:120] if val is not None else None, why),
                  robust=True)
    ug = prog.nested(f, "ulong_get")
    ev = SymEval(prog, ug).run()
    v = ev.returns[0][1] if ev.returns else None
    uvn = "_sphere.copy_shortened_samples.<locals>.uvar_get"
    want = S.call(uvn, S.call(uvn, S.sym("pydrobert.speech._sphere.ULONGSIZE")))
    ctx.check(v == want, R, ug, ug.node, "unsigned longs are read as uvar_get(uvar_get(ULONGSIZE))", "ulong_get returns %s" % (S.show(v)[:120] if v is not None else None))
    # word_get: 32-bit big-endian words, 4 bytes consumed
    wg = prog.nested(f, "word_get")
    up = [c for c in astq.func_calls(wg) if prog.qualify(wg.module, c.func, wg) == "struct.unpack"]
    ok = len(up) == 1 and astq.const_str(up[0].args[0]) in (">l", ">i", ">L", ">I")
    ctx.check(ok, R, wg, up[0] if up else MISSING(wg.node), "words are 32-bit big-endian", "word format is %s" % (astq.const_str(up[0].args[0]) if up else None))
    adv = [n for n in wg.body_nodes() if isinstance(n, ast.Assign) and astq.text(n.targets[0]) == "word_get.inpbuf"]
    ok = len(adv) == 1 and isinstance(adv[0].value, ast.Subscript) and isinstance(adv[0].value.slice, ast.Slice) and astq.text(adv[0].value.slice.lower) == "4" and adv[0].value.slice.upper is None
    ctx.check(ok, R, wg, adv[0] if adv else MISSING(wg.node), "each word consumes exactly 4 bytes of the input", "the reader advances by %s" % (astq.text(adv[0].value) if adv else None))
    # mask table: masktab[i] = 2^i - 1
    mt = [n for n in f.node.body if isinstance(n, ast.For) and any(isinstance(x, ast.Subscript) and astq.is_name(x.value, "masktab") for x in ast.walk(n))]
    ok = False
    if len(mt) == 1:
        body = [astq.text(x).replace(" ", "") for x in mt[0].body]
        it = astq.text(mt[0].iter).replace(" ", "")
        ok = body == ["val<<=1", "val|=1", "masktab[i]=val"] and it == "range(1,MASKTABSIZE)"
    ctx.check(ok, R, f, mt[0] if mt else MISSING(f.node), "masktab[i] = 2^i - 1 for i = 1..32 (and 0 for i = 0)", "mask table construction is %s" % (astq.text(mt[0])[:120] if mt else None))
    # uvar_get: unary prefix then nbin low bits
    ug = prog.nested(f, "uvar_get")
    txt = [astq.text(n).replace(" ", "") for n in ug.body_nodes() if isinstance(n, (ast.Assign, ast.AugAssign, ast.If, ast.While))]
    need = {
        "a zero bit extends the unary prefix by one": "result+=1",
        "the prefix ends at the first 1 bit (tested after moving to the next bit)": "ifgbuffer&1<<nbitget:",
        "a new word is fetched when the current one is exhausted": "gbuffer=word_get()",
        "the low bits are appended below the prefix": "result<<=nbin",
        "low bits are taken from the top of what is left of the word": "result|=gbuffer>>nbitget-nbin&masktab[nbin]",
        "a value may straddle two words": "result=result<<nbitget|gbuffer&masktab[nbitget]",
    }
    joined = "\n".join(txt)
    for what, frag in need.items():
        ctx.check(frag in joined, R, ug, ug.node, "uvar_get: " + what, "uvar_get no longer contains `%s` (%s)" % (frag, what), structural=True)
    order = [i for i, t in enumerate(txt) if t == "nbitget-=1"]
    test = [i for i, t in enumerate(txt) if t.startswith("ifgbuffer&1<<nbitget")]
    ctx.check(bool(order) and bool(test) and order[0] < test[0], R, ug, ug.node, "uvar_get moves to the next bit before testing it")
    # fix_bitshift
    fb = prog.func("_sphere.fix_bitshift")
    ftxt = astq.text(fb.node).replace(" ", "")
    ctx.check("ifftype==TYPE_AU1:" in ftxt and "buffer[:nitem]=ULAW_OUTWARD[bitshift,buffer[:nitem]+128]" in ftxt, R, fb, fb.node,
              "mu-law (AU1) samples are mapped back through ULAW_OUTWARD[bitshift, x + 128]", structural=True)
    ctx.check("elifbitshift:" in ftxt and "buffer<<=bitshift" in ftxt, R, fb, fb.node, "linear samples are shifted back up by bitshift", structural=True)
    ctx.check("elifftype==TYPE_AU2:" in ftxt and "NEGATIVE_ULAW_ZERO" in ftxt and "buffer[i]+129" in ftxt, R, fb, fb.node, "AU2 samples use the two-zero mu-law mapping", structural=True)
    calls = [c for c in astq.func_calls(f) if astq.is_name(c.func, "fix_bitshift")]
    ok = len(calls) == 1 and [astq.text(a).replace(" ", "") for a in calls[0].args] == ["cbuffer[nwrap:]", "blocksize", "bitshift", "ftype"]
    ctx.check(ok, R, f, calls[0] if calls else MISSING(f.node), "the fix-up is applied to the new block (cbuffer[nwrap:], blocksize samples) with the current shift and type")
    # residual width read for every predictor but ZERO
    rs = [n for n in f.body_nodes() if isinstance(n, ast.Assign) and astq.is_name(n.targets[0], "resn")]
    pm = astq.parents(f)
    ok = len(rs) == 1 and astq.eq_text(rs[0].value, "uvar_get(ENERGYSIZE)") and \
        [astq.text(a.test).replace(" ", "") for a in astq.ancestors(pm, rs[0]) if isinstance(a, ast.If)][:1] == ["cmd!=FN_ZERO"]
    ctx.check(ok, R, f, rs[0] if rs else MISSING(f.node), "the residual width is read (ENERGYSIZE bits) for every predictor except ZERO")


def stream_header(ctx, f, R="R-C13-stream-header"):
    prog = ctx.prog
    seq = []
    for n in f.node.body:
        if isinstance(n, ast.Assign) and isinstance(n.value, ast.Call) and astq.is_name(n.value.func, "ulong_get") and isinstance(n.targets[0], ast.Name):
            seq.append(n.targets[0].id)
    ctx.check(seq == ["ftype", "nchan", "blocksize", "maxnlpc", "nmean", "nskip"], R, f, f.node,
              "the stream header is read in the order type, channels, block size, max LPC order, mean length, skip bytes",
              "header fields are read as %s; the shorten header order is ftype, nchan, blocksize, maxnlpc, nmean, nskip" % seq)
    txt = astq.text(f.node).replace(" ", "")
    ctx.check("assertinpbuf[:4]==MAGIC" in txt and "struct.unpack('b',inpbuf[4:5].tobytes())" in txt, R, f, f.node, "magic 'ajkg' and a one-byte version precede the bit stream", structural=True)
    ctx.check("word_get.inpbuf=inpbuf[5:]" in txt, R, f, f.node, "the bit stream starts right after the version byte", structural=True)
    ctx.check("buffer=np.zeros((nchan,blocksize+nwrap),dtype=np.int32)" in txt, R, f, f.node, "per-channel history + block buffers start at zero, 32-bit", structural=True)
    ctx.check("offset=np.full((nchan,nblock),mean,dtype=np.int32)" in txt and "nblock=max(1,nmean)" in txt, R, f, f.node, "the running-mean history holds max(1, nmean) initial means per channel", structural=True)
    ctx.check("ifversion>1:lpcqoffset=V2LPCQOFFSET" in txt.replace("\n", ""), R, f, f.node, "version 2 adds the LPC rounding offset", structural=True)
    bs = [n for n in f.body_nodes() if isinstance(n, ast.Assign) and astq.is_name(n.targets[0], "blocksize") and isinstance(n.value, ast.Call)]
    pm = astq.parents(f)
    inloop = [n for n in bs if any(isinstance(a, ast.While) for a in astq.ancestors(pm, n))]
    ok = len(inloop) == 1 and astq.eq_text(inloop[0].value, "ulong_get()")
    ctx.check(ok, R, f, inloop[0] if inloop else MISSING(f.node), "BLOCKSIZE re-reads the block size with ulong_get()")
    sh = [n for n in f.body_nodes() if isinstance(n, ast.Assign) and astq.is_name(n.targets[0], "bitshift") and isinstance(n.value, ast.Call)]
    ok = len(sh) == 1 and astq.eq_text(sh[0].value, "uvar_get(BITSHIFTSIZE)")
    ctx.check(ok, R, f, sh[0] if sh else MISSING(f.node), "BITSHIFT reads the shift with BITSHIFTSIZE bits")
    ret = astq.returns_of(f)
    ctx.check(len(ret) == 1 and astq.is_name(ret[0].value, "sampsdone"), R, f, ret[0] if ret else MISSING(f.node), "the number of decoded sample frames is returned")
    inc = [n for n in f.body_nodes() if isinstance(n, ast.AugAssign) and astq.is_name(n.target, "sampsdone")]
    ctx.check(len(inc) == 1 and astq.text(inc[0].value) == "blocksize", R, f, inc[0] if inc else MISSING(f.node), "each completed block (all channels) adds blocksize frames", structural=True)
