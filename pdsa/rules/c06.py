"""C06 - frequency-domain representations of a filter agree (structural clauses)."""

import ast
from fractions import Fraction

from .. import astq
from .. import sym as S
from ..report import MISSING
from ..model import AnalysisError
from ..symeval import SymEval
from . import cli_common as cc
from . import filters_common as fc
from .c20 import fresh_and_pure

LEVEL = "other"
TECHNIQUE = ("quasi-affine closed form of the half-spectrum length, order-type enumeration that every vertex stays at or below "
             "Nyquist, sibling agreement of the truncated and full responses' per-bin formulas in normal form, structural rules "
             "on start bins, the Hermitian store and the whole-period fallback, purity of the response methods")
EXPLANATION = (
    "Decides: all four get_frequency_response implementations size the half spectrum as width//2 + 1 for odd and even "
    "widths; for every accepted constructor range the highest vertex handed to the scale is at most rate/2 (so a real "
    "bank's truncated response cannot leave the half spectrum and mirrored stores cannot collide); start bins are "
    "int(ceil(width f / rate)) of a stored vertex, e % width, or 0; within each bank the truncated and the full response "
    "evaluate a bin with the same closed form (triangular, Fbank, Gabor) or the same helper (gammatone) and the same "
    "left/right bin bounds, and the whole-period fallback returns get_frequency_response itself; the mirrored store "
    "res[-idx] = val happens iff not half and not analytic, with the same value; the response methods keep no memo or "
    "instance state (so values cannot depend on earlier calls). Does NOT decide the 2 x EFFECTIVE_SUPPORT_THRESHOLD bound "
    "for Gabor / gammatone truncation nor wrap-around correctness at small widths.")


def run(ctx):
    ctx.rule(halflen)
    ctx.rule(nyquist_bound)
    ctx.rule(startbin)
    ctx.rule(buffer_span)
    ctx.rule(same_formula)
    ctx.rule(hermitian)
    ctx.rule(purity)
    ctx.rule(threshold_live)
    ctx.rule(fc.gabor_supports, "R-C06-gabor-support", ("freq",))
    ctx.rule(fc.gabor_truncation_support, "R-C06-gabor-support")
    ctx.rule(fc.gammatone_freq_support, "R-C06-gabor-support")
    ctx.rule(fc.banks_stateless, "R-C06-pure")
    ctx.rule(empty_responses)


def halflen(ctx, R="R-C06-halflen"):
    prog = ctx.prog
    w = S.sym("width")
    for name in fc.BANKS:
        f = prog.own_method(fc.bank(prog, name), "get_frequency_response")
        ev = SymEval(prog, f, seed={"half": True}, inline_props=False).run()
        d = ev.env.get("dft_size")
        ctx.need(d is not None, R, "dft_size not found in %s.get_frequency_response" % name)
        r = S.compare(d, S.add(S.floordiv(w, S.lift(2)), S.ONE), domain={"width": [Fraction(v) for v in range(2, 10)]})
        if r["verdict"] == "equal":
            ctx.ok(R, f.loc(), "%s: with half=True the response has width//2 + 1 bins (odd and even widths)" % name, {"how": r["how"]})
        elif r["verdict"] == "differ":
            ctx.bad(R, f, f.node, "%s: the half spectrum is sized %s, which differs from width//2 + 1 at %s" % (name, S.show(d), r["witness"]), "half length = width//2+1")
        else:
            raise AnalysisError("%s: %s" % (R, r["reason"]))
        ev2 = SymEval(prog, f, seed={"half": False}, inline_props=False).run()
        d2 = ev2.env.get("dft_size")
        ctx.check(d2 == w, R, f, f.node, "%s: with half=False the response has width bins" % name, "full size is %s" % (S.show(d2) if d2 is not None else None))
        # the array returned has that size
        allocs = [n for n in f.body_nodes() if isinstance(n, ast.Assign) and astq.is_name(n.targets[0], "res") and isinstance(n.value, ast.Call)]
        ok = len(allocs) == 1 and astq.text(allocs[0].value.args[0]) == "dft_size"
        ctx.check(ok, R, f, allocs[0] if allocs else MISSING(f.node), "%s: the result buffer has dft_size bins" % name)


def nyquist_bound(ctx, R="R-C06-nyquist-bound"):
    prog = ctx.prog
    for name in fc.BANKS:
        c, f, g, rnode, ev = fc.range_guard(prog, name)
        sf, heff = fc.effective_high(ev, fc.layout_value(prog, name, f, ev))
        bad = []
        pts = 0
        for env in fc.grid():
            try:
                if S._truth(S.evaluate(g, env)):
                    continue  # rejected by the constructor
                pts += 1
                h = S.evaluate(heff, env)
            except S.Inconclusive as e:
                raise AnalysisError("%s: cannot evaluate the effective high_hz of %s at %s: %s" % (R, name, env, e))
            if h > env["sampling_rate"] / 2:
                bad.append((env, h))
        if bad:
            env, h = bad[0]
            w = {k: (S._show_val(v) if v is not None else None) for k, v in env.items()}
            ctx.bad(R, f, f.node, "%s accepts %s and then lays its highest vertex at %s Hz, above the Nyquist frequency %s: the last filter "
                    "runs past the half spectrum (truncated response outside [0, pi], mirrored bins overwritten, half response != leading "
                    "bins of the full one)" % (name, w, S._show_val(h), S._show_val(env["sampling_rate"] / 2)),
                    "%s: highest vertex <= rate/2 for every accepted range" % name, extra={"witness": w})
        else:
            ctx.ok(R, f.loc(), "%s: for all %d accepted order-type representatives the highest vertex %s is at most rate/2" % (name, pts, S.show(heff)[:80]))


def startbin(ctx, R="R-C06-startbin"):
    prog = ctx.prog
    for name in fc.BANKS:
        f = prog.own_method(fc.bank(prog, name), "get_truncated_response")
        for r in astq.returns_of(f):
            v = r.value
            ctx.need(isinstance(v, ast.Tuple) and len(v.elts) == 2, R, "%s.get_truncated_response does not return a pair" % name)
            first = astq.text(v.elts[0]).replace(" ", "")
            if name in fc.VERTEX_BANKS:
                ev0 = SymEval(prog, f, inline_props=False).run()
                got = ev0.eval_at(r, v.elts[0])
                want = S.call("int", S.call("ceil", S.truediv(S.mul(S.sym(f.params[2]), S.call("getitem", S.sym("self._vertices"), S.sym(f.params[1]))), S.sym("self._rate"))))
                ok = S.compare(got, want, domain={})["verdict"] == "equal"
                ctx.check(ok, R, f, r, "%s: the start bin is int(ceil(width * left vertex / rate)), within [0, width) because 0 <= vertex <= rate/2" % name,
                          "%s start bin is %s" % (name, S.show(got)[:120]))
            else:
                ok = first in ("0", "left_idx%width")
                ctx.check(ok, R, f, r, "%s: the start bin is reduced modulo width (or 0 for the whole period)" % name, "%s start bin is %s" % (name, first))
                if first == "0":
                    second = astq.text(v.elts[1]).replace(" ", "")
                    ctx.check(second == "self.get_frequency_response(filt_idx,width)", R, f, r, "%s: the whole-period fallback returns get_frequency_response itself" % name,
                              "whole-period fallback returns %s" % second)


def _val_expr(prog, f, key_pred, seed=None):
    loops = [n for n in f.body_nodes() if isinstance(n, ast.For) and astq.is_name(n.target, "idx")]
    if len(loops) != 1:
        raise AnalysisError("bin loop not found in %s" % f.short)
    ev = cc.body_eval(prog, f, loops[0].body, seed=seed)
    return ev, loops[0]


def buffer_span(ctx, R="R-C06-startbin"):
    """The truncated buffer of the vertex banks is exactly as long as the run of bins the loop fills (first bin .. last bin the
    triangle reaches): a longer buffer - e.g. one forced to hold at least one bin - ends past the half spectrum when no bin
    falls inside the filter, and the documented recipe half[bin_idx:bin_idx+len(trnc)] = trnc no longer fits."""
    prog = ctx.prog
    for name in fc.VERTEX_BANKS:
        f = prog.own_method(fc.bank(prog, name), "get_truncated_response")
        ev = SymEval(prog, f, inline_props=False, loop_first=True).run()
        loops = [n for n in f.body_nodes() if isinstance(n, ast.For) and isinstance(n.iter, ast.Call) and astq.is_name(n.iter.func, "range") and len(n.iter.args) == 2]
        allocs = [n for n in f.body_nodes() if isinstance(n, ast.Assign) and isinstance(n.value, ast.Call) and prog.qualify(f.module, n.value.func, f) in ("numpy.zeros", "numpy.empty")]
        if len(loops) != 1 or len(allocs) != 1:
            ctx.error(R, "cannot decide the length of the truncated buffer of %s: bin loop / allocation not recognised" % name)
            continue
        lo, hi = ev.eval_at(loops[0], loops[0].iter.args[0]), ev.eval_at(loops[0], loops[0].iter.args[1])
        size = ev.eval_at(allocs[0], allocs[0].value.args[0])
        if size.op == "call" and size.args[0] == "tuple" and len(size.args) == 2:
            size = size.args[1]
        from .. import scenario as SC
        cands = [S.sub(hi, lo)]
        if hi.op == "min":
            cands += [S.sub(a, lo) for a in hi.args]
        verdicts = []
        for c_ in cands:
            (a_, b_), names = SC.atomise(size, c_)
            verdicts.append(S.compare(a_, b_, domain={}))
        what = "%s: the truncated buffer is as long as the run of bins first..last reached by the filter" % name
        if any(v["verdict"] == "equal" for v in verdicts):
            ctx.ok(R, f.loc(allocs[0]), what)
        elif all(v["verdict"] == "differ" for v in verdicts) and not (SC.vocabulary(size)[0] - {"int", "ceil", "floor", "getitem", "len"}):
            ctx.bad(R, f, allocs[0], "%s allocates %s bins for the run %s .. %s (e.g. %s): when no DFT bin falls inside the filter the buffer is longer than the "
                    "run and reaches past the half spectrum" % (name, S.show(size)[:80], S.show(lo)[:40], S.show(hi)[:60], verdicts[0].get("witness")), what)
        else:
            ctx.error(R, "cannot decide the length of the truncated buffer of %s: %s" % (name, S.show(size)[:100]))


def same_formula(ctx, R="R-C06-same-formula"):
    prog = ctx.prog
    from .c05 import _cond_equal
    B = S.sym("BIN")
    for name in ("TriangularOverlappingFilterBank", "Fbank"):
        c = fc.bank(prog, name)
        full, tr = prog.own_method(c, "get_frequency_response"), prog.own_method(c, "get_truncated_response")
        sf = fc.bin_stores(prog, full, {"half": False})
        st = fc.bin_stores(prog, tr)
        ctx.need(sf and st, R, "per-bin stores not found for %s" % name)
        # primary stores: index depends on +BIN
        pf = [x for x in sf if S.compare(x["index"], B, domain={})["verdict"] == "equal"]
        ctx.need(pf, R, "%s.get_frequency_response does not store bin b at index b" % name)
        rets = astq.returns_of(tr)
        ctx.need(len(rets) == 1 and isinstance(rets[0].value, ast.Tuple) and len(rets[0].value.elts) == 2, R, "%s.get_truncated_response does not return a pair" % name)
        start = st[0]["ev"].eval_at(rets[0], rets[0].value.elts[0])
        pt = [x for x in st if S.compare(x["index"], S.sub(B, start), domain={})["verdict"] == "equal"]
        ctx.check(len(pt) == len(st), R, tr, st[0]["stmt"], "%s: truncated bin b is stored at b - start, start being the first element returned" % name,
                  "%s: a truncated store uses index %s, not b - %s" % (name, S.show([x for x in st if x not in pt][0]["index"])[:80] if len(pt) != len(st) else "", S.show(start)[:60]))
        vf, vt = fc.piecewise(pf), fc.piecewise(pt)
        ctx.need(vf is not None and vt is not None, R, "per-bin values not found for %s" % name)
        # a square root applied to the returned array instead of each bin
        def post(f_, v_):
            for r_ in astq.returns_of(f_):
                for x in ast.walk(r_.value):
                    if isinstance(x, ast.BinOp) and isinstance(x.op, ast.Pow) and astq.text(x.right) in ("0.5", "1 / 2"):
                        return S.power(v_, S.lift(Fraction(1, 2)))
            return v_
        vf, vt = post(full, vf), post(tr, vt)
        ok = _cond_equal(vf, vt)
        ctx.check(ok, R, tr, pt[0]["stmt"] if pt else tr.node, "%s: truncated and full responses evaluate a bin with the same closed form" % name,
                  "%s: the truncated response evaluates %s but the full one %s" % (name, S.show(vt)[:140], S.show(vf)[:140]))
        # same bins: both loops run over range(lo, min(size, hi + 1)) with the same lo / hi (size = width when half is False)
        rf, rt = pf[0]["range"], pt[0]["range"] if pt else None
        ok = rt is not None and cc.is_call(rf, "range") and cc.is_call(rt, "range") and len(rf.args) == len(rt.args) == 3 and \
            S.compare(rf.args[1], rt.args[1], domain={})["verdict"] == "equal" and S.compare(rf.args[2], rt.args[2], domain={})["verdict"] == "equal"
        ctx.check(ok, R, tr, pt[0]["loop"] if pt else tr.node, "%s: both methods visit the same bins ceil(width l / rate) .. min(width, floor(width r / rate) + 1)" % name,
                  "%s: bin ranges differ: full %s, truncated %s" % (name, S.show(rf)[:100], S.show(rt)[:100] if rt is not None else None))
    # Gabor: full (half or not) and truncated responses accumulate the same closed form at omega = 2 pi (idx / width + period)
    from .c05 import gabor_norm
    gabor_norm(ctx, R)
    # gammatone: both go through _H
    c = fc.bank(prog, "ComplexGammatoneFilterBank")
    for meth in ("get_frequency_response", "get_truncated_response"):
        f = prog.own_method(c, meth)
        hs = [x for x in astq.func_calls(f) if astq.attr_call(x, "_H")]
        ok = len(hs) == 1 and astq.text(hs[0].args[1]) == "filt_idx"
        ctx.check(ok, R, f, hs[0] if hs else MISSING(f.node), "gammatone.%s evaluates the closed form _H for its own filter" % meth, "gammatone.%s does not call self._H(omega, filt_idx)" % meth)
    # the grid H is evaluated on, by value at the call of _H: 2 pi idx / width over the bins of the buffer
    for meth, grid_txt, what_ in (("get_truncated_response", "np.arange(left_idx, right_idx + 1, dtype=np.float64)", "gammatone: truncated bins left_idx..right_idx sit at 2 pi idx / width"),
                                  ("get_frequency_response", "np.arange(dft_size, dtype=np.float64)", "gammatone: full bins 0..dft_size-1 sit at 2 pi idx / width")):
        f = prog.own_method(c, meth)
        hs = [x for x in astq.func_calls(f) if astq.attr_call(x, "_H")]
        if len(hs) != 1:
            continue
        pm_ = astq.parents(f)
        st_ = astq.enclosing_stmt(pm_, hs[0])
        try:
            ev_ = SymEval(prog, f).run()
            got_ = ev_.eval_at(st_, hs[0].args[0])
            # the per-period shift is the frequency response's own business (checked by the periodisation rule): compare at period 0
            loops_ = [a for a in astq.ancestors(pm_, hs[0]) if isinstance(a, ast.For) and isinstance(a.target, ast.Name)]
            for lp_ in loops_:
                got_ = S.subst(got_, {lp_.target.id: S.ZERO})
            grid_ = ev_.eval_at(st_, ast.parse(grid_txt, mode="eval").body)
            want_ = S.truediv(S.mul(S.mul(grid_, S.lift(2)), S.PI), ev_.eval_at(st_, ast.parse(f.params[2], mode="eval").body))
            same_ = S.compare(got_, want_, domain={})["verdict"] == "equal"
        except Exception as e:
            ctx.error(R, "cannot decide %s: %r" % (what_, e))
            continue
        ctx.check(same_, R, f, st_, what_, "H is evaluated at %s" % S.show(got_)[:160])
    # bin bounds of Gabor / gammatone truncation
    for name, lo, hi in (("GaborFilterBank", "lowest_ang", "highest_ang"), ("ComplexGammatoneFilterBank", "left_sup", "right_sup")):
        f = prog.own_method(fc.bank(prog, name), "get_truncated_response")
        d = {astq.text(n.targets[0]): astq.text(n.value).replace(" ", "") for n in f.body_nodes() if isinstance(n, ast.Assign) and isinstance(n.targets[0], ast.Name)}
        ok = d.get("left_idx") == "int(np.ceil(width*%s/(2*np.pi)))" % lo and d.get("right_idx") == "int(width*%s/(2*np.pi))" % hi
        ctx.check(ok, R, f, f.node, "%s: the truncated window covers bins ceil(width lo / 2pi) .. floor(width hi / 2pi) of the angular support" % name,
                  "%s truncated bounds are %s / %s" % (name, d.get("left_idx"), d.get("right_idx")))


def empty_responses(ctx, R="R-C06-buffer-span"):
    """A truncated response is legitimately empty: a narrow filter that falls between two bins of a small DFT has no non-zero bin.
    The response methods therefore may not apply a reduction without an identity (max, min, argmax ...) to what they return."""
    from . import partial
    prog = ctx.prog
    roots = []
    for name in fc.BANKS:
        for meth in ("get_truncated_response",):
            m = prog.own_method(fc.bank(prog, name), meth)
            if m is not None:
                roots.append(m)
    partial.no_identityless_reductions(
        ctx, R, roots, "no reduction without an identity is applied to a response (a truncated response may have no bins)",
        "for a DFT so small that no bin falls inside the filter the method now fails instead of returning the empty response")


def hermitian(ctx, R="R-C06-hermitian"):
    prog = ctx.prog
    B = S.sym("BIN")
    for name in ("TriangularOverlappingFilterBank", "Fbank"):
        f = prog.own_method(fc.bank(prog, name), "get_frequency_response")
        for half, analytic, want_mirror in ((False, False, True), (True, False, False), (False, True, False), (True, True, False)):
            stores = fc.bin_stores(prog, f, {"half": half, "self._analytic": analytic})
            direct = [x for x in stores if S.compare(x["index"], B, domain={})["verdict"] == "equal"]
            mirror = [x for x in stores if S.compare(x["index"], S.neg(B), domain={})["verdict"] == "equal"]
            other = [x for x in stores if x not in direct and x not in mirror]
            tag = "%s (half=%s, analytic=%s)" % (name, half, analytic)
            ctx.check(len(direct) >= 1 and not other, R, f, stores[0]["stmt"] if stores else f.node, "%s: bin b is stored at index b" % tag,
                      "%s: stores at %s" % (tag, [S.show(x["index"])[:40] for x in other]))
            ctx.check(bool(mirror) == want_mirror, R, f, (mirror or direct or stores)[0]["stmt"] if stores else f.node,
                      "%s: negative frequencies are filled iff the full spectrum of a real bank is requested" % tag,
                      "%s: the mirrored store res[-b] is %s" % (tag, "present" if mirror else "missing"))
            if mirror and direct:
                from .c05 import _cond_equal
                ok = _cond_equal(fc.piecewise(direct), fc.piecewise(mirror))
                ctx.check(ok, R, f, mirror[0]["stmt"], "%s: the mirrored bin gets the same value as the direct bin (real, even response)" % tag,
                          "%s stores %s at b but %s at -b" % (tag, S.show(fc.piecewise(direct))[:100], S.show(fc.piecewise(mirror))[:100]))
        stores = fc.bin_stores(prog, f, {"half": False})
        rg = stores[0]["range"] if stores else None
        w = S.sym(f.params[2])
        V = S.sym("self._vertices")
        fi = S.sym(f.params[1])
        lo = S.call("int", S.call("ceil", S.truediv(S.mul(w, S.call("getitem", V, fi)), S.sym("self._rate"))))
        hi = S.call("int", S.truediv(S.mul(w, S.call("getitem", V, S.add(fi, S.lift(2)))), S.sym("self._rate")))
        ok = rg is not None and cc.is_call(rg, "range") and len(rg.args) == 3 and S.compare(rg.args[1], lo, domain={})["verdict"] == "equal" and \
            S.compare(rg.args[2], S.emin(w, S.add(hi, S.ONE)), domain={})["verdict"] == "equal"
        ctx.check(ok, R, f, stores[0]["loop"] if stores else f.node, "%s: bins ceil(width l / rate) .. floor(width r / rate) (clipped to the buffer) are filled" % name,
                  "bin loop is %s" % (S.show(rg)[:140] if rg is not None else None))


def purity(ctx, R="R-C06-pure"):
    prog = ctx.prog
    for name in fc.BANKS:
        c = fc.bank(prog, name)
        for meth in ("get_frequency_response", "get_truncated_response"):
            f = prog.own_method(c, meth)
            fresh_and_pure(ctx, R, f, "%s.%s" % (name, meth))


def threshold_live(ctx, R="R-C06-threshold-live"):
    """The truncation threshold that bounds the error of the rebuilt response is the one in force when the bank is
    built / queried (config.EFFECTIVE_SUPPORT_THRESHOLD read at call time), not a copy frozen at import."""
    from .c07 import config_live
    config_live(ctx, R)
