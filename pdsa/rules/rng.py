"""Who touches the process-wide random generators.

"Reproducible under numpy.random.seed / torch.manual_seed" and "noise that does not depend on the signal" both need the
noise draw to be the only use of the global generator between the caller's seed and the result: a second draw (a random
probe of the signal, a shuffled diagnostic sample), a re-seed (``torch.seed()`` re-seeds and returns the new seed), or a
``set_state`` moves the stream, and the noise the caller gets is no longer the seeded one.  This is an effect rule over
the resolved call closure of the noise routine:

  * every call that uses a global generator is one of the routine's documented draws, and
  * no path through the routine makes more than one of them.

Explicit generators (``numpy.random.default_rng``, ``RandomState(...)``, ``generator=`` keywords) are not the global
stream and are left to the rule that checks where the noise comes from."""

import ast

from .. import astq

_NP_NOT_GLOBAL = {"get_state", "default_rng", "RandomState", "Generator", "SeedSequence", "BitGenerator", "PCG64", "PCG64DXSM",
                  "MT19937", "Philox", "SFC64", "get_bit_generator"}
_TORCH_GLOBAL = {"seed", "manual_seed", "rand", "rand_like", "randn", "randn_like", "randint", "randint_like", "randperm",
                 "normal", "bernoulli", "multinomial", "poisson", "set_rng_state", "dropout", "rrelu"}
_TORCH_METHODS = {"normal_", "uniform_", "random_", "bernoulli_", "exponential_", "geometric_", "cauchy_", "log_normal_"}
MANY = 99


def global_rng_name(prog, f, call):
    """canonical name of the global-generator function a call uses, or None"""
    if any(k.arg == "generator" and not (isinstance(k.value, ast.Constant) and k.value.value is None) for k in call.keywords):
        return None
    q = prog.qualify(f.module, call.func, f)
    if q is not None:
        if q.startswith("numpy.random."):
            last = q[len("numpy.random."):]
            if "." not in last and last not in _NP_NOT_GLOBAL:
                return q
        if q.startswith("torch.random.") and q.rsplit(".", 1)[1] in ("seed", "manual_seed", "set_rng_state"):
            return "torch." + q.rsplit(".", 1)[1]
        if q.startswith("torch.") and q.count(".") == 1 and q.split(".")[1] in _TORCH_GLOBAL:
            return q
        if q.startswith("torch.cuda.") and q.rsplit(".", 1)[1] in ("seed", "seed_all", "manual_seed", "manual_seed_all"):
            return q
        if q in ("random.random", "random.seed", "random.randint", "random.shuffle", "random.choice", "random.sample",
                 "random.uniform", "random.gauss", "random.randrange", "random.getrandbits", "random.normalvariate"):
            return q
    if isinstance(call.func, ast.Attribute) and call.func.attr in _TORCH_METHODS:
        return "torch.Tensor." + call.func.attr
    return None


def _callee(prog, f, call):
    """package function or method a call resolves to (self-methods included), or None"""
    fn = call.func
    if isinstance(fn, ast.Attribute) and f.params and astq.is_name(fn.value, f.params[0]) and f.cls is not None:
        m = prog.find_method(f.cls, fn.attr)
        if m is not None and not m.is_property:
            return m
        return None
    try:
        tgt = prog.resolve(f.module, fn, f)
    except Exception:
        return None
    if tgt is not None and hasattr(tgt, "body_nodes") and hasattr(tgt, "params"):
        return tgt
    return None


class Census:
    def __init__(self, prog):
        self.prog = prog
        self.sites = []      # (function, call node, canonical name)
        self._memo = {}
        self._stack = []

    def _expr(self, f, node):
        if node is None:
            return 0
        n = 0
        for c in astq.calls_in(node):
            name = global_rng_name(self.prog, f, c)
            if name is not None:
                if (f, c, name) not in self.sites:
                    self.sites.append((f, c, name))
                n += 1
                continue
            g = _callee(self.prog, f, c)
            if g is not None:
                n += self.func(g)
        return min(n, MANY)

    def _block(self, f, stmts):
        total = 0
        for st in stmts:
            total += self._stmt(f, st)
            if isinstance(st, (ast.Return, ast.Raise)):
                break
        return min(total, MANY)

    def _stmt(self, f, st):
        if isinstance(st, (ast.FunctionDef, ast.AsyncFunctionDef, ast.ClassDef)):
            return 0
        if isinstance(st, ast.If):
            return self._expr(f, st.test) + max(self._block(f, st.body), self._block(f, st.orelse))
        if isinstance(st, (ast.For, ast.AsyncFor, ast.While)):
            head = self._expr(f, st.iter if not isinstance(st, ast.While) else st.test)
            body = self._block(f, st.body)
            return min(head + (MANY if body else 0) + self._block(f, st.orelse), MANY)
        if isinstance(st, ast.Try):
            return min(self._block(f, st.body) + max([self._block(f, h.body) for h in st.handlers] or [0])
                       + self._block(f, st.orelse) + self._block(f, st.finalbody), MANY)
        if isinstance(st, (ast.With, ast.AsyncWith)):
            return min(sum(self._expr(f, i.context_expr) for i in st.items) + self._block(f, st.body), MANY)
        if hasattr(ast, "Match") and isinstance(st, ast.Match):
            return min(self._expr(f, st.subject) + max([self._block(f, c.body) for c in st.cases] or [0]), MANY)
        return self._expr(f, st)

    def func(self, g):
        """largest number of global-generator uses on one path through g (MANY when inside a loop)"""
        if g in self._memo:
            return self._memo[g]
        if g in self._stack:
            return 0
        self._stack.append(g)
        try:
            n = self._block(g, g.node.body)
        finally:
            self._stack.pop()
        self._memo[g] = n
        return n


def check(ctx, R, f, draws, seedname, what="the noise draw is the routine's only use of the process-wide generator"):
    """``draws``: canonical names of the documented draw; every other global-generator call in the closure is a violation,
    and so is a path with two draws"""
    cs = Census(ctx.prog)
    most = cs.func(f)
    ctx.need(len(cs.sites) >= 1, R, "no use of a process-wide generator found in %s" % f.short)
    ok = True
    for g, c, name in cs.sites:
        if name not in draws:
            ok = False
            ctx.bad(R, g, c, "%s also calls %s, which moves the process-wide generator: the noise that follows is no longer the one %s "
                    "reproduces, and what it is depends on whether (and on what data) this call ran" % (f.short, name, seedname), what, robust=True)
    if ok:
        if most > 1:
            g, c, name = cs.sites[-1]
            ctx.bad(R, g, c, "a path through %s draws from the process-wide generator more than once (%s)"
                    % (f.short, ", ".join(sorted({n for _, _, n in cs.sites}))), what, robust=True)
        else:
            ctx.ok(R, f.loc(f.node), what, "%d call site(s): %s; at most one per path" % (len(cs.sites), ", ".join(sorted({n for _, _, n in cs.sites}))))
    return cs
