"""C12 - uncompressed NIST SPHERE audio decodes exactly."""

import ast

from .. import astq, spec
from .. import sym as S
from ..cfg import CFG, header_walk
from ..dataflow import ReachingDefs, containing_node
from ..report import MISSING
from ..model import AnalysisError
from ..symeval import SymEval
from . import cli_common as cc

LEVEL = "proof"
TECHNIQUE = ("exhaustive comparison of the two 256-entry G.711 literal tables with the ITU-T bit-field definition; "
             "closed-form divisibility / byte-accounting rules on the read loop (exact, with witnesses); reaching-"
             "definition rules on header parsing and on the returned buffer")
EXPLANATION = (
    "Proof-level (exhaustive, in-source) for the G.711 clause: all 2 x 256 entries of ULAW2PCM / ALAW2PCM parsed from "
    "the AST equal the ITU-T G.711 expansion and are stored in a 16-bit integer array. Structural clauses decided on "
    "copy_samples / read_header / sphere_read_signal: every read request is a whole number of sample frames (closed-"
    "form divisibility, or read-all), the bytes converted per read are exactly the whole frames counted, the np.empty "
    "buffer reaches every return only through a slice bounded by the fill counter, byte order comes from "
    "sample_byte_format, mono is 1-D and multi-channel is reshaped (samples, channels) in C order, expansion happens "
    "iff the target is wider than one byte, the short-data warning is guarded by sampsdone != sampcount, no header "
    "byte read from the stream is discarded before field parsing and every header failure raises the caller's "
    "IOError. Does NOT execute the decoder; NumPy's frombuffer/reshape are trusted.")

HEADER = ("samptype", "sampsize", "sampcount", "samprate", "chancount", "inporder")


def run(ctx):
    ctx.rule(g711)
    ctx.rule(reads)
    ctx.rule(returned_buffer)
    ctx.rule(header)
    ctx.rule(conversions)
    ctx.rule(field_types)
    ctx.rule(dtype_reaches_decoder)


# ---------------------------------------------------------------- R-C12-g711
def g711(ctx):
    prog = ctx.prog
    R = "R-C12-g711"
    m = prog.module("_sphere")
    n_entries = 0
    for name, want in spec.G711.items():
        vals = m.assigns.get(name)
        ctx.need(vals and len(vals) == 1, R, "table %s not found (or defined more than once)" % name)
        v = vals[0]
        ctx.need(isinstance(v, ast.Call) and prog.qualify(m, v.func) == "numpy.array" and v.args and isinstance(v.args[0], (ast.List, ast.Tuple)),
                 R, "table %s is not a literal np.array([...])" % name)
        try:
            got = [ast.literal_eval(e) for e in v.args[0].elts]
        except ValueError:
            raise AnalysisError("%s: table %s holds non-literal entries" % (R, name))
        ctx.check(len(got) == 256, R, name, v, "%s has 256 entries" % name, "%s has %d entries, not 256" % (name, len(got)), ) if False else None
        if len(got) != 256:
            ctx.bad(R, "_sphere.%s" % name, "len(%s) == %d" % (name, len(got)), "%s has %d entries, not 256" % (name, len(got)), module=m)
            continue
        wrong = [(i, got[i], want[i]) for i in range(256) if got[i] != want[i]]
        n_entries += 256
        if wrong:
            i, g, w = wrong[0]
            ctx.bad(R, "_sphere.%s" % name, "%s[%d] == %d" % (name, i, g),
                    "%s[0x%02X] is %d but ITU-T G.711 expands code 0x%02X to %d (%d entr%s differ)"
                    % (name, i, g, i, w, len(wrong), "y" if len(wrong) == 1 else "ies"),
                    "%s equals the G.711 expansion for all 256 codes" % name, module=m)
        else:
            ctx.ok(R, "%s:%d" % (m.rel, v.lineno), "%s equals the ITU-T G.711 expansion for all 256 codes" % name)
        dt = astq.kw(v, "dtype")
        q = prog.qualify(m, dt) if dt is not None else None
        if q in ("numpy.int16", "numpy.int32", "numpy.int64"):
            ctx.ok(R, "%s:%d" % (m.rel, v.lineno), "%s is stored as a signed integer array of at least 16 bits (%s)" % (name, q))
        else:
            ctx.bad(R, "_sphere.%s" % name, "dtype=%s" % (astq.text(dt) if dt is not None else "default"),
                    "%s is stored with dtype %s; 16-bit signed PCM values would be truncated or mis-typed" % (name, q or "default"),
                    "table dtype holds 16-bit signed PCM", module=m)
    ctx.info["g711_entries_compared"] = n_entries
    ctx.info["exhaustive"] = True


# ----------------------------------------------------- read loop (closed forms)
def _copy_eval(ctx, R):
    prog = ctx.prog
    f = prog.func("_sphere.copy_samples")
    ctx.need(f.params[:4] == ["file_", "header", "dtype", "error"], R, "signature of copy_samples changed")
    hdr = S.call("tuple", *[S.sym(h) for h in HEADER])
    ev = SymEval(prog, f, args={"header": hdr}).run()
    return f, ev


def reads(ctx, R="R-C12-frame-aligned-reads", R2="R-C12-bytes-accounted"):
    prog = ctx.prog
    f, ev = _copy_eval(ctx, R)
    F = S.mul(S.sym("chancount"), S.sym("sampsize"))
    loops = [n for n in f.body_nodes() if isinstance(n, ast.While)]
    ctx.need(len(loops) == 1, R, "read loop of copy_samples not found")
    loop = loops[0]
    rcalls = [c for c in astq.calls_in(loop) if astq.attr_call(c, "read") and astq.is_name(c.func.value, f.params[0])]
    ctx.need(len(rcalls) == 1, R, "expected exactly one file_.read(...) in the read loop, found %d" % len(rcalls))
    pm = astq.parents(f)
    rc = rcalls[0]
    rst = astq.enclosing_stmt(pm, rc)
    dom = {"chancount": range(1, 9), "sampsize": (1, 2, 4)}
    if not rc.args:
        ctx.ok(R, f.loc(rc), "the whole data section is read at once")
        size = None
    else:
        size = ev.eval_at(rst, rc.args[0])
        if S.divisible(size, F):
            ctx.ok(R, f.loc(rc), "read size %s is a multiple of chancount*sampsize by construction" % S.show(size),
                   {"normal_form_of_quotient": S.canon(S.truediv(size, F))})
        else:
            # carried tail idiom?
            carried = isinstance(rst, ast.Assign) and isinstance(rst.value, ast.BinOp) and isinstance(rst.value.op, ast.Add)
            if carried:
                raise AnalysisError("%s: read with a carried tail (%s): idiom not modelled, re-confirm the rule" % (R, astq.text(rst)))
            try:
                w = S.find_witness(S.cmp("!=", S.mod(size, F), S.ZERO), dom)
            except S.Inconclusive:
                w = None
            if w is None:
                raise AnalysisError("%s: cannot decide whether read size %s is a whole number of frames" % (R, S.show(size)))
            ctx.bad(R, f, rst,
                    "each read asks for %s bytes, which is not a whole number of %s-byte frames (e.g. %s); the partial frame "
                    "at the end of every read is dropped, so samples are lost and channels rotate" % (S.show(size), S.show(F), w),
                    "read size is a whole number of frames", extra={"witness": w}, robust=True)
    # bytes converted per read == whole frames counted
    fb = [c for c in astq.calls_in(loop) if prog.qualify(f.module, c.func, f) == "numpy.frombuffer"]
    ctx.need(len(fb) == 1, R2, "np.frombuffer conversion not found in the read loop")
    fbc = fb[0]
    fst = astq.enclosing_stmt(pm, fbc)
    # the frame counter: the augmented assignment to the loop's progress variable
    progress = [n for n in ast.walk(loop) if isinstance(n, ast.AugAssign) and isinstance(n.op, ast.Add) and isinstance(n.target, ast.Name)]
    test_names = {x.id for x in ast.walk(loop.test) if isinstance(x, ast.Name)}
    progress = [n for n in progress if n.target.id in test_names]
    ctx.need(len(progress) == 1, R2, "progress counter update not found in the read loop")
    ns = ev.eval_at(progress[0], progress[0].value)
    raw_len = S.sym("nbytes_read")
    cnt = astq.kw(fbc, "count")
    src = ev.eval_at(fst, fbc.args[0])
    if cnt is not None:
        items = ev.eval_at(fst, cnt)
    elif len(fbc.args) >= 3:
        items = ev.eval_at(fst, fbc.args[2])
    else:
        # everything in the (possibly sliced) source buffer
        if cc.is_call(src, "getitem") and cc.is_call(src.args[2], "slice") and src.args[2].args[1] == S.NONE and src.args[2].args[3] == S.NONE:
            items = S.truediv(src.args[2].args[2], S.sym("sampsize"))
        else:
            # the whole read is converted: numpy refuses a buffer whose size is not a multiple of the item size
            ctx.bad(R2, f, fst, "np.frombuffer converts the whole read without `count=` (and without trimming it): a data section that ends in the "
                    "middle of a sample - a truncated multi-byte PCM file - raises ValueError('buffer size must be a multiple of element size') "
                    "instead of the short-read warning with the whole frames that are present",
                    "the bytes converted are limited to whole frames")
            return
    # express both sides over the number of bytes actually read
    read_expr = ev.eval_at(rst, rc)
    mapping = {S.call("len", read_expr): raw_len}
    items_n = S.subst(items, mapping)
    want = S.subst(S.mul(ns, S.sym("chancount")), mapping)
    res = S.compare(items_n, want, domain={"chancount": [S.Fraction(v) for v in (1, 2, 3)], "sampsize": [S.Fraction(v) for v in (1, 2)],
                                           "nbytes_read": [S.Fraction(v) for v in (0, 1, 2, 3, 5, 6, 7, 12)],
                                           "sampcount": [S.Fraction(v) for v in (1, 2, 5, 100)], "sampsdone": [S.Fraction(v) for v in (0, 1, 3)]})
    if res["verdict"] == "equal":
        ctx.ok(R2, f.loc(fbc), "samples converted per read == whole frames counted x channels", {"how": res["how"]})
    elif res["verdict"] == "differ":
        ctx.bad(R2, f, fst, "the conversion takes %s samples from a read but %s are accounted for (e.g. at %s: %s vs %s); a data "
                "section that ends inside a frame makes the decoder fail instead of returning the frames present"
                % (S.show(items_n), S.show(want), res["witness"], res["values"][0], res["values"][1]),
                "samples converted per read == whole frames counted", extra={"witness": res["witness"]})
    else:
        raise AnalysisError("%s: %s" % (R2, res["reason"]))
    # frames per read: nb // (chancount*sampsize), clipped to what the header promises
    ns_m = S.subst(ns, mapping)
    dom_ = {"chancount": [S.Fraction(v) for v in (1, 2, 3)], "sampsize": [S.Fraction(v) for v in (1, 2, 4)],
            "nbytes_read": [S.Fraction(v) for v in (0, 1, 2, 3, 5, 6, 7, 12, 24)],
            "sampcount": [S.Fraction(v) for v in (1, 2, 5, 100)], "sampsdone": [S.Fraction(v) for v in (0, 1, 3)]}
    try:
        whole = S.compare(ns_m, S.emin(S.floordiv(raw_len, F), S.sub(S.sym("sampcount"), S.sym("sampsdone"))), domain=dom_)["verdict"] == "equal"
    except Exception:
        whole = False
    alts = list(cc.strip_cond(ns_m)) if not whole else []
    okf = whole or any(S.compare(leaf, S.floordiv(raw_len, F))["verdict"] == "equal" for _, leaf in alts)
    ctx.check(okf, R2, f, progress[0], "frames per read = bytes read // (channels x sample size)",
              "frames counted per read is %s, not nbytes // (chancount*sampsize)" % S.show(S.subst(ns, mapping)))
    # destination slice is [sampsdone*chancount : (sampsdone+ns)*chancount]
    stores = [n for n in ast.walk(loop) if isinstance(n, ast.Assign) and isinstance(n.targets[0], ast.Subscript)
              and isinstance(n.targets[0].slice, ast.Slice)]
    ctx.need(len(stores) == 1, R2, "store into the output buffer not found")
    sl = stores[0].targets[0].slice
    lo = ev.eval_at(stores[0], sl.lower) if sl.lower is not None else S.ZERO
    hi = ev.eval_at(stores[0], sl.upper)
    done = S.sym(progress[0].target.id)
    r1 = S.compare(lo, S.mul(done, S.sym("chancount")))
    r2 = S.compare(S.sub(hi, lo), S.mul(ns, S.sym("chancount")))
    ctx.check(r1["verdict"] == "equal" and r2["verdict"] == "equal", R2, f, stores[0],
              "each read's samples are stored right after the samples already done",
              "destination slice [%s : %s] is not [done*channels : (done+frames)*channels]" % (S.show(lo), S.show(hi)))


# ------------------------------------------------------ R-C12-no-uninitialised
def returned_buffer(ctx):
    prog = ctx.prog
    R = "R-C12-no-uninitialised"
    f, ev = _copy_eval(ctx, R)
    allocs = [n for n in f.body_nodes() if isinstance(n, ast.Assign) and isinstance(n.value, ast.Call)
              and prog.qualify(f.module, n.value.func, f) in ("numpy.empty", "numpy.zeros")]
    ctx.need(len(allocs) == 1, R, "output buffer allocation not found")
    alloc_kind = prog.qualify(f.module, allocs[0].value.func, f)
    size = ev.eval_at(allocs[0], allocs[0].value.args[0])
    r = S.compare(size, S.mul(S.sym("sampcount"), S.sym("chancount")))
    ctx.check(r["verdict"] == "equal", R, f, allocs[0], "the buffer holds sample_count x channel_count samples",
              "the output buffer has %s elements, not sampcount*chancount" % S.show(size))
    ctx.need(ev.returns, R, "copy_samples has no return")
    n_alt = 0
    for guard, v, node in ev.returns:
        for tests, leaf in cc.strip_cond(v):
            n_alt += 1
            x = leaf
            reshaped = False
            if cc.is_call(x, ".reshape"):
                shape = x.args[2]
                order = [a for a in x.args[3:] if cc.is_call(a, "kw:order")]
                ok_shape = cc.is_call(shape, "tuple") and len(shape.args) == 3 and shape.args[2] == S.sym("chancount")
                ctx.check(ok_shape and (not order or order[0].args[1] == S.lift("C")), "R-C12-shape-order", f, node,
                          "multi-channel data is reshaped (samples, channels) in C order",
                          "multi-channel reshape is %s (order %s), not (samples, chancount) in C order"
                          % (S.show(shape), S.show(order[0].args[1]) if order else "C"))
                x = x.args[1]
                reshaped = True
            multi = [lbl for lbl, t in tests if t.op == "cmp" and S.sym("chancount") in (t.args[1], t.args[2])]
            if multi:
                ctx.check((multi[0] == "T") == reshaped, "R-C12-shape-order", f, node,
                          "mono data stays 1-D and multi-channel data is 2-D",
                          "the mono / multi-channel return shapes are swapped or not distinguished")
            ok = cc.is_call(x, "getitem") and cc.is_call(x.args[2], "slice") and x.args[2].args[2] != S.NONE \
                and any(u.op == "unknown" and str(u.args[0]).startswith("after-loop:") for u in S.walk(x.args[2].args[2]))
            if alloc_kind == "numpy.zeros":
                ok = True
            ctx.check(ok, R, f, node,
                      "the np.empty buffer is returned only through a slice bounded by the number of samples read",
                      "on the %s path the whole np.empty buffer is returned; when the data section is shorter than the "
                      "header promises the tail is uninitialised memory (returned: %s)"
                      % ("multi-channel" if reshaped else "mono", cc.is_call(x, "getitem") and "sliced" or S.show(x)[:80]))
    ctx.floor(R, n_alt, 2)
    # the short-data warning
    R3 = "R-C12-short-warn"
    warns = [c for c in astq.func_calls(f) if prog.qualify(f.module, c.func, f) == "warnings.warn"]
    ctx.need(len(warns) == 1, R3, "warnings.warn not found in copy_samples")
    pm = astq.parents(f)
    g = [a for a in astq.ancestors(pm, warns[0]) if isinstance(a, ast.If)]
    ok = len(g) == 1 and isinstance(g[0].test, ast.Compare) and len(g[0].test.ops) == 1 and isinstance(g[0].test.ops[0], ast.NotEq) \
        and {astq.text(g[0].test.left), astq.text(g[0].test.comparators[0])} == {"sampsdone", "sampcount"}
    ctx.check(ok, R3, f, g[0] if g else MISSING(warns[0]), "a warning is issued exactly when fewer samples were read than promised",
              "the short-data warning is not guarded by `sampsdone != sampcount`")
    cfg = CFG(f.node)
    wn = containing_node(cfg, f, warns[0])
    loopn = cfg.node([n for n in f.body_nodes() if isinstance(n, ast.While)][0])
    ctx.check(wn in cfg.reachable(loopn) and loopn not in cfg.reachable(wn), R3, f, warns[0], "the check follows the read loop")


# --------------------------------------------------------------- R-C12-header
def header(ctx):
    prog = ctx.prog
    R = "R-C12-header"
    f = prog.func("_sphere.read_header")
    ctx.need(f.params[:2] == ["file_", "error"], R, "signature of read_header changed")
    pm = astq.parents(f)
    # every raise raises the caller's error object
    raises = astq.raises_of(f)
    for r in raises:
        ctx.check(astq.is_name(r.exc, "error"), R, f, r, "header failures raise the caller's error object",
                  "read_header raises %s instead of the caller's error" % astq.text(r.exc) if r.exc is not None else "bare raise")
    # the magic is tested before any header text is converted: int() / unpacking of the split lines raise ValueError for input
    # that is not a SPHERE file at all, which must be reported with the caller's error
    cfg0 = CFG(f.node)
    magic = [n for n in f.body_nodes() if isinstance(n, ast.If) and any(isinstance(x, ast.Constant) and x.value == b"NIST_1A" for x in ast.walk(n.test))
             and any(isinstance(x, ast.Raise) for x in n.body)]
    if len(magic) == 1:
        dom = cfg0.dominators(skip_exc=True)
        mnode = cfg0.node(magic[0])
        for st in f.body_nodes():
            if not isinstance(st, (ast.Assign, ast.AugAssign, ast.Expr)) or st is magic[0]:
                continue
            conv = [c for c in ast.walk(st) if isinstance(c, ast.Call) and isinstance(c.func, ast.Name) and c.func.id in ("int", "float")]
            unpack = isinstance(st, ast.Assign) and isinstance(st.targets[0], ast.Tuple) and any(astq.attr_call(c, "split") for c in ast.walk(st.value) if isinstance(c, ast.Call))
            if not conv and not unpack:
                continue
            n_ = cfg0.node(st)
            if n_ is None or n_ not in dom:
                continue
            ctx.check(mnode in dom[n_], R, f, st, "the NIST_1A magic is verified before any header text is converted",
                      "`%s` converts header text before the NIST_1A test: for input that is not a SPHERE file (text, zeros, RIFF) the conversion raises "
                      "ValueError instead of the caller's IOError" % astq.text(st)[:70], robust=True)
    else:
        ctx.error(R, "cannot decide whether the magic is tested first: %d tests of b'NIST_1A' guarding a raise" % len(magic))
    ctx.need(len(raises) >= 4, R, "expected at least 4 raises in read_header, found %d" % len(raises))
    # no byte read from the stream is thrown away
    reads_ = [c for c in astq.func_calls(f) if astq.attr_call(c, "read") and astq.is_name(c.func.value, "file_")]
    ctx.need(len(reads_) >= 2, R, "header reads not found")
    cfg = CFG(f.node)
    rd = ReachingDefs(f, cfg)
    loops = [n for n in f.body_nodes() if isinstance(n, ast.For)]
    ctx.need(len(loops) >= 1, R, "field loop not found")
    fl = loops[0]
    buf_names = {x.id for x in ast.walk(fl.iter) if isinstance(x, ast.Name)}
    for c in reads_:
        st = astq.enclosing_stmt(pm, c)
        # the reads also position the stream at the first sample: whether one happens may depend on sizes, never on what the bytes say
        for a in astq.ancestors(pm, c):
            if isinstance(a, (ast.If, ast.IfExp, ast.While)) and not any(y is c for y in ast.walk(a.test)):
                content = [x for x in ast.walk(a.test) if (isinstance(x, ast.Compare) and any(isinstance(o, (ast.In, ast.NotIn)) for o in x.ops))
                           or (isinstance(x, ast.Call) and isinstance(x.func, ast.Attribute) and x.func.attr in ("find", "rfind", "index", "startswith", "endswith", "count", "search", "match"))]
                if content and any(isinstance(y, ast.Name) and y.id in buf_names for y in ast.walk(a.test)):
                    ctx.bad(R, f, a, "whether `%s` is executed depends on the bytes already read (`%s`): when it is skipped the stream is left inside the header "
                            "block and the rest of the header is decoded as samples" % (astq.text(c)[:50], astq.text(a.test)[:50]),
                            "the whole header block is consumed before the samples are read, whatever it contains", robust=True)
        if isinstance(st, ast.Expr):
            ctx.bad(R, f, st, "header bytes are read from the stream and discarded; fields (or end_head) located past the "
                    "first 1024 bytes of a larger header are never seen by the field parser",
                    "every header byte read reaches the field parser")
            continue
        tgt = None
        if isinstance(st, ast.Assign) and isinstance(st.targets[0], ast.Name):
            tgt = st.targets[0].id
        elif isinstance(st, ast.AugAssign) and isinstance(st.target, ast.Name) and isinstance(st.op, ast.Add):
            tgt = st.target.id
        ok = tgt in buf_names
        if ok:
            # that definition must reach the field loop
            n_loop = cfg.node(fl)
            n_def = cfg.node(st)
            frontier, seen, ok = [n_def], set(), False
            while frontier and not ok:
                cur = frontier.pop()
                seen.add(cur)
                if any(d.node == cur for d in rd.reaching(n_loop, tgt)):
                    ok = True
                    break
                for m, stm in cfg.stmt.items():
                    if isinstance(stm, ast.AugAssign) and astq.is_name(stm.target, tgt) and m not in seen \
                            and any(d.node == cur for d in rd.reaching(m, tgt)):
                        frontier.append(m)
        ctx.check(ok, R, f, st, "bytes read from the stream reach the buffer that is split into header fields",
                  "the result of %s does not reach the buffer parsed for header fields" % astq.text(c))
    # first read is 1024 bytes and is validated (length and magic) before anything else
    ev = SymEval(prog, f).run()
    guards = [S.show(g) for g, _ in ev.raises]
    txt = " || ".join(guards)
    need = [("1024", "the first block is checked to be 1024 bytes long"), ("NIST_1A", "the NIST_1A magic is checked"),
            ("end_head", "a missing end_head is rejected")]
    for token, what in need:
        ctx.check(token in txt, R, f, f.node, what, "no raise in read_header is conditioned on %s" % token, structural=True)
    # header size below 1024 is rejected
    hs = [r for g, r in ev.raises if "< 1024" in S.show(g) and "int(" in S.show(g)]
    ctx.check(bool(hs), R, f, f.node, "a header size below 1024 is rejected", "no raise is conditioned on the header size being below 1024")
    # mandatory fields
    last = ev.raises[-1][0] if ev.raises else None
    mand = [g for g, r in ev.raises if all(k in S.show(g) for k in ("sampcount", "samprate", "chancount"))]
    ctx.check(bool(mand), R, f, f.node, "a header lacking sample_count / sample_rate / channel_count is rejected",
              "no raise is conditioned on the mandatory fields sample_count, sample_rate and channel_count", structural=True)
    # sphere_read_signal passes IOError objects
    g = prog.func("_sphere.sphere_read_signal")
    n_err = 0
    for c in astq.func_calls(g):
        r = prog.resolve(g.module, c.func, g)
        if r is f or r is prog.func("_sphere.copy_samples"):
            e = c.args[1] if r is f else (c.args[3] if len(c.args) > 3 else None)
            ok = isinstance(e, ast.Call) and prog.dotted(e.func) in ("IOError", "OSError")
            n_err += 1
            ctx.check(ok, R, g, c, "sphere_read_signal passes an IOError to %s" % r.name,
                      "%s is given %s as its error, not an IOError" % (r.name, astq.text(e) if e is not None else "nothing"))
    ctx.floor(R + "/error-objects", n_err, 2)


# ------------------------------------------------- byte order, expansion, types
def conversions(ctx):
    prog = ctx.prog
    R = "R-C12-shape-order"
    f, ev = _copy_eval(ctx, R)
    # byte order from sample_byte_format
    nb = [c for c in astq.func_calls(f) if astq.attr_call(c, "newbyteorder")]
    pm = astq.parents(f)
    if not nb:
        # byte order corrected by swapping bytes instead of through the input dtype: the swap has to be done on the stored
        # samples (their own width); on the output array, whose dtype is the caller's and may be wider, it permutes the bytes of
        # the widened value
        swaps = [c for c in astq.func_calls(f) if astq.attr_call(c, "byteswap")]
        ctx.need(swaps, R, "neither a newbyteorder nor a byteswap call found in copy_samples")
        for c in swaps:
            root = c.func.value
            while isinstance(root, (ast.Subscript, ast.Attribute)):
                root = root.value
            defs_ = [n.value for n in f.body_nodes() if isinstance(n, ast.Assign) and isinstance(root, ast.Name) and any(astq.is_name(t_, root.id) for t_ in n.targets)]
            kinds = set()
            for d_ in defs_:
                if isinstance(d_, ast.Call) and (prog.qualify(f.module, d_.func, f) or "") in ("numpy.empty", "numpy.zeros", "numpy.frombuffer", "numpy.fromfile"):
                    dt_ = astq.kw(d_, "dtype")
                    kinds.add(astq.text(dt_) if dt_ is not None else "?")
                elif isinstance(d_, ast.Subscript) and astq.is_name(d_.value, root.id):
                    continue  # trimming of the same array
                elif isinstance(d_, ast.Call) and isinstance(d_.func, ast.Attribute) and astq.is_name(d_.func.value, root.id) and d_.func.attr in ("reshape", "ravel", "transpose"):
                    continue  # same data, same dtype
                else:
                    kinds.add("?")
            if kinds == {"dtype"}:
                ctx.bad(R, f, c, "the byte order of foreign-endian samples is corrected by `%s` on the output array, whose dtype is the one the caller asked for: "
                        "when that is wider than the stored samples (float64 from the command-line tools, int32) the mis-ordered value is widened first and "
                        "then all of its bytes are swapped, so every sample of such a file decodes to garbage" % astq.text(c)[:60],
                        "16-bit PCM in either byte order decodes to exactly the stored samples, for every requested dtype", robust=True)
                return
            ctx.error(R, "cannot decide the byte-order handling: byteswap on an array of dtype %s" % sorted(kinds))
            return
    ctx.need(len(nb) == 1, R, "newbyteorder call not found")
    v = ev.eval_at(astq.enclosing_stmt(pm, nb[0]), nb[0].args[0])
    want = S.cond(S.cmp("==", S.sym("inporder"), S.lift("10")), S.lift(">"), S.lift("<"))
    ok = v == want or v == S.cond(S.cmp("!=", S.sym("inporder"), S.lift("10")), S.lift("<"), S.lift(">")) \
        or v == S.cond(S.cmp("==", S.sym("inporder"), S.lift("01")), S.lift("<"), S.lift(">"))
    ctx.check(ok, R, f, nb[0], "sample_byte_format '10' selects big-endian, otherwise little-endian",
              "byte order is chosen as %s, not '>' iff sample_byte_format == '10'" % S.show(v))
    # sample size -> input type
    sizes = {}
    for n in f.body_nodes():
        if isinstance(n, ast.If) and isinstance(n.test, ast.Compare) and astq.is_name(n.test.left, "sampsize") and isinstance(n.test.ops[0], ast.Eq):
            c = n.test.comparators[0]
            if isinstance(c, ast.Constant) and n.body and isinstance(n.body[0], ast.Assign) and astq.is_name(n.body[0].targets[0], "in_type"):
                v_ = n.body[0].value
                if isinstance(v_, ast.Call) and (prog.qualify(f.module, v_.func, f) or "") == "numpy.dtype" and len(v_.args) == 1 and not v_.keywords:
                    v_ = v_.args[0]    # np.dtype(np.uint8): the same type, as a dtype object
                sizes[c.value] = prog.qualify(f.module, v_, f)
    ctx.check(sizes == {1: "numpy.uint8", 2: "numpy.int16", 4: "numpy.int32"}, R, f, f.node,
              "sample_n_bytes 1/2/4 are read as uint8/int16/int32", "sample size to input type table is %s" % sizes)
    # expansion iff target wider than a byte, table by coding
    R2 = "R-C12-expansion"
    loop = [n for n in f.body_nodes() if isinstance(n, ast.While)][0]
    if _expansion_by_value(ctx, R2, f, ev, loop):
        return
    conv_assign = [n for n in f.body_nodes() if isinstance(n, ast.Assign) and astq.is_name(n.targets[0], "convert")
                   and isinstance(n.value, ast.Constant) and n.value.value is True]
    ctx.need(len(conv_assign) == 1, R2, "`convert = True` not found")
    g = [a for a in astq.ancestors(pm, conv_assign[0]) if isinstance(a, ast.If)]
    ctx.need(len(g) == 1, R2, "guard of `convert = True` not recognised")
    gt = ev.eval_at(g[0], g[0].test)
    s = S.show(gt)
    ok = ("sampsize < " in s and "itemsize" in s) and ("alaw" in s and "ulaw" in s)
    ctx.check(ok, R2, f, g[0], "G.711 codes are expanded iff the requested sample type is wider than the stored one",
              "expansion is enabled under %s" % s, structural=True)
    tabs = {}
    for n in ast.walk(loop):
        if isinstance(n, ast.Assign) and isinstance(n.value, ast.Subscript) and isinstance(n.value.value, ast.Name) and n.value.value.id in spec.G711:
            gg = [a for a in astq.ancestors(pm, n) if isinstance(a, ast.If)]
            tabs[n.value.value.id] = astq.text(gg[0].test) if gg else ""
            par = gg[0] if gg else MISSING(None)
            if par is not None and n in par.orelse:
                tabs[n.value.value.id] = "else of " + astq.text(par.test)
    ok = "ALAW2PCM" in tabs and "alaw" in tabs["ALAW2PCM"] and "convert" in tabs["ALAW2PCM"] and not tabs["ALAW2PCM"].startswith("else") \
        and "ULAW2PCM" in tabs and "convert" in tabs["ULAW2PCM"]
    ctx.check(ok, R2, f, loop, "A-law data goes through ALAW2PCM and mu-law data through ULAW2PCM, only when converting",
              "expansion table selection is %s" % tabs)



def _expansion_by_value(ctx, R, f, ev, loop):
    """what is stored into the output, per coding and width scenario: A-law codes through ALAW2PCM and mu-law codes through
    ULAW2PCM when (and only when) the requested type is wider than the stored one; everything else as read"""
    from .. import scenario as SC
    stores = [n for n in ast.walk(loop) if isinstance(n, ast.Assign) and isinstance(n.targets[0], ast.Subscript) and astq.base_name(n.targets[0]) == "data"]
    if len(stores) != 1:
        return False
    try:
        val = ev.eval_at(stores[0], stores[0].value)
    except Exception:
        return False
    modq = f.module.name
    what = "A-law data goes through ALAW2PCM and mu-law data through ULAW2PCM, exactly when the requested type is wider than the stored one"

    SIZES = {"uint8": 1, "int8": 1, "int16": 2, "int32": 4, "float32": 4, "float64": 8}

    def spec_(e, samptype, sampsize, dtype):
        def fn(x):
            if x.op == "sym":
                if x.args[0] == "samptype":
                    return S.lift(samptype)
                if x.args[0] == "sampsize":
                    return S.lift(sampsize)
                if x.args[0] == "dtype":
                    return S.NONE if dtype is None else S.sym("numpy." + dtype)
                return None
            if SC.is_call(x, "np.dtype", "numpy.dtype") and len(x.args) == 2 and x.args[1].op == "sym":
                nm = x.args[1].args[0]
                if nm.startswith("dt:"):
                    return x.args[1]
                if nm.startswith(("numpy.", "np.")) and nm.split(".", 1)[1] in SIZES:
                    return S.sym("dt:" + nm.split(".", 1)[1])
                return None
            if SC.is_call(x, "np.promote_types", "numpy.promote_types", "np.result_type", "numpy.result_type") and len(x.args) == 3:
                def dtn(y):
                    if y == S.NONE:
                        return "float64"    # numpy reads None as its default type
                    if y.op == "sym" and y.args[0].startswith("dt:"):
                        return y.args[0][3:]
                    if y.op == "sym" and y.args[0].startswith(("numpy.", "np.")) and y.args[0].split(".", 1)[1] in SIZES:
                        return y.args[0].split(".", 1)[1]
                    return None
                a_, b_ = dtn(x.args[1]), dtn(x.args[2])
                if a_ and b_:
                    # NumPy's promotion lattice on the types that occur here
                    rank = {"uint8": ("u", 8), "int8": ("i", 8), "int16": ("i", 16), "int32": ("i", 32), "float32": ("f", 32), "float64": ("f", 64)}
                    (ka, ba), (kb, bb) = rank[a_], rank[b_]
                    if a_ == b_:
                        r_ = a_
                    elif "f" in (ka, kb):
                        ib = max([b for k, b in ((ka, ba), (kb, bb)) if k != "f"] or [0])
                        fb = max([b for k, b in ((ka, ba), (kb, bb)) if k == "f"])
                        r_ = "float64" if (fb == 64 or ib >= 32) else "float32"
                    elif ka == kb:
                        r_ = a_ if ba >= bb else b_
                    else:
                        ub = ba if ka == "u" else bb
                        sb = ba if ka == "i" else bb
                        r_ = "int%d" % max(sb, 2 * ub)
                    return S.sym("dt:" + r_)
            if SC.is_call(x, ".itemsize") and len(x.args) == 2 and x.args[1].op == "sym" and x.args[1].args[0].startswith("dt:"):
                return S.lift(SIZES[x.args[1].args[0][3:]])
            if x.op == "cmp" and x.args[0] in ("==", "!=", "is", "is not"):
                a_, b_ = x.args[1], x.args[2]
                def dt(y):
                    if y.op == "sym" and y.args[0].startswith("dt:"):
                        return y.args[0][3:]
                    if y.op == "sym" and y.args[0].startswith(("numpy.", "np.")) and y.args[0].split(".", 1)[1] in SIZES:
                        return y.args[0].split(".", 1)[1]
                    return None
                if dt(a_) and dt(b_):
                    return S.lift((dt(a_) == dt(b_)) == (x.args[0] in ("==", "is")))
                if (dt(a_) and b_ == S.NONE) or (dt(b_) and a_ == S.NONE):
                    return S.lift(x.args[0] in ("!=", "is not"))
                if x.args[0] in ("is", "is not") and b_ == S.NONE:
                    if a_ == S.NONE:
                        return S.lift(x.args[0] == "is")
                    if a_.op == "sym" and a_.args[0].startswith(modq + "."):
                        return S.lift(x.args[0] == "is not")  # a module-level table is not None
                return None
            if x.op in ("not", "bool") and x.args[0].op == "sym" and x.args[0].args[0].startswith(("dt:", "numpy.")):
                return S.lift(x.op == "bool")  # a dtype / a scalar type is truthy
            return SC.fold_membership(x)
        out = e
        for _ in range(6):
            nxt = SC.transform(out, fn)
            if nxt == out:
                break
            out = nxt
        return out
    n_ok = 0
    scen = [(st, 1, dt_) for st in ("alaw", "ulaw") for dt_ in (None, "uint8", "int8", "int16", "int32", "float32", "float64")] + \
           [("pcm", 1, None), ("pcm", 1, "int16"), ("pcm", 2, None), ("pcm", 2, "float64"), ("pcm", 4, None)]
    for samptype, sampsize, dtype in scen:
        if True:
            got = spec_(val, samptype, sampsize, dtype)
            if got.op in ("cond", "unknown"):
                return False  # the choice of table still depends on something the scenario does not fix
            tab = None
            if SC.is_call(got, "getitem") and len(got.args) == 3 and got.args[1].op == "sym" and got.args[1].args[0].startswith(modq + "."):
                tab = got.args[1].args[0].rsplit(".", 1)[1]
            if any(x.op == "sym" and x.args[0].rsplit(".", 1)[-1] in spec.G711 for y in (got.args[2:] if tab else [got]) for x in S.walk(y) if isinstance(x, S.E)):
                return False  # a table used somewhere below the top of the value: not a shape this clause reads
            wide = SIZES[dtype or ("int16" if samptype in ("alaw", "ulaw") else {1: "uint8", 2: "int16", 4: "int32"}[sampsize])] > sampsize
            want = {"alaw": "ALAW2PCM", "ulaw": "ULAW2PCM"}.get(samptype) if wide else None
            sc = "sample_coding %s, %d-byte samples, dtype=%s" % (samptype, sampsize, dtype)
            if tab != want:
                ctx.bad(R, f, stores[0], "[%s] the samples stored are %s, documented: %s" % (
                    sc, ("looked up in %s" % tab) if tab else "the codes as read", ("looked up in %s" % want) if want else "the codes as read"), what, robust=True)
                return True
            n_ok += 1
    ctx.ok(R, f.loc(stores[0]), what, "%d coding x width scenarios evaluated" % n_ok)
    return True


def field_types(ctx, R="R-C12-header"):
    """Header values are typed by their declared format: only `-i` fields become integers.  The decoder compares
    sample_byte_format with the strings '10' / '01' and tests sample_coding by prefix, so a conversion that is not restricted
    to `-i` turns `-s2 10` into the integer 10 and silently selects the wrong byte order."""
    prog = ctx.prog
    f = prog.func("_sphere.read_header")
    ev = SymEval(prog, f, loop_first=True).run()
    convs = []
    for n in f.body_nodes():
        if isinstance(n, ast.Assign) and isinstance(n.value, ast.Call) and astq.is_name(n.value.func, "int") and n.value.args and isinstance(n.value.args[0], ast.Name):
            src = n.value.args[0].id
            tg = [t.id for t in n.targets if isinstance(t, ast.Name)]
            if tg and tg[0] == src:
                convs.append(n)
    fields = [n for n in convs if ev.reached(n) and any(isinstance(a, ast.For) for a in astq.ancestors(astq.parents(f), n))]
    ctx.need(len(fields) >= 1, R, "the integer conversion of header field values was not found in the field loop")
    for n in fields:
        g = ev.guard_of(n)
        facts = [x for x in S.walk(g) if isinstance(x, S.E) and x.op == "cmp" and x.args[0] == "==" and any(a.is_const and a.value == "-i" for a in x.args[1:])]
        # the guard must imply fmt == '-i': specialise with the comparison false and see the guard fold to false
        from .. import scenario as SC
        off = SC.transform(g, lambda x: S.FALSE if (x.op == "cmp" and x.args[0] == "==" and any(a.is_const and a.value == "-i" for a in x.args[1:])) else None)
        ok = bool(facts) and off.is_const and not S.truthy(off)
        ctx.check(ok, R, f, n, "only fields declared -i are converted to integers (string fields such as sample_byte_format keep their text)",
                  "the field value is converted with int() under the condition `%s`, not only for fields declared -i: `sample_byte_format -s2 10` becomes the "
                  "integer 10, which the decoder's test against the string '10' never matches (big-endian data decoded as little-endian)" % S.show(g)[:120], robust=True)


def dtype_reaches_decoder(ctx, R="R-C12-expansion"):
    """Whether G.711 codes are expanded is decided inside the decoder from the requested dtype; every call of
    sphere_read_signal must therefore hand the caller's dtype on (a later .astype cannot undo an expansion)."""
    prog = ctx.prog
    target = prog.func("_sphere.sphere_read_signal")
    n = 0
    for g in prog.functions.values():
        if g is target:
            continue
        for c in astq.func_calls(g):
            try:
                r = prog.resolve(g.module, c.func, g)
            except Exception:
                r = None
            if r is not target:
                continue
            n += 1
            a = c.args[1] if len(c.args) > 1 else astq.kw(c, "dtype")
            ok = isinstance(a, ast.Name) and a.id in g.all_param_names()
            if ok:
                # ... and it still holds the caller's value there (not re-bound on a path to the call)
                try:
                    cfg_ = CFG(g.node)
                    rd_ = ReachingDefs(g, cfg_)
                    defs_ = rd_.reaching(containing_node(cfg_, g, c), a.id)
                    rebound = [d_ for d_ in defs_ if d_.kind != "param"]
                    if rebound:
                        ok = False
                        a = ast.parse("%s  # re-bound before the call: %s" % (a.id, ""), mode="eval").body if False else a
                        ctx.bad(R, g, c, "`%s` is re-bound before sphere_read_signal is called (%s): the decoder no longer receives the dtype the caller asked for, "
                                "expands 8-bit mu-law / A-law codes although a 1-byte dtype was requested, and the later cast wraps the expanded values"
                                % (a.id, astq.text(getattr(rebound[0], "stmt", None))[:60] if getattr(rebound[0], "stmt", None) is not None else "assignment"),
                                "the requested dtype is handed to the SPHERE decoder (it decides the G.711 expansion)", robust=True)
                        continue
                except Exception:
                    pass
            ctx.check(ok, R, g, c, "the requested dtype is handed to the SPHERE decoder (it decides the G.711 expansion)",
                      "sphere_read_signal is called with dtype %s: the decoder then expands 8-bit mu-law / A-law codes to 16 bits although a 1-byte dtype was "
                      "requested, and a later cast wraps the expanded values" % (astq.text(a) if a is not None else "<none>"), robust=True)
    ctx.need(n >= 1, R, "no call of sphere_read_signal found outside _sphere.py")
