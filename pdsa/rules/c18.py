"""C18 - pre-processors apply the documented sample-wise transforms."""

import ast

from .. import astq
from .. import sym as S
from ..cfg import CFG
from ..dataflow import containing_node
from ..eff import Effects
from ..report import MISSING
from ..model import AnalysisError
from ..symeval import SymEval
from .. import scenario as SC
from . import cli_common as cc
from . import rng
from .c20 import fresh_and_pure, CACHE_DECOS

LEVEL = "other"
TECHNIQUE = ("forward substitution + scenario evaluation of the value returned by apply against the documented closed form, effect "
             "analysis with the in_place flag, provenance of the arguments of the random draw, purity of apply")
EXPLANATION = (
    "Decides: the value Dither.apply / Preemphasize.apply return, forward-substituted (helpers, temporaries and conditional "
    "expressions read through) and specialised to every scenario in_place x input dtype (float64, float32, int16) x axis (None, -1, "
    "other) x rank, is the documented expression: a float64 working copy unless in_place on a float64 array, "
    "x[..., 1:] -= coeff * x[..., :-1] along the chosen axis (right-hand side materialised first, sample 0 kept) resp. one "
    "numpy.random.normal(0, coeff, <shape only>) added, then astype(<input dtype>); no chunked / looped stencil; the torch twins are "
    "the same stencil with a prepended zero and sig + coeff * randn_like(sig); in-place writes reach an alias of the input only "
    "when in_place is true; the draw comes from the global generator, apply keeps no state. Does NOT decide distributional facts "
    "(zero mean, standard deviation).")


def run(ctx):
    ctx.rule(value)
    ctx.rule(stencil)
    ctx.rule(empty_signal)
    ctx.rule(readonly)
    ctx.rule(dither)


def _apply(prog, name):
    return prog.own_method(prog.cls("pre." + name), "apply")


_DTYPES = {"float64": ("f", 8), "float32": ("f", 4), "int16": ("i", 2)}


def _spec(e, sig, ip, dtname, axis_kind, rank):
    """the value e in the scenario (in_place = ip, input dtype, axis none / last / other, rank) on a writeable array"""
    axis = S.sym("axis")
    f64 = dtname == "float64"
    kind, itemsize = _DTYPES[dtname]
    dt_names = {sig + ".dtype"}
    f64_names = {"numpy.float64", "np.float64"}

    def shape_of(x):
        return (x.op == "sym" and x.args[0] == sig + ".shape") or (SC.is_call(x, ".shape") and True)

    def fn(x):
        if x.op == "sym":
            if x.args[0] == "in_place":
                return S.lift(ip)
            if x.args[0] == "axis" and axis_kind != "other":
                return S.NONE if axis_kind == "none" else S.lift(-1)
            if x.args[0] == sig + ".ndim":
                return S.lift(rank)
            if x.args[0] == sig + ".dtype.kind":
                return S.lift(kind)
            if x.args[0] == sig + ".dtype.itemsize":
                return S.lift(itemsize)
            if x.args[0] in (sig + ".flags.writeable", sig + ".flags.owndata", sig + ".flags.c_contiguous"):
                return S.TRUE
            return None
        if x.op == "cmp":
            op, a, b = x.args
            if op in ("==", "!=") and ({S.show(a), S.show(b)} & dt_names) and ({S.show(a), S.show(b)} & f64_names):
                return S.lift(f64 if op == "==" else not f64)
            if op in ("in", "not in") and a.is_const and b.is_const and isinstance(a.value, str) and isinstance(b.value, str):
                return S.lift((a.value in b.value) == (op == "in"))
            if op in ("==", "!=") and a.is_const and b.is_const and isinstance(a.value, str) and isinstance(b.value, str):
                return S.lift((a.value == b.value) == (op == "=="))
            m = SC.fold_membership(x, not_among={"axis": (-1, None)})
            if m is not None:
                return m
            if axis_kind == "other" and a == axis and b.is_const and (b.value is None or b.value == -1):
                if op in ("is", "=="):
                    return S.FALSE
                if op in ("is not", "!="):
                    return S.TRUE
            return None
        if x.op in ("not", "bool") and shape_of(x.args[0]):
            return S.lift((rank == 0) if x.op == "not" else (rank > 0))
        if x.op == "call":
            nm = x.args[0]
            if nm in ("numpy.issubdtype", "np.issubdtype") and len(x.args) == 3 and S.show(x.args[1]) in dt_names:
                cls = S.show(x.args[2]).split(".")[-1]
                table = {"floating": kind == "f", "inexact": kind == "f", "integer": kind in "iu", "signedinteger": kind == "i", "unsignedinteger": kind == "u",
                         "number": True, "float64": f64, "float32": dtname == "float32", "int16": dtname == "int16"}
                if cls in table:
                    return S.lift(table[cls])
            if nm in (".shape", ".ndim", ".dtype") and len(x.args) == 2:
                inner = x.args[1]
                if nm != ".dtype" and SC.is_call(inner, ".astype", "numpy.moveaxis") and nm == ".ndim" or (nm == ".shape" and SC.is_call(inner, ".astype")):
                    return fn(S.call(nm, inner.args[1])) or S.call(nm, inner.args[1])  # astype keeps the shape, moveaxis the rank
                if inner.op == "sym":
                    return fn(S.sym(inner.args[0] + nm)) or S.sym(inner.args[0] + nm)
                if nm == ".ndim":
                    return S.lift(rank)
            if nm == "len" and len(x.args) == 2 and shape_of(x.args[1]):
                return S.lift(rank)
            if nm == "tuple" and len(x.args) == 2 and isinstance(x.args[1], S.E) and (SC.is_call(x.args[1], "stored", "list") or x.args[1].op == "mul"):
                return x.args[1]  # tuple(<list of lengths>): as a shape argument the same thing as the list
        return None

    out = SC.canon_np(e)
    for _ in range(4):
        nxt = SC.transform(out, fn)
        if nxt == out:
            break
        out = nxt
    return out


def _scenarios(with_scalar):
    for ip in (True, False):
        for f64 in ("float64", "float32", "int16"):
            for rank in ((0, 1, 2, 3) if with_scalar else (1, 2, 3)):
                for ak in ("none", "last", "other"):
                    if ak != "none" and rank == 0:
                        continue
                    if ak == "other" and rank < 2:
                        continue
                    yield ip, f64, ak, rank


_VOCAB = {".astype", "numpy.moveaxis", "stored", "getitem", "tuple", "slice", "kw:copy", "numpy.random.normal", "list"}


# element-wise functions that are not the identity: their presence in a value that should not contain them is a difference
_NOT_IDENTITY = {"numpy.rint", "numpy.round", "numpy.around", "numpy.floor", "numpy.ceil", "numpy.trunc", "numpy.fix", "numpy.clip",
                 "numpy.abs", "numpy.absolute", "numpy.sign", "numpy.negative", "numpy.flip", "numpy.roll", ".round", ".clip"}


def value(ctx, R="R-C18-value"):
    """The value returned by apply, specialised to every scenario, is the documented one."""
    prog = ctx.prog
    for name in ("Dither", "Preemphasize"):
        f = _apply(prog, name)
        sig = f.params[1]
        ev = SymEval(prog, f).run()
        ctx.need(len(ev.returns) >= 1, R, "%s.apply has no return value" % name)
        if len(ev.returns) == 1:
            val, rnode = ev.returns[0][1], ev.returns[0][2]
        else:
            val, rnode = None, ev.returns[-1][2]
            for g, v, node in reversed(ev.returns):
                val = v if val is None else S.cond(g, v, val)
        sg, cf, dt, f64t = S.sym(sig), S.sym("self.coeff"), S.sym(sig + ".dtype"), S.sym("numpy.float64")
        i1 = S.call("tuple", S.sym("Ellipsis"), S.call("slice", S.lift(1), S.NONE, S.NONE))
        i0 = S.call("tuple", S.sym("Ellipsis"), S.call("slice", S.NONE, S.lift(-1), S.NONE))
        n_ok = 0
        for ip, f64, ak, rank in _scenarios(name == "Dither"):
            sc = "in_place=%s, %s input, axis %s, rank %d" % (ip, f64, {"none": "None", "last": "-1", "other": "k (not the last)"}[ak], rank)
            got = _spec(val, sig, ip, f64, ak, rank)
            W = sg if (ip and f64 == "float64") else S.call(".astype", sg, f64t)
            if name == "Dither":
                if ak == "none" or rank < 2:
                    size = S.sym(sig + ".shape")
                else:
                    ax = S.lift(-1) if ak == "last" else S.sym("axis")
                    size = S.call("stored", S.mul(S.call("list", S.lift(1)), S.lift(rank)), ax, S.call("getitem", S.sym(sig + ".shape"), ax))
                body = S.add(W, S.call("numpy.random.normal", S.ZERO, cf, size))
                what = "Dither.apply returns (float64 working array) + numpy.random.normal(0, coeff, shape) cast back to the input dtype"
            else:
                M = W if ak != "other" else S.call("numpy.moveaxis", W, S.sym("axis"), S.lift(-1))
                U = S.call("stored", M, i1, S.sub(S.call("getitem", M, i1), S.mul(cf, S.call("getitem", M, i0))))
                body = U if ak != "other" else S.call("numpy.moveaxis", U, S.lift(-1), S.sym("axis"))
                what = "Preemphasize.apply returns x with x[..., 1:] -= coeff * x[..., :-1] along the chosen axis (sample 0 kept), cast back to the input dtype"
            wants = [S.call(".astype", body, dt, S.call("kw:copy", S.FALSE)), S.call(".astype", body, dt)]
            if got in wants or any(S.compare(got, w, domain={})["verdict"] == "equal" for w in wants):
                n_ok += 1
                continue
            # a special case for signals of fewer than two samples along the axis (nothing to difference against, nothing else
            # changes for Dither): two more scenarios - long signals take the general path, short ones must still come back as the
            # working array cast to the input dtype
            def _len_test(x):
                if x.op == "cmp" and x.args[0] in ("<", "<=", ">", ">=", "==", "!=") and x.args[2].is_const and x.args[2].value in (0, 1, 2):
                    a_ = x.args[1]
                    if (SC.is_call(a_, "getitem") and a_.args[1] == S.sym(sig + ".shape")) or a_ == S.sym(sig + ".size") or (SC.is_call(a_, "len") and a_.args[1] == sg):
                        k_ = int(x.args[2].value)
                        op_ = x.args[0]
                        # truth for a long signal (length >= 2) and for a short, non-empty one (length 1)
                        def tv(n_):
                            return {"<": n_ < k_, "<=": n_ <= k_, ">": n_ > k_, ">=": n_ >= k_, "==": n_ == k_, "!=": n_ != k_}[op_]
                        return tv(5), tv(1)
                if x.op in ("not", "bool") and x.args[0] == S.sym(sig + ".ndim"):
                    return (x.op == "bool"), (x.op == "bool")
                return None
            if any(_len_test(x) is not None for x in S.walk(got) if isinstance(x, S.E)):
                def spec_len(e, which):
                    out = e
                    for _ in range(4):
                        nxt = SC.transform(out, lambda x: (S.lift(_len_test(x)[which]) if _len_test(x) is not None else None))
                        if nxt == out:
                            break
                        out = nxt
                    return out
                g_long, g_short = spec_len(got, 0), spec_len(got, 1)
                ok_long = g_long in wants or any(S.compare(g_long, w, domain={})["verdict"] == "equal" for w in wants)
                short_wants = wants + [S.call(".astype", W, dt, S.call("kw:copy", S.FALSE)), S.call(".astype", W, dt)] + ([sg] if (ip and f64 == "float64") else [])
                ok_short = name == "Dither" and False or (g_short in short_wants or any(S.compare(g_short, w, domain={})["verdict"] == "equal" for w in short_wants))
                if name == "Preemphasize" and ok_long and ok_short:
                    n_ok += 1
                    continue
                if name == "Preemphasize" and ok_long and not ok_short and not SC.residual_conditions(g_short) and not S.has_unknown(g_short):
                    ctx.bad(R, f, rnode, "[%s, fewer than two samples along the axis] apply returns %s ; documented: the working array cast back to the input dtype (%s)"
                            % (sc, S.show(g_short)[:200], S.show(short_wants[-2 if not (ip and f64 == "float64") else -3])[:160]), what, robust=True)
                    break
            calls, syms = SC.vocabulary(got)
            undecided = SC.residual_conditions(got) or S.has_unknown(got) or (calls - _VOCAB - _NOT_IDENTITY) or (syms - {sig, "self.coeff", sig + ".dtype", sig + ".shape", "numpy.float64", "axis", "Ellipsis"})
            msg = "[%s] apply returns %s ; documented: %s" % (sc, S.show(got)[:260], S.show(wants[0])[:260])
            if undecided:
                ctx.error(R, "cannot decide %s.apply in scenario [%s]: the value uses constructs outside the rule's vocabulary (%s) -- %s" % (
                    name, sc, ", ".join(sorted(str(c) for c in (calls - _VOCAB)))[:80] or "unresolved condition", S.show(got)[:200]))
            else:
                ctx.bad(R, f, rnode, msg, what)
            break
        else:
            ctx.ok(R, f.loc(rnode), what, "%d scenarios (in_place x input dtype float64/float32/int16 x axis none/last/other x rank) evaluated" % n_ok)
    for name in ("Dither", "Preemphasize"):
        Rn = "R-C18-stencil" if name == "Preemphasize" else "R-C18-dither-independence"
        init = prog.find_method(prog.cls("pre." + name), "__init__")
        if init is None:
            ctx.error(Rn, "cannot decide how %s stores its coefficient: no __init__ found along its class hierarchy" % name)
            continue
        evi = SymEval(prog, init).run()
        got = evi.env.get("self.coeff")
        cname = next((p_ for p_ in init.params[1:] if p_ == "coeff"), init.params[1] if len(init.params) > 1 else "coeff")
        plain = got is not None and (got == S.sym(cname) or got == S.call("float", S.sym(cname)))
        if plain:
            ctx.ok(Rn, init.loc(), "coeff is stored unchanged")
            continue
        # a stored value that depends on the truth value of coeff replaces 0 / 0.0 by something else: coeff = 0 is the identity
        # transform (no noise, no emphasis) and must stay 0
        falsy_replaced = got is not None and any(isinstance(x, S.E) and x.op in ("or", "cond") and any(
            (a_ == S.sym(cname) or (isinstance(a_, S.E) and a_.op in ("bool", "not") and a_.args[0] == S.sym(cname))) for a_ in x.args) for x in S.walk(got))
        if falsy_replaced:
            ctx.bad(Rn, init, init.node, "%s stores its coefficient as %s: a coefficient of 0 (no noise / no emphasis - the identity) is falsy and is replaced" % (
                name, S.show(got)[:80]), "coeff is stored unchanged", robust=True)
        else:
            ctx.check(False, Rn, init, init.node, "coeff is stored unchanged", "%s.__init__ stores coeff as %s" % (name, S.show(got) if got is not None else "nothing"),
                      structural=(got is None or S.has_unknown(got)))


def stencil(ctx, R="R-C18-stencil"):
    prog = ctx.prog
    f = _apply(prog, "Preemphasize")
    loops = [n for n in f.body_nodes() if isinstance(n, (ast.For, ast.While))]
    ctx.check(not loops, R, f, loops[0] if loops else MISSING(f.node), "the update is not chunked or looped (no read of already-updated samples)",
              "pre-emphasis is applied piecewise in a loop; a piece that reads the sample before its first one after an earlier piece "
              "overwrote it computes x[i] - coeff*y[i-1] instead of x[i] - coeff*x[i-1]")
    # torch twin
    g = prog.func("torch.pytorch_preemphasize")
    ev = SymEval(prog, g).run()
    v = ev.returns[0][1]
    sg, cf = S.sym(g.params[0]), S.sym(g.params[1])
    ok = False
    for nm in ("torch.concatenate", "torch.cat"):
        ext = S.call(nm, S.call("list", S.call(".new_zeros", sg, S.lift(1)), sg))
        want = S.sub(S.call("getitem", ext, S.call("slice", S.lift(1), S.NONE, S.NONE)),
                     S.mul(cf, S.call("getitem", ext, S.call("slice", S.NONE, S.lift(-1), S.NONE))))
        ok = ok or S.compare(v, want, domain={})["verdict"] == "equal"
    ctx.check(ok, R, g, ev.returns[0][2], "the torch twin is the same stencil with a zero before the first sample",
              "pytorch_preemphasize returns %s" % S.show(v)[:140])


def readonly(ctx, R="R-C18-readonly"):
    prog = ctx.prog
    eff = Effects(prog, flag="in_place")
    for name in ("Dither", "Preemphasize"):
        f = _apply(prog, name)
        ws, _ = eff.writes_to(f, f.params[1])
        bad = [w for w in ws if False in w.flags]
        ctx.check(not bad, R, f, bad[0].stmt if bad else f.node, "%s.apply writes through the input only when in_place is true" % name,
                  "%s.apply can modify the caller's array with in_place=False (%s)" % (name, ", ".join(sorted({w.how for w in bad}))), robust=True)
        from ..eff import check_result_fresh
        check_result_fresh(ctx, R, f)
        ctx.check(len(ws) >= 1, R, f, f.node, "%s.apply does operate in place when allowed (the in_place flag is honoured)" % name,
                  "%s.apply never works in place; in_place=True would be ignored" % name, robust=True)


def dither(ctx, R="R-C18-dither-independence"):
    prog = ctx.prog
    f = _apply(prog, "Dither")
    sig = f.params[1]
    ev = SymEval(prog, f).run()
    ctx.need(len(ev.returns) >= 1, R, "Dither.apply has no return value")
    coeff = S.sym("self.coeff")
    DRAWS = {"numpy.random.normal": "normal", "numpy.random.standard_normal": "std", "numpy.random.randn": "std"}
    seen = 0
    for g, val, rnode in ev.returns:
        val = SC.canon_np(val)
        calls = [x for x in S.walk(val) if isinstance(x, S.E) and x.op == "call"]
        other = [x for x in calls if x.args[0] in (".normal", ".standard_normal", ".randn", ".random", ".integers", ".uniform")]
        if other:
            ctx.bad(R, f, rnode, "noise is drawn by %s, not from numpy.random's global generator; numpy.random.seed no longer reproduces it" % S.show(other[0])[:60],
                    "noise comes from the global NumPy generator")
            continue
        draws = []
        for x in calls:
            if x.args[0] in DRAWS and x not in draws:
                draws.append(x)
        if not draws:
            raise AnalysisError("%s: random draw not recognised in the value returned by Dither.apply: %s" % (R, S.show(val)[:120]))
        for d in draws:
            seen += 1
            kind = DRAWS[d.args[0]]
            if kind == "normal":
                if len(d.args) < 4:
                    raise AnalysisError("%s: draw without an explicit size: %s" % (R, S.show(d)[:100]))
                loc, scale, size = d.args[1], d.args[2], d.args[3]
            else:
                # coeff * standard_normal(shape): the scale is the other factor of the product the draw occurs in
                prods = [x for x in S.walk(val) if isinstance(x, S.E) and x.op == "mul" and d in x.args]
                if not prods:
                    raise AnalysisError("%s: noise expression not of the form normal(0, coeff, shape) / coeff * standard_normal(shape)" % R)
                rest = [x for x in prods[0].args if x is not d and x != d]
                scale = rest[0] if len(rest) == 1 else S.mul(*rest) if rest else S.ONE
                loc, size = S.ZERO, (d.args[1] if len(d.args) > 1 else None)
            ctx.check(loc == S.ZERO, R, f, rnode, "the noise has mean 0", "noise mean is %s" % S.show(loc))
            ctx.check(scale == coeff, R, f, rnode, "the noise scale is the object's coeff, read when apply is called (linear in coeff, none at coeff = 0)",
                      "the noise is scaled by %s, not by self.coeff as it is when apply runs: changing coeff (or coeff = 0) no longer changes the noise accordingly"
                      % S.show(scale))
            # the size may mention the signal only through shape / ndim (and the axis argument)
            def shape_only(x):
                if not isinstance(x, S.E):
                    return True
                if x.op == "sym":
                    return x.args[0] != sig
                if x.op == "call" and x.args[0] in (".shape", ".ndim", "len") and len(x.args) == 2:
                    inner = x.args[1]
                    while isinstance(inner, S.E) and inner.op in ("call", "cond"):
                        if inner.op == "cond":
                            return all(shape_only(S.call(x.args[0], alt)) for alt in inner.args[1:])
                        if inner.args[0] in (".astype", "numpy.moveaxis", ".shape"):
                            inner = inner.args[1]
                        else:
                            break
                    if isinstance(inner, S.E) and inner.op == "sym" and inner.args[0] == sig:
                        return True
                    return shape_only(inner)
                return all(shape_only(a) for a in x.args)
            ok = size is not None and shape_only(size)
            ctx.check(ok, R, f, rnode, "the draw depends on the signal only through its shape (signal-independent noise)",
                      "the size of the draw, %s, depends on the samples" % (S.show(size)[:120] if size is not None else "<none>"))
    ctx.need(seen >= 1, R, "no random draw analysed")
    rng.check(ctx, R, f, set(DRAWS), "numpy.random.seed")
    fresh_and_pure_no_return(ctx, R, f)
    g = prog.func("torch.pytorch_dither")
    evg = SymEval(prog, g).run()
    v = evg.returns[0][1]
    sg, cf = S.sym(g.params[0]), S.sym(g.params[1])
    want = S.add(sg, S.mul(cf, S.call("torch.randn_like", sg)))
    ctx.check(S.compare(v, want, domain={})["verdict"] == "equal", R, g, evg.returns[0][2], "the torch twin is sig + coeff * randn_like(sig)",
              "pytorch_dither returns %s" % S.show(v)[:100])


def fresh_and_pure_no_return(ctx, R, f):
    """apply keeps no state on the instance or module"""
    s = f.params[0]
    for n in f.body_nodes():
        tg = []
        if isinstance(n, ast.Assign):
            for t in n.targets:
                tg.extend(astq.flatten_targets(t))
        elif isinstance(n, ast.AugAssign):
            tg = [n.target]
        for t in tg:
            if astq.base_name(t) == s:
                ctx.bad(R, f, n, "apply writes instance state (%s): the result of a call then depends on earlier calls on the same object, "
                        "not only on the signal, coeff and the global seed" % astq.text(t), "apply keeps no state", robust=True)
        if isinstance(n, (ast.Global, ast.Nonlocal)):
            ctx.bad(R, f, n, "apply writes module state", "apply keeps no state", robust=True)
    ctx.ok(R, f.loc(), "%s writes no instance or module state" % f.short)



def empty_signal(ctx, R="R-C18-stencil"):
    """The transforms are defined for every signal length, 0 included: the arrays derived from the signal are only ever sliced.
    A constant integer index along the sample axis (x[..., 0], x[-1]) raises IndexError on an empty signal."""
    prog = ctx.prog
    for name in ("Dither", "Preemphasize"):
        f = _apply(prog, name)
        sig = f.params[1]
        derived = {sig}
        for _ in range(3):
            for n in f.body_nodes():
                if isinstance(n, ast.Assign) and any(isinstance(x, ast.Name) and x.id in derived for x in ast.walk(n.value)):
                    # arrays of the signal's shape: empty_like / zeros_like / astype / copies / views
                    if isinstance(n.value, ast.Call) or isinstance(n.value, (ast.Name, ast.Subscript)):
                        derived.update(t.id for t in n.targets if isinstance(t, ast.Name))
        hits = []
        for n in f.body_nodes():
            if isinstance(n, ast.Subscript) and isinstance(n.value, ast.Name) and n.value.id in derived:
                sl = n.slice
                last = sl.elts[-1] if isinstance(sl, ast.Tuple) and sl.elts else sl
                lead_ok = not isinstance(sl, ast.Tuple) or all(isinstance(e, ast.Constant) and e.value is Ellipsis or isinstance(e, ast.Slice) for e in sl.elts[:-1])
                if lead_ok and isinstance(last, (ast.Constant, ast.UnaryOp)) and astq.text(last).lstrip("-").isdigit():
                    hits.append(n)
        shape_like = [h for h in hits if isinstance(astq.parents(f).get(id(h)), ast.Attribute)]
        hits = [h for h in hits if h not in shape_like]
        ctx.check(not hits, R, f, hits[0] if hits else f.node, "%s.apply only slices the arrays derived from the signal (defined for a signal of length 0)" % name,
                  "%s.apply indexes %s with a constant position along the sample axis: for an empty signal this raises IndexError although the "
                  "transform of an empty signal is the empty signal" % (name, astq.text(hits[0]) if hits else ""), robust=True)
