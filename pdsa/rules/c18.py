"""C18 - pre-processors apply the documented sample-wise transforms."""

import ast

from .. import astq
from .. import sym as S
from ..cfg import CFG
from ..dataflow import containing_node
from ..eff import Effects
from ..report import MISSING
from ..model import AnalysisError
from ..symeval import SymEval
from . import cli_common as cc
from .c20 import fresh_and_pure, CACHE_DECOS

LEVEL = "other"
TECHNIQUE = ("stencil rule on the single whole-array update, dtype round-trip rule, effect analysis with the in_place "
             "flag, provenance (taint) of the arguments of the random draw, purity of apply")
EXPLANATION = (
    "Decides: Preemphasize.apply updates the signal by exactly one whole-array statement x[..., 1:] -= coeff * x[..., :-1] "
    "(right-hand side materialised before the subtraction, sample 0 untouched, no block-wise loop that could read "
    "already-updated samples) and its torch twin is the same stencil with a prepended zero; both apply methods record the "
    "input dtype first, work in float64 and finish with astype(<input dtype>); in-place writes reach an alias of the input "
    "only when in_place is true, and then through the same single code path; Dither draws numpy.random.normal(0, coeff, "
    "<shape of the signal>) from the global generator (reproducible under numpy.random.seed), adds it once, keeps no "
    "state on the instance, so the noise is signal-independent, linear in coeff and vanishes at coeff = 0. Does NOT "
    "decide distributional facts (zero mean, standard deviation).")


def run(ctx):
    ctx.rule(stencil)
    ctx.rule(roundtrip)
    ctx.rule(readonly)
    ctx.rule(dither)


def _apply(prog, name):
    return prog.own_method(prog.cls("pre." + name), "apply")


def stencil(ctx, R="R-C18-stencil"):
    prog = ctx.prog
    f = _apply(prog, "Preemphasize")
    sig = f.params[1]
    writes = []
    for n in f.body_nodes():
        if isinstance(n, ast.AugAssign) and astq.base_name(n.target) == sig:
            writes.append(n)
        elif isinstance(n, ast.Assign) and any(isinstance(t, ast.Subscript) and astq.base_name(t) == sig for t in n.targets):
            writes.append(n)
    loops = [n for n in f.body_nodes() if isinstance(n, (ast.For, ast.While))]
    ctx.check(not loops, R, f, loops[0] if loops else MISSING(f.node), "the update is not chunked or looped (no read of already-updated samples)",
              "pre-emphasis is applied piecewise in a loop; a piece that reads the sample before its first one after an earlier piece "
              "overwrote it computes x[i] - coeff*y[i-1] instead of x[i] - coeff*x[i-1]")
    ctx.check(len(writes) == 1, R, f, writes[1] if len(writes) > 1 else f.node, "exactly one statement updates the signal",
              "%d statements update the signal; the documented recurrence is a single whole-array update" % len(writes))
    if len(writes) >= 1:
        w = writes[0]
        ok = isinstance(w, ast.AugAssign) and isinstance(w.op, ast.Sub)
        t = astq.text(w.target).replace(" ", "") if ok else ""
        v = astq.text(w.value).replace(" ", "") if ok else ""
        ok = ok and t == "%s[...,1:]" % sig and v in ("self.coeff*%s[...,:-1]" % sig, "%s[...,:-1]*self.coeff" % sig)
        ctx.check(ok, R, f, w, "the update is x[..., 1:] -= coeff * x[..., :-1] (sample 0 untouched)",
                  "the update statement is `%s`, not x[..., 1:] -= coeff * x[..., :-1]" % astq.text(w))
        # reached on every path to the return
        cfg = CFG(f.node)
        nw = cfg.node(w)
        dom = cfg.dominators()
        for r in astq.returns_of(f):
            ctx.check(nw in dom.get(cfg.node(r), ()), R, f, r, "every return passes through the update",
                      "a path returns without applying the pre-emphasis update")
    # axis handling: moveaxis to -1 and back under the same test
    mv = [c for c in astq.func_calls(f) if prog.qualify(f.module, c.func, f) == "numpy.moveaxis"]
    ok = len(mv) == 2 and [astq.text(a) for a in mv[0].args[1:]] == ["axis", "-1"] and [astq.text(a) for a in mv[1].args[1:]] == ["-1", "axis"]
    ctx.check(ok, R, f, mv[0] if mv else MISSING(f.node), "a given axis is moved to the end and back", "axis handling is %s" % [astq.text(c) for c in mv])
    init = prog.own_method(prog.cls("pre.Preemphasize"), "__init__")
    st = [n for n in init.body_nodes() if isinstance(n, ast.Assign) and astq.is_self_attr(n.targets[0], init.params[0], "coeff")]
    ctx.check(len(st) == 1 and astq.text(st[0].value) == "coeff", R, init, st[0] if st else MISSING(init.node), "coeff is stored unchanged")
    # torch twin
    g = prog.func("torch.pytorch_preemphasize")
    ev = SymEval(prog, g).run()
    v = ev.returns[0][1]
    sg, cf = S.sym(g.params[0]), S.sym(g.params[1])
    ok = False
    for nm in ("torch.concatenate", "torch.cat"):
        ext = S.call(nm, S.call("list", S.call(".new_zeros", sg, S.lift(1)), sg))
        want = S.sub(S.call("getitem", ext, S.call("slice", S.lift(1), S.NONE, S.NONE)),
                     S.mul(cf, S.call("getitem", ext, S.call("slice", S.NONE, S.lift(-1), S.NONE))))
        ok = ok or S.compare(v, want, domain={})["verdict"] == "equal"
    ctx.check(ok, R, g, ev.returns[0][2], "the torch twin is the same stencil with a zero before the first sample",
              "pytorch_preemphasize returns %s" % S.show(v)[:140])


def roundtrip(ctx, R="R-C18-float64-roundtrip"):
    prog = ctx.prog
    for name in ("Dither", "Preemphasize"):
        f = _apply(prog, name)
        sig = f.params[1]
        cfg = CFG(f.node)
        dom = cfg.dominators()
        cap = [n for n in f.body_nodes() if isinstance(n, ast.Assign) and astq.text(n.value) == "%s.dtype" % sig and isinstance(n.targets[0], ast.Name)]
        ctx.check(len(cap) == 1, R, f, f.node, "%s.apply records the input dtype" % name, "%s.apply does not record signal.dtype exactly once" % name)
        if len(cap) != 1:
            continue
        dn = cap[0].targets[0].id
        # the capture precedes every rebinding of the signal
        rebinds = [n for n in f.body_nodes() if isinstance(n, ast.Assign) and any(astq.is_name(t, sig) for t in n.targets)]
        ncap = cfg.node(cap[0])
        for r in rebinds:
            ctx.check(ncap in dom.get(cfg.node(r), ()), R, f, r, "the dtype is recorded before the signal is converted",
                      "the signal is re-bound before its dtype was recorded")
        up = [r for r in rebinds if astq.text(r.value).replace(" ", "") == "%s.astype(np.float64)" % sig]
        ctx.check(len(up) == 1, R, f, up[0] if up else MISSING(f.node), "%s.apply works on a float64 copy" % name, "no `signal = signal.astype(np.float64)` in %s.apply" % name)
        if up:
            pm = astq.parents(f)
            g = [a for a in astq.ancestors(pm, up[0]) if isinstance(a, ast.If)]
            t = astq.text(g[0].test).replace(" ", "") if g else ""
            ok = len(g) == 1 and t in ("notin_placeor%s.dtype!=np.float64" % sig, "notin_placeor%s!=np.float64" % dn)
            ctx.check(ok, R, f, g[0] if g else MISSING(up[0]), "the copy is skipped only for an in-place call on a float64 array",
                      "the float64 copy is made under `%s`" % (astq.text(g[0].test) if g else "no condition"))
        for r in astq.returns_of(f):
            ok = astq.text(r.value).replace(" ", "") in ("%s.astype(%s,copy=False)" % (sig, dn), "%s.astype(%s)" % (sig, dn))
            ctx.check(ok, R, f, r, "%s.apply ends with a cast back to the input dtype" % name, "%s.apply returns %s" % (name, astq.text(r.value)))


def readonly(ctx, R="R-C18-readonly"):
    prog = ctx.prog
    eff = Effects(prog, flag="in_place")
    for name in ("Dither", "Preemphasize"):
        f = _apply(prog, name)
        ws, _ = eff.writes_to(f, f.params[1])
        bad = [w for w in ws if False in w.flags]
        ctx.check(not bad, R, f, bad[0].stmt if bad else f.node, "%s.apply writes through the input only when in_place is true" % name,
                  "%s.apply can modify the caller's array with in_place=False (%s)" % (name, ", ".join(sorted({w.how for w in bad}))))
        ctx.check(len(ws) >= 1, R, f, f.node, "%s.apply does operate in place when allowed (the in_place flag is honoured)" % name,
                  "%s.apply never works in place; in_place=True would be ignored" % name)


def dither(ctx, R="R-C18-dither-independence"):
    prog = ctx.prog
    f = _apply(prog, "Dither")
    sig = f.params[1]
    pm = astq.parents(f)
    adds = [n for n in f.body_nodes() if isinstance(n, ast.AugAssign) and isinstance(n.op, ast.Add) and astq.is_name(n.target, sig)]
    ctx.check(len(adds) >= 1, R, f, adds[0] if adds else MISSING(f.node), "the noise enters by addition to the signal", "no `signal += noise` in Dither.apply")
    ev = SymEval(prog, f, inline_props=False)
    ev.env = {}
    DRAWS = {"np.random.normal": "normal", "np.random.standard_normal": "std", "np.random.randn": "std"}
    coeff = S.sym("self.coeff")
    for a in adds:
        e = ev.expr(a.value)
        draws = [x for x in S.walk(e) if x.op == "call" and x.args[0] in DRAWS]
        other = [x for x in S.walk(e) if x.op == "call" and (x.args[0].startswith(".normal") or x.args[0].startswith(".standard_normal") or x.args[0].startswith(".randn") or x.args[0].startswith(".random"))]
        if other:
            ctx.bad(R, f, a, "noise is drawn by %s, not from numpy.random's global generator; numpy.random.seed no longer reproduces it" % S.show(other[0])[:60],
                    "noise comes from the global NumPy generator")
            continue
        if len(draws) != 1:
            raise AnalysisError("%s: random draw not recognised in `%s`" % (R, astq.text(a)[:80]))
        d = draws[0]
        kind = DRAWS[d.args[0]]
        if kind == "normal":
            ok_form = e == d and len(d.args) >= 4
            loc, scale, size = (d.args[1], d.args[2], d.args[3]) if ok_form else (None, None, None)
        else:
            # coeff * standard_normal(shape)
            ok_form = e.op == "mul" and d in e.args
            scale = [x for x in e.args if x is not d][0] if ok_form else None
            loc, size = S.ZERO, (d.args[1] if len(d.args) > 1 else None)
        if not ok_form:
            raise AnalysisError("%s: noise expression not of the form normal(0, coeff, shape) / coeff * standard_normal(shape): %s" % (R, S.show(e)[:100]))
        ctx.check(loc == S.ZERO, R, f, a, "the noise has mean 0", "noise mean is %s" % S.show(loc))
        ctx.check(scale == coeff, R, f, a, "the noise scale is the object's coeff, read when apply is called (linear in coeff, none at coeff = 0)",
                  "the noise is scaled by %s, not by self.coeff as it is when apply runs: changing coeff (or coeff = 0) no longer changes the noise accordingly"
                  % S.show(scale))
        names = set(S.symbols(size)) if size is not None else set()
        ok = size is not None and all(nm in (sig + ".shape", sig + ".ndim", "random_shape", "axis") or nm.startswith("self.") is False and nm in (sig + ".shape",) for nm in names if nm != "random_shape" and nm != "axis")
        if "random_shape" in names:
            defs = [n for n in f.body_nodes() if isinstance(n, ast.Assign) and astq.base_name(n.targets[0]) == "random_shape"]
            for dnode in defs:
                for x in ast.walk(dnode.value):
                    if isinstance(x, ast.Name) and x.id == sig:
                        par = pm.get(id(x))
                        if not (isinstance(par, ast.Attribute) and par.attr in ("shape", "ndim", "size")):
                            ok = False
        bad_names = [nm for nm in names if nm == sig]
        ctx.check(ok and not bad_names, R, f, a, "the draw depends on the signal only through its shape (signal-independent noise)",
                  "the size of the draw depends on %s" % sorted(names))
    fresh_and_pure_no_return(ctx, R, f)
    init = prog.own_method(prog.cls("pre.Dither"), "__init__")
    st = [n for n in init.body_nodes() if isinstance(n, ast.Assign) and astq.is_self_attr(n.targets[0], init.params[0], "coeff")]
    ctx.check(len(st) == 1 and astq.text(st[0].value) == "coeff", R, init, st[0] if st else MISSING(init.node), "coeff is stored unchanged")
    g = prog.func("torch.pytorch_dither")
    evg = SymEval(prog, g).run()
    v = evg.returns[0][1]
    sg, cf = S.sym(g.params[0]), S.sym(g.params[1])
    want = S.add(sg, S.mul(cf, S.call("torch.randn_like", sg)))
    ctx.check(S.compare(v, want, domain={})["verdict"] == "equal", R, g, evg.returns[0][2], "the torch twin is sig + coeff * randn_like(sig)",
              "pytorch_dither returns %s" % S.show(v)[:100])


def fresh_and_pure_no_return(ctx, R, f):
    """apply keeps no state on the instance or module"""
    s = f.params[0]
    for n in f.body_nodes():
        tg = []
        if isinstance(n, ast.Assign):
            for t in n.targets:
                tg.extend(astq.flatten_targets(t))
        elif isinstance(n, ast.AugAssign):
            tg = [n.target]
        for t in tg:
            if astq.base_name(t) == s:
                ctx.bad(R, f, n, "apply writes instance state (%s): the result of a call then depends on earlier calls on the same object, "
                        "not only on the signal, coeff and the global seed" % astq.text(t), "apply keeps no state")
        if isinstance(n, (ast.Global, ast.Nonlocal)):
            ctx.bad(R, f, n, "apply writes module state", "apply keeps no state")
    ctx.ok(R, f.loc(), "%s writes no instance or module state" % f.short)
