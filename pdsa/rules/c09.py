"""C09 - command-line tools store what the library pipeline computes."""

import ast

from .. import astq
from .. import sym as S
from ..cfg import CFG, walk_no_defs, header_walk
from ..dataflow import ReachingDefs, containing_node
from ..report import MISSING
from ..model import AnalysisError, ClassInfo, FunctionInfo, unparse
from ..symeval import SymEval
from . import cli_common as cc

LEVEL = "other"
TECHNIQUE = ("def-use / forward-substitution check that the stored value is post(compute(pre(signal))) with each "
             "collection built from its own option, argparse-dest and family attribute existence, exclusion-guard "
             "enumeration, configuration-syntax and seed-provenance rules")
EXPLANATION = (
    "Decides on the source of both tools: the value written lies on a def-use chain through every pre-processor "
    "built from --preprocess (in list order), compute_full/the module call of the computer built from "
    "computer_config (or the raw-column fallback), every post-processor built from --postprocess (in list order; "
    "only a matrix with no frames may bypass them) and one final float32 cast; every options.<x> read is a dest of "
    "that tool's parser and every attribute chain on a family-typed value exists in the family; the only ways an "
    "utterance is skipped are min-duration, sampling-rate mismatch, channel problems and the manifest; the id "
    "written is the loop's own; all configuration arguments share one path-or-inline JSON/YAML parser; a given "
    "--seed reaches the RNGs before any pre-processor and no process-dependent source (hash/id/time) enters the "
    "seed; the NumPy->torch conversion is exhaustive over the concrete classes. Does NOT decide numerical "
    "equality of stored and library features, nor Kaldi/torch I/O.")

ALLOWED_SKIP_REASONS = ("min_duration", "samp", "channel", "manifest")


def run(ctx):
    prog = ctx.prog
    ctx.rule(kaldi_pipeline)
    ctx.rule(torch_pipeline)
    ctx.rule(attrs)
    ctx.rule(reiterable_processors)
    ctx.rule(single_pass_input)
    ctx.rule(exclusions)
    ctx.rule(cc.manifest_filter, "R-C09-manifest-exact", prog.func("command_line.signals_to_torch_feat_dir"))
    ctx.rule(config_syntax)
    ctx.rule(seed)
    ctx.rule(seed_sources)
    ctx.rule(seed_by_identity)
    ctx.rule(components_in_place)
    ctx.rule(manifest_lines)
    ctx.rule(torch_twins)
    ctx.rule(torch_wrappers)
    ctx.rule(items_independent)
    ctx.rule(torch_port_geometry)
    ctx.rule(torch_port_spectrum)
    ctx.rule(torch_port_reductions)


def seed_by_identity(ctx, R="R-C09-seed"):
    """with a fixed --seed two runs store identical files - also when the second run resumes from a manifest: the per-utterance seed
    may depend on the base seed and the utterance's identity only (the taint analysis of C10, shared)"""
    from . import c10
    from ..cfg import CFG as _CFG
    prog = ctx.prog
    tool = prog.func("command_line.signals_to_torch_feat_dir")
    cfg = _CFG(tool.node)
    info = c10.manifest_sites(ctx, tool, cfg)
    c10.seed_identity(ctx, tool, cfg, info, R)


def manifest_lines(ctx, R="R-C09-manifest-exact"):
    """an utterance is excluded by the manifest only if the manifest lists it: ids are looked up among its lines, not inside its text"""
    from . import c10
    c10.membership_over_text(ctx, ctx.prog.func("command_line.signals_to_torch_feat_dir"), R)


def components_in_place(ctx, R="R-C09-pipeline"):
    """compute-feats-from-kaldi-tables applies its pre-processors with in_place=True on a float64 buffer.  What it stores equals
    "applying the configured pre-processors" only if the in-place variant of each pre-processor computes the values of the plain
    call: the value rule of the pre-processors (C18), which evaluates every in_place / dtype / axis scenario, is a premise of this
    property and is re-established here."""
    from . import c18
    c18.value(ctx, R)


def single_pass_input(ctx, R="R-C09-exclusions"):
    """The wave table of compute-feats-from-kaldi-tables is an rspecifier: it may be a pipe or standard input (``ark:-``), which
    can be read once.  A tool that opens it a second time (to count the utterances, to look ahead) leaves nothing for the pass
    that computes the features, and every utterance is missing from the output.  Typestate rule: the rspecifier is opened by
    exactly one call site, and that site is not inside a loop."""
    prog = ctx.prog
    f = prog.func("command_line.compute_feats_from_kaldi_tables")
    what = "the wave table is opened once (an rspecifier may be a pipe: it cannot be read twice)"

    def is_rspec(e):
        return any(isinstance(x, ast.Attribute) and x.attr == "wav_rspecifier" for x in ast.walk(e))
    carriers = {"wav_rspecifier"}
    for n in f.body_nodes():
        if isinstance(n, ast.Assign) and (is_rspec(n.value) and isinstance(n.value, (ast.Attribute, ast.Name))):
            carriers |= {t.id for t in n.targets if isinstance(t, ast.Name)}
    opens = []
    for c in astq.func_calls(f):
        args = list(c.args) + [k.value for k in c.keywords]
        if not args:
            continue
        a0 = args[0]
        callee = (prog.qualify(f.module, c.func, f) or prog.dotted(c.func) or "").rsplit(".", 1)[-1].lower()
        if not ("open" in callee or "reader" in callee or "read" in callee):
            continue
        if (isinstance(a0, ast.Attribute) and a0.attr == "wav_rspecifier") or (isinstance(a0, ast.Name) and a0.id in carriers - {"wav_rspecifier"}):
            opens.append(c)
    ctx.need(len(opens) >= 1, R, "no call that opens options.wav_rspecifier found")
    pm = astq.parents(f)
    if len(opens) > 1:
        ctx.bad(R, f, opens[0] if opens[0].lineno > opens[-1].lineno else opens[-1],
                "options.wav_rspecifier is opened by %d calls (%s): when the table is a pipe or standard input the first pass consumes it and the pass that "
                "computes the features finds it empty - every utterance is missing from the output"
                % (len(opens), "; ".join(astq.text(c)[:50] for c in opens)), what, robust=True)
    elif any(isinstance(a, (ast.For, ast.While)) for a in astq.ancestors(pm, opens[0])):
        ctx.bad(R, f, opens[0], "options.wav_rspecifier is opened inside a loop", what, robust=True)
    else:
        ctx.ok(R, f.loc(opens[0]), what, astq.text(opens[0])[:80])


def reiterable_processors(ctx, R="R-C09-pipeline"):
    """Both tools walk their lists of pre- and post-processors once per utterance.  What is walked must be a real sequence: a
    one-shot iterator (map / filter / zip object, generator expression, the result of a generator function) is exhausted by the
    first utterance and every later one silently gets no processing at all."""
    prog = ctx.prog
    what = "the processors applied to every utterance are held in a sequence that can be walked again (not a one-shot iterator)"
    ONE_SHOT = ("map", "filter", "zip", "iter", "reversed", "enumerate")

    def gen_function(fn_info):
        return fn_info is not None and any(isinstance(x, (ast.Yield, ast.YieldFrom)) for x in fn_info.body_nodes())

    def one_shot(f, v, depth=0):
        if isinstance(v, ast.GeneratorExp):
            return "a generator expression"
        if isinstance(v, ast.Call):
            if isinstance(v.func, ast.Name) and v.func.id in ONE_SHOT and prog.resolve(f.module, v.func, f) is None:
                return "a %s object" % v.func.id
            t = prog.resolve(f.module, v.func, f)
            from ..model import FunctionInfo as _FI
            if isinstance(t, _FI) and gen_function(t):
                return "the generator returned by %s" % t.name
        if isinstance(v, ast.Name) and depth < 3:
            vals = [n.value for n in f.body_nodes() if isinstance(n, ast.Assign) and any(astq.is_name(t_, v.id) for t_ in n.targets)]
            hits = [one_shot(f, x, depth + 1) for x in vals]
            if vals and hits[-1] is not None:
                return hits[-1]  # the last binding in source order (the lists are re-bound when wrapped for torch)
        return None
    n = 0
    for tool_name in ("command_line.compute_feats_from_kaldi_tables", "command_line.signals_to_torch_feat_dir"):
        tool = prog.func(tool_name)
        # the processors walked in the tool's own utterance loop
        for lp in [x for x in tool.body_nodes() if isinstance(x, ast.For)]:
            inner = [y for y in ast.walk(lp) if isinstance(y, ast.For) and y is not lp and isinstance(y.iter, ast.Name) and "processor" in y.iter.id]
            for y in inner:
                n += 1
                why = one_shot(tool, y.iter)
                if why:
                    ctx.bad(R, tool, y, "`%s` is walked once per utterance but is %s: it is empty from the second utterance on" % (y.iter.id, why), what, robust=True)
        # the processors handed to the dataset
        for c in astq.func_calls(tool):
            t = prog.resolve(tool.module, c.func, tool)
            if getattr(t, "name", None) == "_FeatureProcessorDataset":
                for a in list(c.args) + [k.value for k in c.keywords]:
                    if isinstance(a, ast.Name) and "processor" in a.id:
                        n += 1
                        why = one_shot(tool, a)
                        if why:
                            ctx.bad(R, tool, c, "`%s`, which the dataset walks for every utterance (and every worker process), is %s: after the first utterance it is "
                                    "exhausted and the remaining utterances are stored without that processing" % (a.id, why), what, robust=True)
    ctx.floor(R + "/processor-collections", n, 4)
    ctx.ok(R, "src/pydrobert/speech/command_line.py", what, "%d collections inspected" % n)


# ----------------------------------------------------------------- helpers
def _afs(prog):
    return prog.func("alias.alias_factory_subclass_from_arg")


def _fold_parts(e):
    if cc.is_call(e, "fold"):
        return e.args[1], e.args[2], e.args[3]
    return None


def _apply_template_ok(t, method):
    """template is <elem>.apply(<acc>[, in_place=...]) or <elem>(<acc>)"""
    if method == "apply":
        if not (cc.is_call(t, ".apply") and len(t.args) >= 3 and t.args[1] == S.sym("@elem") and t.args[2] == S.sym("@acc")):
            return False
        for extra in t.args[3:]:
            if not (extra.op == "call" and extra.args[0] == "kw:in_place"):
                return False
        return True
    return cc.is_call(t, "apply") and len(t.args) == 3 and t.args[1] == S.sym("@elem") and t.args[2] == S.sym("@acc")


def _emptiness_test(t, value):
    """t tests whether ``value`` has any frames: len(value), value.shape[0], ... > 0"""
    cands = {S.call("len", value), S.call("getitem", S.call(".shape", value), S.lift(0)),
             S.call(".size", value, S.lift(0)), S.call(".numel", value), S.call(".size", value)}
    if t in cands:
        return True
    if t.op == "bool" and t.args[0] in cands:
        return True
    if t.op == "cmp" and t.args[0] in (">", "!=") and t.args[1] in cands and t.args[2] == S.ZERO:
        return True
    if t.op == "cmp" and t.args[0] == "<" and t.args[2] in cands and t.args[1] == S.ZERO:
        return True
    return False


# ------------------------------------------------------------ R-C09-pipeline
def kaldi_pipeline(ctx):
    prog = ctx.prog
    R = "R-C09-pipeline"
    f = prog.func("command_line.compute_feats_from_kaldi_tables")
    loops = cc.find_loop_over(f, lambda n: any(isinstance(x, ast.Name) and x.id == "wav_reader" for x in ast.walk(n.iter)))
    ctx.need(len(loops) == 1, R, "per-utterance loop over wav_reader not found in %s" % f.short)
    loop = loops[0]
    writes = [c for c in astq.calls_in(loop) if astq.attr_call(c, "write") and len(c.args) == 2]
    ctx.need(len(writes) == 1, R, "feat_writer.write(utt_id, feats) not found in the loop")
    w = writes[0]
    pm = astq.parents(f)
    wst = astq.enclosing_stmt(pm, w)
    ev = cc.body_eval(prog, f, loop.body)
    ctx.need(ev.reached(wst), R, "write statement not reached by forward substitution")
    V = ev.eval_at(wst, w.args[1])
    uid = ev.eval_at(wst, w.args[0])
    tnames = [t.id for t in ast.walk(loop.target) if isinstance(t, ast.Name)]
    ctx.check(uid.op == "sym" and uid.args[0] in tnames, R, f, wst,
              "the id written is the loop's own utterance id", "the id written (%s) is not the loop's utterance id" % S.show(uid))
    afs = _afs(prog)
    n_paths = 0
    roles = {}
    for tests, leaf in cc.strip_cond(V):
        n_paths += 1
        x = leaf
        # final cast
        if cc.is_call(x, ".astype") and len(x.args) >= 3:
            x = x.args[1]
        fp = _fold_parts(x)
        if fp is None:
            # no post-processing on this path: only an empty matrix may bypass it
            ok = any(lbl == "F" and _emptiness_test(t, x) for lbl, t in tests)
            ctx.check(ok, R, f, wst, "post-processors are bypassed only for a matrix without frames",
                      "on a path to the write the features are stored without applying the --postprocess "
                      "post-processors (value written: %s)" % _short(x))
            c = x
        else:
            lst, tmpl, c = fp
            ctx.check(lst.op == "sym", R, f, wst, "post-processors are applied by a plain loop over the whole list",
                      "post-processors are iterated as %s, not in list order over the whole list" % S.show(lst))
            ctx.check(_apply_template_ok(tmpl, "apply"), R, f, wst, "each post-processor's apply() result feeds the next",
                      "post-processing step is not `feats = p.apply(feats[, in_place=...])`: %s" % S.show(tmpl))
            if lst.op == "sym":
                roles.setdefault("post", set()).add(lst.args[0])
        if not (cc.is_call(c, ".compute_full") and len(c.args) == 3):
            ctx.bad(R, f, wst, "the stored value does not come from <computer>.compute_full(<signal>): %s" % _short(c),
                    "features come from compute_full")
            continue
        comp, p = c.args[1], c.args[2]
        if comp.op == "sym":
            roles.setdefault("computer", set()).add(comp.args[0])
        fp = _fold_parts(p)
        if fp is None:
            ctx.bad(R, f, wst, "the signal given to compute_full has not passed through the --preprocess pre-processors: %s" % _short(p),
                    "pre-processors applied before compute_full")
            continue
        lst, tmpl, b = fp
        ctx.check(lst.op == "sym", R, f, wst, "pre-processors are applied by a plain loop over the whole list",
                  "pre-processors are iterated as %s, not in list order over the whole list" % S.show(lst))
        ctx.check(_apply_template_ok(tmpl, "apply"), R, f, wst, "each pre-processor's apply() result feeds the next",
                  "pre-processing step is not `buff = p.apply(buff[, in_place=...])`: %s" % S.show(tmpl))
        if lst.op == "sym":
            roles.setdefault("pre", set()).add(lst.args[0])
        # base signal: the selected channel of the utterance's own buffer
        names = set(S.symbols(b))
        ctx.check(any(n in tnames for n in names), R, f, wst, "the processed signal is the loop's own utterance buffer",
                  "the processed signal %s is not taken from the loop's utterance" % _short(b))
    ctx.floor(R + "/kaldi-paths", n_paths, 2)
    # provenance of the three roles
    want = {"pre": ("pre.PreProcessor", "preprocess"), "post": ("post.PostProcessor", "postprocess")}
    for role, (fam, dest) in want.items():
        for name in sorted(roles.get(role, ())):
            fams, dests, problems, n_app = cc.list_provenance(prog, f, name, afs)
            for node, msg in problems:
                ctx.bad(R, f, node, msg, "collection built from its option in order", structural=not msg.startswith("DEFINITE"))
            fs = {c.short for c in fams}
            recognised = bool(fs) and bool(dests) and n_app >= 1 and not problems
            wrong = (bool(fs) and fs != {fam}) or (bool(dests) and dests != {dest})
            ctx.check(recognised and not wrong, R, f, f.node,
                      "%s-processors applied are those built from --%s with family %s" % (role, dest, fam),
                      "the %s-processing list `%s` is built from %s with families %s, expected options.%s / %s"
                      % (role, name, sorted(dests), sorted(fs), dest, fam), structural=not wrong)
        ctx.check(bool(roles.get(role)), R, f, wst, "a %s-processing stage exists on the chain" % role,
                  "no %s-processing stage on the chain to the stored value" % role)
    for name in sorted(roles.get("computer", ())):
        ok = False
        for n in f.body_nodes():
            if isinstance(n, ast.Assign) and any(astq.is_name(t, name) for t in n.targets):
                v = n.value
                if (isinstance(v, ast.Call) and prog.resolve(f.module, v.func, f) is afs and len(v.args) == 2
                        and getattr(prog.resolve(f.module, v.args[0], f), "short", None) == "compute.FrameComputer"
                        and astq.text(v.args[1]) == "options.computer_config"):
                    ok = True
        ctx.check(ok, R, f, f.node, "the computer is built from computer_config with family FrameComputer",
                  "`%s` is not built by alias_factory_subclass_from_arg(FrameComputer, options.computer_config)" % name)


def _short(e):
    s = S.show(e)
    return s if len(s) < 160 else s[:160] + "..."


def torch_pipeline(ctx):
    prog = ctx.prog
    R = "R-C09-pipeline"
    ds = prog.cls("command_line._FeatureProcessorDataset")
    g = prog.own_method(ds, "__getitem__")
    init = prog.own_method(ds, "__init__")
    ev = cc.SymEval(prog, g, inline_props=False).run()
    ctx.need(ev.returns, R, "__getitem__ has no return")
    attr_roles = {}
    for guard, v, node in ev.returns:
        if not (cc.is_call(v, "tuple") and len(v.args) == 3):
            ctx.bad(R, g, node, "__getitem__ does not return (utt_id, feats)", "dataset item is (id, features)")
            continue
        uid, x = v.args[1], v.args[2]
        # id is element 0 of the item selected by idx
        ok = cc.is_call(uid, "getitem") and uid.args[2] == S.ZERO and cc.is_call(uid.args[1], "getitem") and \
            uid.args[1].args[2] == S.sym(g.params[1])
        ctx.check(ok, R, g, node, "the id returned is that of the item selected by the index",
                  "the id returned (%s) is not the id of item idx" % _short(uid))
        ctx.check(cc.is_call(x, ".float") and len(x.args) == 2, R, g, node, "features are cast to float32 once, last (.float())",
                  "returned features are not cast with .float() as the last step: %s" % _short(x))
        if cc.is_call(x, ".float"):
            x = x.args[1]
        fp = _fold_parts(x)
        if fp is None:
            ctx.bad(R, g, node, "returned features have not passed through the post-processors: %s" % _short(x),
                    "post-processors applied")
            continue
        lst, tmpl, y = fp
        ctx.check(lst.op == "sym" and _apply_template_ok(tmpl, "call"), R, g, node,
                  "post-processor modules are applied in list order, each to the previous result",
                  "post-processing is not a plain in-order loop `feats = p(feats)`: %s over %s" % (S.show(tmpl), S.show(lst)))
        if lst.op == "sym":
            attr_roles["post"] = lst.args[0]
        for tests, leaf in cc.strip_cond(y):
            # the `is None` test that decides the no-computer fallback is the one on the object that is otherwise applied to the signal
            applied = {("self" + x.args[0]) for _t, lf in cc.strip_cond(y) for x in [lf] if x.op == "call" and str(x.args[0]).startswith(".") and len(x.args) == 3
                       and x.args[1] == S.sym(g.params[0])}
            def _is_comp_test(t):
                return t.op == "cmp" and t.args[0] == "is" and t.args[2] == S.NONE and (not applied or (t.args[1].op == "sym" and t.args[1].args[0] in applied))
            none_branch = any(lbl == "T" and _is_comp_test(t) for lbl, t in tests)
            if none_branch:
                ok = cc.is_call(leaf, ".unsqueeze") and len(leaf.args) == 3 and leaf.args[2] == S.ONE
                # signal[:, None] is the same column view of a one-dimensional signal
                if not ok and cc.is_call(leaf, "getitem") and len(leaf.args) == 3 and leaf.args[2] == S.call("tuple", S.call("slice", S.NONE, S.NONE, S.NONE), S.NONE):
                    ok = True
                ctx.check(ok, R, g, node, "without a computer the samples are stored as a column (unsqueeze(1))",
                          "the no-computer fallback is not signal.unsqueeze(1): %s" % _short(leaf))
                p = leaf.args[1] if ok else None
                comp_attr = [t.args[1] for lbl, t in tests if _is_comp_test(t)][0]
                if comp_attr.op == "sym":
                    attr_roles["computer"] = comp_attr.args[0]
            else:
                ok = leaf.op == "call" and leaf.args[0].startswith(".") and len(leaf.args) == 3 and leaf.args[1] == S.sym(g.params[0])
                ctx.check(ok, R, g, node, "features are the computer module applied to the pre-processed signal",
                          "features are not self.<computer>(signal): %s" % _short(leaf))
                p = leaf.args[2] if ok else None
                if ok:
                    attr_roles["computer"] = "self" + leaf.args[0]
            if p is None:
                continue
            fp2 = _fold_parts(p)
            if fp2 is None:
                ctx.bad(R, g, node, "the signal given to the computer has not passed through the pre-processors: %s" % _short(p),
                        "pre-processors applied")
                continue
            lst2, tmpl2, b = fp2
            ctx.check(lst2.op == "sym" and _apply_template_ok(tmpl2, "call"), R, g, node,
                      "pre-processor modules are applied in list order, each to the previous result",
                      "pre-processing is not a plain in-order loop `signal = p(signal)`")
            if lst2.op == "sym":
                attr_roles["pre"] = lst2.args[0]
            ctx.check(cc.is_call(b, "torch.from_numpy"), R, g, node, "the signal enters torch via from_numpy (no copy, same values)",
                      "signal does not enter the pipeline via torch.from_numpy: %s" % _short(b))
    # the signal is read from the item's own path, keyed by its own id, with the requested container type
    idx = S.sym(g.params[1])
    for guard, v, node in ev.returns:
        reads = []
        for x in S.walk(v):
            if x.op == "call" and isinstance(x.args[0], str) and x.args[0].endswith("read_signal") and x not in reads:
                reads.append(x)
        ctx.need(reads, R, "no read_signal call feeds the returned features")
        for rd in reads:
            pos = [a for a in rd.args[1:] if not (a.op == "call" and isinstance(a.args[0], str) and a.args[0].startswith("kw:"))]
            kws = {a.args[0][3:]: a.args[1] for a in rd.args[1:] if a.op == "call" and isinstance(a.args[0], str) and a.args[0].startswith("kw:")}
            names = ["rfilename", "dtype", "key", "force_as"]
            for nm, a in zip(names, pos):
                kws.setdefault(nm, a)

            def item(k):
                return S.call("getitem", S.call("getitem", S.sym(g.params[0] + ".utt_path"), idx), S.const(k))
            item_attr = None
            pth = kws.get("rfilename")
            if pth is not None and cc.is_call(pth, "getitem") and cc.is_call(pth.args[1], "getitem") and pth.args[1].args[2] == idx:
                item_attr = pth.args[1].args[1]
            ctx.check(pth is not None and cc.is_call(pth, "getitem") and pth.args[2] == S.ONE and item_attr is not None, R, g, node,
                      "the signal is read from the path of the item selected by the index", "read_signal reads %s" % _short(pth) if pth is not None else "no path")
            key = kws.get("key")
            want = S.call("getitem", S.call("getitem", item_attr, idx), S.ZERO) if item_attr is not None else None
            ctx.check(key is not None and key == want, R, g, node,
                      "the utterance id is always passed as the archive key (table / hdf5 / npz sources hold several utterances)",
                      "read_signal is given key=%s instead of the utterance id on every path: for an archive source whose type is inferred "
                      "from the suffix every utterance reads the archive's first / default entry" % (_short(key) if key is not None else None))
            fa = kws.get("force_as")
            ctx.check(fa is not None and fa.op == "sym" and fa.args[0].startswith(g.params[0] + "."), R, g, node,
                      "--force-as is forwarded to read_signal unchanged", "force_as passed to read_signal is %s" % (_short(fa) if fa is not None else None))
            if fa is not None and fa.op == "sym":
                attr_roles["force_as"] = fa.args[0]
            dtp = kws.get("dtype")
            ctx.check(dtp is not None and S.show(dtp) in ("numpy.float64",), R, g, node, "the signal is read as float64",
                      "read_signal dtype is %s" % (_short(dtp) if dtp is not None else None))
    ctx.need({"pre", "post", "computer"} <= set(attr_roles), R, "could not identify pre/computer/post attributes in __getitem__: %s" % attr_roles)
    # attribute -> ctor parameter
    selfn = init.params[0]
    attr2param = {}
    for n in init.body_nodes():
        if isinstance(n, ast.Assign) and len(n.targets) == 1 and astq.is_self_attr(n.targets[0], selfn) and isinstance(n.value, ast.Name):
            attr2param["self." + n.targets[0].attr] = n.value.id
    # ctor parameter -> actual at the construction site
    tool = prog.func("command_line.signals_to_torch_feat_dir")
    sites = [c for c in astq.func_calls(tool) if prog.resolve(tool.module, c.func, tool) is ds]
    ctx.need(len(sites) == 1, R, "construction site of _FeatureProcessorDataset not found")
    site = sites[0]
    params = init.params[1:]
    actual = {}
    for p, a in zip(params, site.args):
        actual[p] = a
    for k in site.keywords:
        if k.arg:
            actual[k.arg] = k.value
    afs = _afs(prog)
    want = {"pre": ("pre.PreProcessor", "preprocess"), "post": ("post.PostProcessor", "postprocess")}
    pm = astq.parents(tool)
    for role in ("pre", "post"):
        attr = attr_roles[role]
        p = attr2param.get(attr)
        a = actual.get(p)
        ctx.need(p is not None and isinstance(a, ast.Name), R, "cannot follow %s -> constructor parameter -> argument" % attr)
        fam, dest = want[role]
        fams, dests, problems, n_app = cc.list_provenance(prog, tool, a.id, afs)
        for node, msg in problems:
            ctx.bad(R, tool, node, msg, "collection built from its option in order", structural=not msg.startswith("DEFINITE"))
        fs = {c.short for c in fams}
        wrong = (bool(fs) and fs != {fam}) or (bool(dests) and dests != {dest})
        ctx.check(bool(fs) and bool(dests) and not problems and not wrong, R, tool, astq.enclosing_stmt(pm, site),
                  "the %s-processing stage of the dataset receives the list built from --%s (%s -> %s -> %s)" % (role, dest, a.id, p, attr),
                  "the %s-processing stage (%s) receives `%s`, which is built from options.%s with families %s; expected options.%s / %s"
                  % (role, attr, a.id, sorted(dests), sorted(fs), dest, fam), structural=not wrong)
    if "force_as" in attr_roles:
        p = attr2param.get(attr_roles["force_as"])
        a = actual.get(p)
        ctx.check(p is not None and a is not None and astq.text(a) == "options.force_as", R, tool, astq.enclosing_stmt(pm, site),
                  "the dataset's container type is options.force_as",
                  "the container type used by the dataset (%s) is %s, not options.force_as" % (attr_roles["force_as"], astq.text(a) if a is not None else None), structural=True)
    attr = attr_roles["computer"]
    p = attr2param.get(attr)
    a = actual.get(p)
    ctx.need(p is not None and isinstance(a, ast.Name), R, "cannot follow %s -> constructor parameter -> argument" % attr)
    ok = False
    for n in tool.body_nodes():
        if isinstance(n, ast.Assign) and any(astq.is_name(t, a.id) for t in n.targets):
            v = n.value
            if (isinstance(v, ast.Call) and prog.resolve(tool.module, v.func, tool) is afs and len(v.args) == 2
                    and getattr(prog.resolve(tool.module, v.args[0], tool), "short", None) == "compute.FrameComputer"
                    and astq.text(v.args[1]) == "options.computer_config"):
                ok = True
    ctx.check(ok, R, tool, astq.enclosing_stmt(pm, site), "the dataset's computer is built from computer_config with family FrameComputer",
              "`%s` is not built by alias_factory_subclass_from_arg(FrameComputer, options.computer_config)" % a.id)
    # the tool stores exactly what the dataset yields, under the dataset's id
    loops = cc.find_loop_over(tool, lambda n: astq.is_name(n.iter, "loader"))
    ctx.need(len(loops) == 1, R, "writer loop over the DataLoader not found")
    loop = loops[0]
    saves = [c for c in astq.calls_in(loop) if prog.qualify(tool.module, c.func, tool) == "torch.save"]
    ctx.need(len(saves) == 1, R, "torch.save not found in the writer loop")
    ev = cc.body_eval(prog, tool, loop.body)
    sst = astq.enclosing_stmt(pm, saves[0])
    val = ev.eval_at(sst, saves[0].args[0])
    path = ev.eval_at(sst, saves[0].args[1])
    tn = [t.id for t in ast.walk(loop.target) if isinstance(t, ast.Name)]
    ctx.need(len(tn) == 2, R, "writer loop target is not (utt_ids, feats)")
    ok = cc.is_call(val, "getitem") and val.args[1] == S.sym(tn[1]) and val.args[2] == S.ZERO
    if not ok and cc.is_call(val, ".squeeze") and len(val.args) == 3 and val.args[1] == S.sym(tn[1]) and val.args[2] == S.ZERO:
        # the loader yields batches of one (no batch_size / batch_sampler argument): dropping the batch axis is taking element 0
        mk = [c for c in astq.func_calls(tool) if (prog.qualify(tool.module, c.func, tool) or "").endswith("DataLoader")]
        ok = len(mk) == 1 and not any(k.arg in ("batch_size", "batch_sampler", "collate_fn") for k in mk[0].keywords) and len(mk[0].args) <= 1
    ctx.check(ok, R, tool, sst, "the tensor saved is the (single) batch element yielded by the dataset",
              "the tensor saved is %s, not %s[0]" % (_short(val), tn[1]))
    idexpr = S.call("getitem", S.sym(tn[0]), S.ZERO)
    ctx.check(any(x == idexpr for x in S.walk(path)), R, tool, sst, "the file name is derived from the utterance's own id",
              "the output path %s does not contain %s[0]" % (_short(path), tn[0]))


# --------------------------------------------------------------- R-C09-attrs
def _family_type(prog, f, node, env):
    """Class (family) of an expression, through alias_factory_subclass_from_arg and
    property return annotations.  Returns ClassInfo or None."""
    if isinstance(node, ast.Name):
        return env.get(node.id)
    if isinstance(node, ast.Attribute):
        base = _family_type(prog, f, node.value, env)
        if base is None:
            return None
        m = None
        fam = set(prog.mro(base))
        for s in prog.subclasses(base):
            fam.update(prog.mro(s))
        for k in sorted(fam, key=lambda c: c.qualname):
            if node.attr in k.methods:
                m = k.methods[node.attr]
                if m.returns is not None:
                    r = prog.resolve(m.module, m.returns, m)
                    if isinstance(r, ClassInfo):
                        return r
        return None
    return None


def attrs(ctx):
    prog = ctx.prog
    R = "R-C09-attrs"
    afs = _afs(prog)
    pairs = [("command_line.compute_feats_from_kaldi_tables", "command_line._compute_feats_from_kaldi_tables_parse_args"),
             ("command_line.signals_to_torch_feat_dir", "command_line._signals_to_torch_feat_dir_parse_args")]
    n_reads = 0
    for tool, parser in pairs:
        f, pf = prog.func(tool), prog.func(parser)
        dests = cc.parser_dests(prog, pf)
        ctx.need(len(dests) >= 8, R, "argparse declarations of %s not found" % pf.short)
        # the tool parses its own options with its own parser
        ok = any(prog.resolve(f.module, c.func, f) is pf for c in astq.func_calls(f))
        ctx.check(ok, R, f, f.node, "%s parses its arguments with %s" % (f.name, pf.name))
        for a in cc.options_reads(f):
            n_reads += 1
            ctx.check(a.attr in dests, R, f, a, "options.%s is declared by the tool's parser" % a.attr,
                      "options.%s is read but %s declares no such argument (AttributeError at run time)" % (a.attr, pf.name))
        # attribute chains on family-typed locals
        env = {}
        for n in f.body_nodes():
            if isinstance(n, ast.Assign) and len(n.targets) == 1 and isinstance(n.targets[0], ast.Name):
                v = n.value
                if isinstance(v, ast.Call) and prog.resolve(f.module, v.func, f) is afs and len(v.args) == 2:
                    r = prog.resolve(f.module, v.args[0], f)
                    if isinstance(r, ClassInfo) and n.targets[0].id not in env:
                        env[n.targets[0].id] = r
        # names re-bound to something else lose their family
        rebound = {}
        for n in f.body_nodes():
            if isinstance(n, ast.Assign):
                for t in n.targets:
                    if isinstance(t, ast.Name) and t.id in env:
                        rebound[t.id] = rebound.get(t.id, 0) + 1
        for n in f.body_nodes():
            if isinstance(n, ast.Attribute) and isinstance(n.ctx, ast.Load):
                base = _family_type(prog, f, n.value, env)
                if base is None:
                    continue
                if isinstance(n.value, ast.Name) and rebound.get(n.value.id, 0) > 1:
                    continue  # re-bound (e.g. converted to a torch module)
                ctx.check(prog.has_attr_in_family(base, n.attr), R, f, n,
                          "%s exists in the %s family" % (astq.text(n), base.name),
                          "%s: no class in the %s hierarchy defines `%s`; this expression always raises AttributeError"
                          % (astq.text(n), base.name, n.attr))
    ctx.floor(R, n_reads, 25)


# ---------------------------------------------------------- R-C09-exclusions
def exclusions(ctx):
    prog = ctx.prog
    R = "R-C09-exclusions"
    f = prog.func("command_line.compute_feats_from_kaldi_tables")
    loop = cc.find_loop_over(f, lambda n: any(isinstance(x, ast.Name) and x.id == "wav_reader" for x in ast.walk(n.iter)))[0]
    pm = astq.parents(f)
    tn = [t.id for t in ast.walk(loop.target) if isinstance(t, ast.Name)]
    ctx.need(len(tn) == 4, R, "loop target is no longer (utt_id, (buff, samp_freq, duration))")
    uid, buff, samp, dur = tn
    reasons = {
        "min-duration": lambda names, attrs: dur in names and "min_duration" in attrs,
        "sampling-rate mismatch": lambda names, attrs: samp in names and ("sampling_rate" in attrs),
        "channel out of range": lambda names, attrs: "channel" in attrs and buff in names,
    }
    n_exits = 0
    seen = set()
    # locals bound once to an expression stand for it in the guards (options.min_duration read into a local before the loop ...)
    once = {}
    for n_ in f.body_nodes():
        if isinstance(n_, ast.Assign) and len(n_.targets) == 1 and isinstance(n_.targets[0], ast.Name):
            once.setdefault(n_.targets[0].id, []).append(n_.value)
        elif isinstance(n_, ast.Assign) and len(n_.targets) == 1 and isinstance(n_.targets[0], ast.Tuple) and isinstance(n_.value, ast.Tuple) \
                and len(n_.targets[0].elts) == len(n_.value.elts):
            for t_, v_ in zip(n_.targets[0].elts, n_.value.elts):
                if isinstance(t_, ast.Name):
                    once.setdefault(t_.id, []).append(v_)

    def expand(test):
        names, attrs_, todo, done = set(), set(), [test], set()
        while todo:
            e = todo.pop()
            for x in ast.walk(e):
                if isinstance(x, ast.Name):
                    names.add(x.id)
                    if x.id in once and len(once[x.id]) == 1 and x.id not in done and x.id not in (uid, buff, samp, dur):
                        done.add(x.id)
                        todo.append(once[x.id][0])
                elif isinstance(x, ast.Attribute):
                    attrs_.add(x.attr)
        return names, attrs_
    for n in ast.walk(loop):
        if isinstance(n, (ast.Continue, ast.Break, ast.Return, ast.Raise)) and n is not loop:
            n_exits += 1
            guards = [a for a in astq.ancestors(pm, n) if isinstance(a, ast.If) and _within(loop, a)]
            ok = False
            for gi in guards:
                names, attrs_ = expand(gi.test)
                for rname, pred in reasons.items():
                    if pred(names, attrs_):
                        ok = True
                        seen.add(rname)
            ctx.check(ok and isinstance(n, ast.Continue), R, f, guards[0] if guards else MISSING(n),
                      "an utterance is skipped only for a documented reason (min-duration, sampling rate, channel)",
                      "the per-utterance loop can drop an utterance (%s) under a condition that is none of: "
                      "min-duration, sampling-rate mismatch, channel out of range -- guard: %s"
                      % (type(n).__name__.lower(), astq.text(guards[0].test) if guards else "none"))
    ctx.floor(R, n_exits, 3)
    ctx.check(seen == set(reasons), R, f, loop, "all three documented exclusions are implemented",
              "documented exclusion(s) missing from the loop: %s" % sorted(set(reasons) - seen))
    # the list of utterances is iterated in full
    it = loop.iter
    ok = not any(isinstance(x, (ast.Subscript,)) for x in ast.walk(it)) and \
        not any(isinstance(x, ast.Call) and isinstance(x.func, ast.Name) and x.func.id in ("reversed", "filter", "islice") for x in ast.walk(it))
    ctx.check(ok, R, f, loop, "every entry of the wave table is visited", "the wave table is sliced/filtered: %s" % astq.text(it))
    # torch tool: __getitem__ raises only for unreadable input and channel problems; no skipping
    ds = prog.cls("command_line._FeatureProcessorDataset")
    g = prog.own_method(ds, "__getitem__")
    pmg = astq.parents(g)
    for r in astq.raises_of(g):
        in_handler = any(isinstance(a, ast.ExceptHandler) for a in astq.ancestors(pmg, r))
        guards = [a for a in astq.ancestors(pmg, r) if isinstance(a, ast.If)]
        chan = any("channel" in {x.attr for x in ast.walk(gi.test) if isinstance(x, ast.Attribute)} for gi in guards)
        if not chan and not in_handler:
            # the channel read through a local: decide on the forward-substituted path condition
            try:
                gsym = SymEval(prog, g).run().guard_of(r)
                chan = any(nm.endswith(".channel") or nm == "channel" for nm in S.symbols(gsym))
            except Exception:
                chan = False
        ctx.check(in_handler or chan, R, g, r, "__getitem__ fails only for unreadable input or a channel mismatch",
                  "__getitem__ raises under a condition that is neither a read error nor a channel mismatch")
    ln = prog.own_method(ds, "__len__")
    rets = astq.returns_of(ln)
    ok = len(rets) == 1 and astq.text(rets[0].value) in ("len(self.utt_path)",)
    ctx.check(ok, R, ln, rets[0] if rets else MISSING(ln.node), "the dataset yields every remaining utterance (len == number of work items)",
              "__len__ is not len(self.utt_path); some utterances would never be produced")
    tool = prog.func("command_line.signals_to_torch_feat_dir")
    loop2 = cc.find_loop_over(tool, lambda n: astq.is_name(n.iter, "loader"))[0]
    for n in ast.walk(loop2):
        if isinstance(n, (ast.Continue, ast.Break)):
            ctx.bad(R, tool, n, "the writer loop skips or stops before storing an utterance", "no utterance is skipped by the writer loop")
    ctx.ok(R, tool.loc(loop2), "the writer loop has no continue/break")
    # map parsing: lines are dropped only when blank; duplicates and malformed lines abort
    for n in tool.body_nodes():
        if isinstance(n, ast.Continue):
            guards = [a for a in astq.ancestors(astq.parents(tool), n) if isinstance(a, ast.If)]
            t = astq.text(guards[0].test) if guards else ""
            ok = bool(guards) and t in ("not line", "line == ''", "not len(line)")
            ctx.check(ok, R, tool, guards[0] if guards else MISSING(n), "map lines are skipped only when blank",
                      "a map line (utterance) is skipped under `%s`" % t)


def _within(outer, node):
    return any(x is node for x in ast.walk(outer))


# ------------------------------------------------------- R-C09-config-syntax
def config_syntax(ctx):
    prog = ctx.prog
    R = "R-C09-config-syntax"
    cm = prog.module("command_line")
    ct = cm.functions.get("_config_type")
    ctx.need(ct is not None, R, "_config_type vanished")
    for parser in ("command_line._compute_feats_from_kaldi_tables_parse_args", "command_line._signals_to_torch_feat_dir_parse_args"):
        pf = prog.func(parser)
        dests = cc.parser_dests(prog, pf)
        for d in ("computer_config", "preprocess", "postprocess"):
            c = dests.get(d)
            ctx.need(c is not None, R, "%s no longer declares %s" % (pf.name, d))
            t = astq.kw(c, "type")
            ctx.check(t is not None and prog.resolve(pf.module, t, pf) is ct, R, pf, c,
                      "%s is parsed by the shared _config_type" % d,
                      "argument %s of %s is not parsed with _config_type (inline JSON / JSON file / YAML file would differ)" % (d, pf.name))
    # _config_type: try the argument as a path, fall back to the string itself, one loader
    p = ct.params[0]
    tries = [n for n in ct.body_nodes() if isinstance(n, ast.Try)]
    ok_open = False
    for t in tries:
        opens = [c for c in astq.calls_in(ast.Module(body=t.body, type_ignores=[])) if astq.is_name(c.func, "open")]
        if opens and astq.is_name(opens[0].args[0], p):
            hs = [prog.dotted(h.type) for h in t.handlers if h.type is not None]
            falls_back = all(all(isinstance(s, ast.Pass) for s in h.body) for h in t.handlers)
            ok_open = bool(hs) and set(hs) <= {"IOError", "OSError", "FileNotFoundError"} and falls_back
    if not ok_open:
        # look-before-you-leap spellings.  os.path.isfile / os.path.exists answer False for every string (they swallow OSError and
        # ValueError); pathlib's is_file / exists swallow only ENOENT-like errors (before Python 3.14) and re-raise the rest -
        # ENAMETOOLONG for an inline configuration with more than 255 characters between slashes, which argparse does not catch.
        def _recv(e_):
            if isinstance(e_, ast.Name):
                vals_ = [n_.value for n_ in ct.body_nodes() if isinstance(n_, ast.Assign) and any(astq.is_name(t_, e_.id) for t_ in n_.targets)]
                return vals_[0] if len(vals_) == 1 else None
            return e_
        for n in ct.body_nodes():
            if not isinstance(n, ast.If):
                continue
            for c_ in [x for x in ast.walk(n.test) if isinstance(x, ast.Call)]:
                q_ = prog.qualify(cm, c_.func, ct) or ""
                if q_ in ("os.path.isfile", "os.path.exists") and c_.args and astq.is_name(c_.args[0], p):
                    ok_open = True
                elif isinstance(c_.func, ast.Attribute) and c_.func.attr in ("is_file", "exists") and not c_.args:
                    r_ = _recv(c_.func.value)
                    if isinstance(r_, ast.Call) and (prog.qualify(cm, r_.func, ct) or "").startswith("pathlib.") and r_.args and astq.is_name(r_.args[0], p):
                        ctx.bad(R, ct, n, "_config_type asks pathlib (`%s`) whether the argument is a file: for an inline configuration with more than "
                                "255 characters between slashes the underlying stat fails with ENAMETOOLONG, which %s() re-raises (Python < 3.14) "
                                "instead of answering False - the tool dies on an inline configuration that works from a file"
                                % (astq.text(n.test)[:60], c_.func.attr),
                                "the argument is tried as a file path and otherwise used as the inline string", robust=True)
                        ok_open = None
        if ok_open is None:
            ok_open = True  # reported above
    ctx.check(ok_open, R, ct, tries[0] if tries else MISSING(ct.node),
              "the argument is tried as a file path and otherwise used as the inline string",
              "_config_type no longer falls back to the inline string when the argument is not a readable path", structural=True)
    loads = [c for c in astq.func_calls(ct) if astq.is_name(c.func, "_load_config")]
    def _is_text(a_):
        # the parameter itself, or a local that only ever holds the parameter or what was read from the opened file
        if astq.is_name(a_, p):
            return True
        if not isinstance(a_, ast.Name):
            return False
        vals = [n_.value for n_ in ct.body_nodes() if isinstance(n_, ast.Assign) and any(astq.is_name(t_, a_.id) for t_ in n_.targets)]
        return bool(vals) and all(astq.is_name(v_, p) or (isinstance(v_, ast.Call) and astq.attr_call(v_, "read") and not v_.args) for v_ in vals)
    ctx.check(len(loads) == 1 and len(loads[0].args) == 1 and _is_text(loads[0].args[0]), R, ct, loads[0] if loads else MISSING(ct.node),
              "file contents and inline strings go through the single _load_config",
              "_config_type does not parse with the single _load_config(<string>)")
    # both definitions of _load_config parse a superset of JSON
    defs = [n for n in ast.walk(cm.tree) if isinstance(n, ast.FunctionDef) and n.name == "_load_config"]
    assigns = cm.assigns.get("_load_config", [])
    kinds = []
    for d in defs:
        calls = [c for c in ast.walk(d) if isinstance(c, ast.Call)]
        txt = " ".join(astq.text(c) for c in calls)
        kinds.append("yaml" if "YAML(" in txt and ".load(" in txt else "?")
        y = [c for c in calls if isinstance(c.func, ast.Name) and c.func.id == "YAML"]
        ctx.check(bool(y) and astq.const_str(astq.kw(y[0], "typ")) == "safe", R, ct, d,
                  "the YAML loader is the safe YAML 1.2 loader (a superset of JSON)",
                  "the YAML loader is not YAML(typ='safe')")
    for a in assigns:
        q = prog.qualify(cm, a)
        kinds.append("json" if q == "json.loads" else "?")
        ctx.check(q == "json.loads", R, ct, a, "without ruamel.yaml the loader is json.loads", "fallback loader is %s" % q)
    ctx.check("?" not in kinds and len(kinds) >= 2, R, ct, ct.node, "both loader definitions recognised (YAML 1.2 / json.loads)",
              "unrecognised _load_config definition")


# -------------------------------------------------------------- R-C09-seed
NONDET = {"hash", "id"}
NONDET_Q = ("time.", "os.urandom", "os.getpid", "random.", "uuid.", "secrets.", "datetime.")


def seed(ctx):
    prog = ctx.prog
    R = "R-C09-seed"
    # kaldi tool: np.random.seed(options.seed) under `options.seed is not None`, before the loop
    f = prog.func("command_line.compute_feats_from_kaldi_tables")
    cfg = CFG(f.node)
    seeds = [c for c in astq.func_calls(f) if prog.qualify(f.module, c.func, f) == "numpy.random.seed"]
    ctx.need(len(seeds) >= 1, R, "np.random.seed call not found in the kaldi tool")
    s = seeds[0]
    loop = cc.find_loop_over(f, lambda n: any(isinstance(x, ast.Name) and x.id == "wav_reader" for x in ast.walk(n.iter)))[0]
    nl = cfg.node(loop)
    pm = astq.parents(f)
    try:
        decided = cc.seed_call_value(ctx, R, f, s)
    except AnalysisError:
        raise
    except Exception as e:  # forward substitution gave up on the tool
        decided = False
    if not decided:
        ctx.error(R, "cannot decide what np.random.seed is called with when --seed is given: %s" % astq.text(s)[:80])
    outer = [a for a in astq.ancestors(pm, s) if isinstance(a, (ast.If, ast.For, ast.While, ast.Try, ast.With))]
    top = outer[-1] if outer else astq.enclosing_stmt(pm, s)
    ctx.check(not any(isinstance(a, (ast.For, ast.While)) for a in outer) and cfg.node(top) in cfg.dominators().get(nl, ()), R, f, s,
              "seeding precedes the per-utterance loop on every path", "the per-utterance loop can be reached without passing the seeding statement")
    # no re-seeding and no other RNG source inside the loop
    for c in astq.calls_in(loop):
        q = prog.qualify(f.module, c.func, f) or ""
        ctx.check(not q.startswith("numpy.random.") and not q.startswith("random."), R, f, c,
                  "no RNG call inside the per-utterance loop besides the pre-processors' own",
                  "the loop draws from / re-seeds an RNG itself: %s" % astq.text(c)) if (q.startswith("numpy.random.") or q.startswith("random.")) else None
    # torch tool: the seed expression of every manual_seed call
    ds = prog.cls("command_line._FeatureProcessorDataset")
    g = prog.own_method(ds, "__getitem__")
    ms = [c for c in astq.func_calls(g) if prog.qualify(g.module, c.func, g) == "torch.manual_seed"]
    ctx.need(ms, R, "torch.manual_seed not found in __getitem__")
    for c in ms:
        bad = []
        for x in ast.walk(c):
            if isinstance(x, ast.Call):
                if isinstance(x.func, ast.Name) and x.func.id in NONDET:
                    bad.append(astq.text(x))
                q = prog.qualify(g.module, x.func, g) or ""
                if any(q.startswith(p) for p in NONDET_Q):
                    bad.append(astq.text(x))
        ctx.check(not bad, R, g, c, "the per-item seed uses no process- or time-dependent source",
                  "the per-item seed depends on %s, which differs between interpreter processes / runs, so a fixed "
                  "--seed does not reproduce the output" % ", ".join(bad))
        has_base = any(astq.is_self_attr(x, g.params[0], "seed") for x in ast.walk(c))
        if not has_base:
            # the base seed may be folded into a per-utterance table by the tool: the table's argument at the construction site mentions the
            # value passed as `seed`
            tool_ = prog.func("command_line.signals_to_torch_feat_dir")
            init_ = prog.own_method(ds, "__init__")
            sites_ = [c_ for c_ in astq.func_calls(tool_) if prog.resolve(tool_.module, c_.func, tool_) is ds]
            if len(sites_) == 1 and init_ is not None:
                actual_ = dict(zip(init_.params[1:], sites_[0].args))
                actual_.update({k.arg: k.value for k in sites_[0].keywords if k.arg})
                base_ = actual_.get("seed")
                attr_par = {}
                for n_ in init_.body_nodes():
                    if isinstance(n_, ast.Assign) and len(n_.targets) == 1 and astq.is_self_attr(n_.targets[0], init_.params[0]):
                        attr_par[n_.targets[0].attr] = {x.id for x in ast.walk(n_.value) if isinstance(x, ast.Name) and x.id in init_.all_param_names()}
                for x in ast.walk(c):
                    if isinstance(x, ast.Attribute) and astq.is_self_attr(x, g.params[0]) and isinstance(base_, ast.Name):
                        for p_ in attr_par.get(x.attr, ()):
                            a_ = actual_.get(p_)
                            vals_ = [a_] if a_ is not None else []
                            if isinstance(a_, ast.Name):
                                vals_ += [n_.value for n_ in tool_.body_nodes() if isinstance(n_, ast.Assign) and any(astq.is_name(t_, a_.id) for t_ in n_.targets)]
                            if any(isinstance(y, ast.Name) and y.id == base_.id for v_ in vals_ for y in ast.walk(v_)) and p_ != "seed":
                                has_base = True
        ctx.check(has_base, R, g, c, "the per-item seed includes the base seed", "the per-item seed ignores self.seed")
    tool = prog.func("command_line.signals_to_torch_feat_dir")
    cc.base_seed(ctx, R, tool, ds)
    cc.seed_inputs_deterministic(ctx, R, tool, ds)


def seed_sources(ctx, R="R-C09-seed"):
    prog = ctx.prog
    # every seeding call of both tools: the seed is not computed from a value that differs between interpreter processes
    # (str hashes are salted per process, id() is an address); the fallback for a missing --seed may of course be random
    for fq in ("command_line.compute_feats_from_kaldi_tables", "command_line.signals_to_torch_feat_dir"):
        tf = prog.func(fq)
        for c in astq.func_calls(tf):
            q = prog.qualify(tf.module, c.func, tf) or ""
            if q not in ("numpy.random.seed", "torch.manual_seed", "random.seed") or not c.args:
                continue
            exprs = [c.args[0]]
            if isinstance(c.args[0], ast.Name):
                exprs += [n_.value for n_ in tf.body_nodes() if isinstance(n_, ast.Assign) and any(astq.is_name(t_, c.args[0].id) for t_ in n_.targets)]
            badc = [astq.text(x) for e_ in exprs for x in ast.walk(e_) if isinstance(x, ast.Call) and isinstance(x.func, ast.Name) and x.func.id in ("hash", "id")]
            ctx.check(not badc, R, tf, c, "%s: a seed is not computed from a per-process value (salted hash, id)" % tf.name,
                      "%s seeds a generator with %s, which contains %s: Python salts str hashes per interpreter process, so two invocations with the same --seed "
                      "draw different noise" % (tf.name, astq.text(c.args[0])[:60], ", ".join(badc)), robust=True)


def _in(body, node):
    return any(x is node for st in body for x in ast.walk(st))


# -------------------------------------------------------- R-C09-torch-twins
def torch_wrappers(ctx, R="R-C09-torch-twins"):
    """signals-to-torch-feat-dir runs the short-integration computer and the post-processors through their torch wrappers.  What it
    stores equals the library result only if a wrapper hands every input to the wrapped object and returns what that object
    computed: the wrapper rule of the torch module (C14) is a premise of this property and is re-established here."""
    from . import c14
    c14.wrappers(ctx, R)


def items_independent(ctx, R="R-C09-pipeline"):
    """every utterance is computed from its own signal: serving an item keeps nothing on the dataset object (a remembered
    "last file read" hands the previous utterance's samples to the next one that shares its archive) - the rule of C10, shared"""
    from . import c10
    c10.items_independent(ctx, R)


def torch_twins(ctx):
    prog = ctx.prog
    R = "R-C09-torch-twins"
    tool = prog.func("command_line.signals_to_torch_feat_dir")
    fam_concrete = {
        "computer": [c for c in prog.subclasses(prog.cls("compute.FrameComputer")) if prog.is_concrete(c)],
        "preprocessor": [c for c in prog.subclasses(prog.cls("pre.PreProcessor")) if prog.is_concrete(c)],
    }
    # the conversion code: the tool and every function of its module that it (transitively) calls
    reach, work = [], [tool]
    while work:
        g = work.pop()
        if g in reach:
            continue
        reach.append(g)
        for c_ in astq.func_calls(g):
            t_ = prog.resolve(g.module, c_.func, g)
            if isinstance(t_, FunctionInfo) and t_.module is tool.module and t_ not in reach:
                work.append(t_)
    mentioned = set()
    for g in reach:
        for x in g.body_nodes():
            if isinstance(x, (ast.Name, ast.Attribute)):
                r = prog.resolve(g.module, x, g)
                if isinstance(r, ClassInfo):
                    mentioned.add(r.qualname)
    roots = {"computer": prog.cls("compute.FrameComputer"), "preprocessor": prog.cls("pre.PreProcessor")}
    for var, classes in fam_concrete.items():
        for c in classes:
            covered = any(a_.qualname in mentioned for a_ in prog.mro(c) if a_ is not roots[var] and roots[var] in prog.mro(a_))
            ctx.check(covered, R, tool, tool.node, "%s is handled by the conversion to PyTorch modules" % c.short,
                      "the conversion code (%s) never names %s nor one of its concrete bases: a %s configuration cannot be converted and is "
                      "rejected or used unconverted" % (", ".join(g.name for g in reach)[:80], c.name, c.name))
    nie = [r_ for g in reach for r_ in astq.raises_of(g) if astq.raise_type(prog, g, r_) == "NotImplementedError"]
    ctx.check(len(nie) >= 2, R, tool, tool.node, "an unconvertible computer / pre-processor raises NotImplementedError",
              "fewer than two `raise NotImplementedError` exits in the conversion code", structural=True)
    # in-place replacement keeps list order; post-processors are wrapped by an in-order comprehension
    for n in tool.body_nodes():
        if isinstance(n, ast.For) and isinstance(n.iter, ast.Call) and astq.is_name(n.iter.func, "enumerate"):
            lst = n.iter.args[0]
            idx = n.target.elts[0] if isinstance(n.target, ast.Tuple) else None
            for s in ast.walk(n):
                if (isinstance(s, ast.Assign) and isinstance(s.targets[0], ast.Subscript) and isinstance(s.value, ast.Call)
                        and isinstance(s.value.func, ast.Attribute) and s.value.func.attr.startswith("from_")):
                    t = s.targets[0]
                    ctx.check(astq.text(t.value) == astq.text(lst) and idx is not None and astq.text(t.slice) == astq.text(idx), R, tool, s,
                              "converted pre-processors replace their originals at the same index",
                              "converted element is stored at %s, not at its own index in %s" % (astq.text(t), astq.text(lst)), structural=True)
        if isinstance(n, ast.Assign) and isinstance(n.value, ast.ListComp) and len(n.targets) == 1 and isinstance(n.targets[0], ast.Name):
            comp = n.value
            if isinstance(comp.elt, ast.Call) and isinstance(comp.elt.func, ast.Attribute) and comp.elt.func.attr.startswith("from_"):
                gen = comp.generators[0]
                ctx.check(len(comp.generators) == 1 and not gen.ifs and astq.is_name(gen.iter, n.targets[0].id), R, tool, n,
                          "post-processors are wrapped one-to-one, in order",
                          "the wrapping comprehension filters or reorders the post-processors: %s" % astq.text(comp), structural=bool(not gen.ifs))
    # factories copy their parameters: from_preemphasize / from_dither pass coeff
    tm = prog.module("torch")
    for cls, meth, attr in (("PyTorchPreemphasize", "from_preemphasize", "coeff"), ("PyTorchDither", "from_dither", "coeff")):
        c = tm.classes.get(cls)
        ctx.need(c is not None, R, "torch.%s vanished" % cls)
        m = prog.own_method(c, meth)
        rets = astq.returns_of(m)
        ok = len(rets) == 1 and isinstance(rets[0].value, ast.Call) and astq.is_name(rets[0].value.func, m.params[0]) and \
            len(rets[0].value.args) == 1 and astq.text(rets[0].value.args[0]) == "%s.%s" % (m.params[1], attr)
        ctx.check(ok, R, m, rets[0] if rets else MISSING(m.node), "%s.%s copies the NumPy object's %s" % (cls, meth, attr),
                  "%s.%s does not construct cls(<obj>.%s)" % (cls, meth, attr))


def torch_port_geometry(ctx):
    """signals-to-torch-feat-dir stores what the PyTorch port computes; the stored frames equal
    the library's compute_full only if the port has the documented framing geometry (rule
    shared with C14)."""
    from . import c14

    c14.geom_twin(ctx, R="R-C09-torch-port-geometry")


def torch_port_spectrum(ctx):
    """... and only if the port weights the spectrum the way the NumPy computer does: mirrored bins, the walk over
    the truncated response, modulus / power of the complex product, doubling for real banks (rules shared with C14)."""
    from . import c14

    c14.mirror_twin(ctx, R="R-C09-torch-port-spectrum")
    c14.torch_walk_by_evaluation(ctx, R="R-C09-torch-port-spectrum")


def torch_port_reductions(ctx):
    from . import c14

    c14.reductions(ctx, R="R-C09-torch-port-spectrum")
